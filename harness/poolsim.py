# -*- coding: UTF-8 -*-
"""
The real `windpyutils.parallel.own_proc_pools` under the controlled scheduler: a fake multiprocessing context hands out
simulated queues / locks / events, `CMThread.start/join` and the two progress flags become scheduling points (rebound by
identity for the duration of a run and restored afterwards), worker "processes" are fork-style copies run as simulated
threads.  No source hook is needed.
"""
import math
import sys

from . import simsched, core
from .simsched import Scheduler, SimQueue, SimEvent, SimLock, SharedFlag, fork_copy


class Cfg:
    def __init__(self, n_workers=2, work_cap="default", res_cap=None, factory=False, quota=None, wait_ready=False,
                 calls=((3, 1, True),), begin_fault=(), item_fault=(), ready_mid=False, none_inputs=False,
                 body_raises=False, impatient=False, input_kind=0, fault_exc="RuntimeError",
                 end_fault=(), float_chunks=False, equal_workers=False, join_timeout=False):
        """calls: (number of items, chunk_size, ordered)"""
        self.n_workers = n_workers
        self.work_cap = work_cap  # "default" (1.0) | None | int | float
        self.res_cap = res_cap
        self.factory = factory
        self.quota = quota
        self.wait_ready = wait_ready
        self.calls = [tuple(c) for c in calls]
        self.begin_fault = list(begin_fault)
        self.item_fault = [tuple(x) for x in item_fault]
        # `until_all_ready()` is also called in the middle of every call, right after its first results (model: Cfg.readyMid)
        self.ready_mid = ready_mid
        # some input elements are `None` (results too): the emitted chunk order can then not be read off the results, so the
        # final `out:` field is left out of the comparison with the model (every step is still compared)
        self.none_inputs = none_inputs
        # the with-body raises after its last call: `__exit__` is entered with the exception (same steps in the model)
        self.body_raises = body_raises
        # oracle-only runs: a timed operation (stop orders of `__exit__`, any polling the code does) may time out at any
        # moment, as it does when the other threads and processes are slow; the model has no step for a retry
        self.impatient = impatient
        # how the input is handed over, rotating per call: generator (lazily produced), list, tuple, one-shot iterator, range-like
        self.input_kind = input_kind
        # what an injected fault raises: an ordinary exception, or one that is not derived from Exception (sys.exit() inside
        # the functor, Ctrl-C) — end() runs once in every case
        self.fault_exc = fault_exc
        # workers whose end() raises (after everything else of the worker has happened: the model's steps are the same)
        self.end_fault = list(end_fault)
        # chunk sizes are handed over as floats with an integral value (2.0 for 2)
        self.float_chunks = float_chunks
        # the worker class defines value equality (all workers of a pool compare equal): the pool tells them apart by identity
        self.equal_workers = equal_workers
        # the pool is constructed with a finite `join_timeout` (model: Cfg.joinTimeout): a timed join of a worker process returns
        # whenever the scheduler lets it, whether the worker has exited or not, and the end() of a retiring worker is a step of
        # its own (a worker whose end() takes long).  The worker objects also answer like `multiprocessing.Process` objects
        # do: close() of a running one raises ValueError
        self.join_timeout = join_timeout

    @property
    def oracle_only(self):
        return self.impatient

    def work_cap_int(self):
        wc = 1.0 if self.work_cap == "default" else self.work_cap
        if isinstance(wc, float):
            wc = int(self.n_workers * wc)
        return wc

    def model_line(self):
        o = lambda v: "-" if v is None else str(v)
        calls = " ".join(f"{-(-n // int(cs))}:{1 if ordered else 0}" for n, cs, ordered in self.calls)
        wc = self.work_cap_int()
        rc = self.res_cap
        # a quota given as a float (the parameter's annotation) counts chunks like the least integer not below it
        q = None if self.quota is None else math.ceil(self.quota)
        return (f"cfg {self.n_workers} {o(wc)} {o(rc)} {1 if self.factory else 0} {o(q)} "
                f"{1 if self.wait_ready else 0} calls: {calls} bf: {' '.join(map(str, self.begin_fault))} "
                f"if: {' '.join(f'{a}:{b}' for a, b in self.item_fault)}" + (" rm:1" if self.ready_mid else "") +
                (" jt:1" if self.join_timeout else "")).replace("  ", " ")

    def to_json(self):
        return dict(n_workers=self.n_workers, work_cap=self.work_cap, res_cap=self.res_cap, factory=self.factory,
                    quota=self.quota, wait_ready=self.wait_ready, calls=self.calls, begin_fault=self.begin_fault,
                    item_fault=self.item_fault, ready_mid=self.ready_mid, none_inputs=self.none_inputs,
                    body_raises=self.body_raises, impatient=self.impatient, input_kind=self.input_kind,
                    fault_exc=self.fault_exc, end_fault=self.end_fault, float_chunks=self.float_chunks,
                    equal_workers=self.equal_workers, join_timeout=self.join_timeout)


class SimEnv:
    """one simulated run of a pool"""

    def __init__(self, cfg: Cfg):
        from windpyutils.parallel import own_proc_pools as opp
        self.opp = opp
        self.cfg = cfg
        self.sched = Scheduler()
        self.sched.impatient = bool(getattr(cfg, "impatient", False))
        self.queues = {}
        self.event_count = 0
        self.logs = {}  # wid -> list of events (harness side, shared with the fork copies)
        self.killed = []
        self.crashed = {}
        self.results = []  # per call: list of yielded values
        self.ready_violations = []
        self.patches = []
        self.pool = None
        self.workers = []

    # ---- fake multiprocessing context --------------------------------------------------------------------------------
    def make_context(env):
        class Manager:
            def __init__(self):
                self.n = 0

            def Queue(self, maxsize=0):
                name = ["workQ", "resQ"][self.n] if self.n < 2 else f"mq{self.n}"
                self.n += 1
                q = SimQueue(env.sched, name, maxsize)
                env.queues[name] = q
                if name == "workQ":
                    # the stop-order loop of `__exit__` gives up after a time-out once every listed worker has an exit code —
                    # also while retired, unlisted workers are still busy in end() (model: exitPut on a full queue)
                    def all_listed_exited():
                        try:
                            return env.pool is not None and all(p.exitcode is not None for p in env.pool.procs)
                        except Exception:  # noqa
                            return False
                    q.timeout_useful = all_listed_exited
                return q

            def __enter__(self):
                return self

            def __exit__(self, *a):
                return None

        class Context:
            def Manager(self):
                return Manager()

            def Lock(self):
                return SimLock(env.sched, "lock")

            def Event(self):
                return LazyEvent(env)

            def Queue(self, maxsize=0):
                q = SimQueue(env.sched, "replQ", maxsize)
                env.queues["replQ"] = q
                return q

        return Context()

    # ---- patches ----------------------------------------------------------------------------------------------------------
    def patch(self, obj, attr, value):
        missing = object()
        old = obj.__dict__.get(attr, missing) if hasattr(obj, "__dict__") else getattr(obj, attr, missing)
        self.patches.append((obj, attr, old, missing))
        setattr(obj, attr, value)

    def unpatch(self):
        for obj, attr, old, missing in reversed(self.patches):
            if old is missing:
                try:
                    delattr(obj, attr)
                except AttributeError:
                    pass
            else:
                setattr(obj, attr, old)
        self.patches = []

    def install(self):
        env = self
        opp = self.opp

        class ThreadingShim:
            def __getattr__(self, name):
                import threading
                return getattr(threading, name)

            @staticmethod
            def Event():
                return LazyEvent(env)

        self.patch(opp, "threading", ThreadingShim())

        def kind(th):
            return "F" if isinstance(th, opp.FunctorPool.SendWorkThread) else "R"

        def cm_start(th):
            k = kind(th)
            env.sched.visible(f"start {k}")
            env.sched.record(f"start {k}")
            th._sim = env.sched.spawn(k, th.run)

        def cm_join(th, timeout=None):
            k = kind(th)
            env.sched.visible(f"join {k}", lambda: th._sim.finished)
            env.sched.record(f"join {k}")

        self.patch(opp.CMThread, "start", cm_start)
        self.patch(opp.CMThread, "join", cm_join)
        self.patch(opp.FunctorPool, "_sending_work", SharedFlag(self.sched, "sending", "_sim_sending"))
        self.patch(opp.FunctorPool, "_data_cnt", SharedFlag(self.sched, "dataCnt", "_sim_datacnt"))

    # ---- workers ----------------------------------------------------------------------------------------------------------
    def worker_class(env):
        opp = env.opp

        class SimWorker(opp.BaseFunctorWorker):
            def __init__(self, context):
                super().__init__(context, math.inf if env.cfg.quota is None else env.cfg.quota)
                if not getattr(env, "_labelled", False):
                    # the first worker object comes with an identifier of the user's choosing (a label); whatever the pool does
                    # with it, the identifiers it works with are unique
                    env._labelled = True
                    self.wid = 1
                self._sim_thread = None
                self._sim_exit = None
                self._chunk_no = 0

            def __call__(self, x):
                return core.pool_f(x)

            def begin(self):
                env.logs.setdefault(self.wid, []).append("b")
                if self.wid in env.cfg.begin_fault:
                    self._fault_hit = True
                    raise FAULTS[env.cfg.fault_exc]("begin failed")

            def end(self):
                # end() is a step of its own on every way out (stop order, retirement, an exception in begin() or the functor): the
                # process is still running between what ended its loop and its exit (model: WPc.ending)
                env.sched.visible(f"end W{self.wid}")
                env.sched.record(f"end W{self.wid}")
                env.logs.setdefault(self.wid, []).append("e")
                if self.wid in env.cfg.end_fault:
                    raise EndFailed("end failed")

            def start(self):
                env.sched.visible(f"start W{self.wid}")
                env.sched.record(f"start W{self.wid}")
                parent = self
                child = fork_copy(self)

                def body():
                    try:
                        child.run_logged()
                        parent._sim_exit = 0
                    except BaseException as e:  # noqa
                        if isinstance(e, simsched._Abort):
                            raise
                        if not isinstance(e, EndFailed) or getattr(child, "_fault_hit", False):
                            env.crashed[parent.wid] = type(e).__name__
                        parent._sim_exit = 1

                self._sim_thread = env.sched.spawn(f"W{self.wid}", body)

            def run_logged(self):
                # the functor is applied per item of a chunk; the lifecycle log records the chunk at its first item
                real_call = type(self).__call__
                me = self

                class Proxy:
                    pass

                orig_get = self.work_queue.get

                def logged_get(*a, **k):
                    item = orig_get(*a, **k)
                    if item is not None:
                        env.logs.setdefault(me.wid, []).append(f"i{item[0]}")
                        if (me.wid, me._chunk_no) in env.cfg.item_fault:
                            me._chunk_no += 1
                            me._fault_hit = True
                            item = (item[0], [FaultItem(env.cfg.fault_exc)] * max(1, len(item[1])))
                        else:
                            me._chunk_no += 1
                    return item

                self.work_queue = QueueView(self.work_queue, logged_get)
                self.run()

            def _check_closed(self):
                if getattr(self, "_sim_closed", False):
                    raise ValueError("process object is closed")

            def join(self, timeout=None):
                self._check_closed()
                if timeout is not None:
                    # a timed join: returns when the process has exited or when the time is over, whichever the schedule brings
                    env.sched.visible(f"join W{self.wid}")
                else:
                    env.sched.visible(f"join W{self.wid}", lambda: self._sim_thread is not None and self._sim_thread.finished)
                env.sched.record(f"join W{self.wid}")

            def is_alive(self):
                self._check_closed()
                return self._sim_thread is not None and not self._sim_thread.finished

            def close(self):
                # multiprocessing.Process.close(): releases the resources of a process that has exited, refuses a running one
                if self._sim_thread is not None and not self._sim_thread.finished:
                    raise ValueError("Cannot close a process while it is still running. You should first call join() or "
                                     "terminate().")
                self._sim_closed = True

            def __eq__(self, other):
                if env.cfg.equal_workers:
                    return isinstance(other, SimWorker)
                return self is other

            def __hash__(self):
                return 7 if env.cfg.equal_workers else id(self)

            def terminate(self):
                # SIGTERM: the process stops where it stands, nothing of its code runs any more (no `finally`)
                env.sched.visible(f"terminate W{self.wid}")
                env.sched.record(f"terminate W{self.wid}")
                t = self._sim_thread
                if t is not None and not t.finished:
                    t.finished = True
                    t.pending = None
                    self._sim_exit = -15
                    env.killed.append(self.wid)

            kill = terminate

            @property
            def exitcode(self):
                self._check_closed()
                if self._sim_thread is not None and self._sim_thread.finished:
                    return self._sim_exit if self._sim_exit is not None else 0
                return None

        return SimWorker

    # ---- run --------------------------------------------------------------------------------------------------------------
    def build(self):
        self.install()
        ctx = self.make_context()
        W = self.worker_class()
        cfg = self.cfg
        wc = 1.0 if cfg.work_cap == "default" else cfg.work_cap
        # a finite time-out: some seconds, or 0 ("do not wait at all")
        jt = {"join_timeout": (0 if (cfg.n_workers + len(cfg.calls)) % 2 == 0 else 1)} if getattr(cfg, "join_timeout", False) else {}
        if cfg.factory:
            opp = self.opp

            class Factory(opp.FunctorWorkerFactory):
                def create(self_inner):
                    return W(ctx)

            self.pool = opp.FactoryFunctorPool(cfg.n_workers, Factory(), context=ctx, work_queue_maxsize=wc,
                                               results_queue_maxsize=cfg.res_cap, **jt)
        else:
            self.pool = self.opp.FunctorPool([W(ctx) for _ in range(cfg.n_workers)], context=ctx, work_queue_maxsize=wc,
                                             results_queue_maxsize=cfg.res_cap, **jt)

    def consumer(self):
        pool = self.pool
        pool.__enter__()
        exc = (None, None, None)
        try:
            if self.cfg.wait_ready:
                pool.until_all_ready()
            made = {}
            if self.cfg.input_kind % 4 == 3:
                # all call objects are created first and consumed afterwards, one after the other: creating a call object does
                # nothing yet
                for j, (n_, cs_, ordered_) in enumerate(self.cfg.calls):
                    d_ = [core.pool_input(j, i, self.cfg.none_inputs) for i in range(n_)]
                    made[j] = pool.imap(iter(d_), cs_) if ordered_ else pool.imap_unordered(iter(d_), cs_)
            for n, cs, ordered in self.cfg.calls:
                base = len(self.results) * 1000
                data = (core.pool_input(base // 1000, i, self.cfg.none_inputs) for i in range(n))  # a lazily produced input
                kind = (self.cfg.input_kind + len(self.results)) % 5
                if kind == 4:
                    data = SizedWrapper(list(data), 1 if n % 2 else -1)  # an iterable whose len() is only an estimate
                elif kind == 1:
                    data = list(data)  # a sized input
                elif kind == 2:
                    data = tuple(data)
                elif kind == 3:
                    data = iter(list(data))
                res = []
                self.results.append(res)
                if self.cfg.input_kind % 3 == 2:
                    # a call object that is never iterated: a generator that was not started has done nothing
                    self.ghosts = getattr(self, "ghosts", []) + [pool.imap(iter([7, 8, 9]), 1), pool.imap_unordered([7, 8], 2)]
                it = made.get(len(self.results) - 1)
                if it is None:
                    csz = float(cs) if self.cfg.float_chunks else cs
                    if cs == 1 and len(self.results) % 2:
                        it = pool.imap(data) if ordered else pool.imap_unordered(data)  # the default chunk size is 1
                    else:
                        it = pool.imap(data, csz) if ordered else pool.imap_unordered(data, csz)
                first = True
                for x in it:
                    res.append(x)
                    if first and self.cfg.ready_mid:
                        first = False
                        listed_before = list(pool.procs)
                        pool.until_all_ready()
                        # at the moment it returns, every worker that the pool listed when the call started and still lists
                        # must have completed begin() (a successor listed by the replace thread in between is not one the
                        # call could have waited for)
                        late = [p.wid for p in pool.procs if any(p is q for q in listed_before) and not p.begin_finished.flag]
                        if late:
                            self.ready_violations.append(late)
            if self.cfg.body_raises:
                raise BodyRaised("the with-body raises after its last call")
        except BodyRaised as e:
            exc = (type(e), e, e.__traceback__)
        finally:
            pool.__exit__(*exc)

    def run(self, chooser, on_step=None):
        """returns ('done' | 'deadlock', schedule, log)"""
        schedule = []
        try:
            self.build()
            try:
                self.sched.spawn("C", self.consumer)
            except simsched.SchedulerError as e:
                self.final_logs, self.final_finished, self.final_procs, self.final_resq = {}, {}, [], []
                return ("stuck:" if isinstance(e, simsched.Stuck) else "scheduler:") + str(e), schedule, list(self.sched.log)

            def wrapped(en, sched):
                name = chooser(en, sched)
                schedule.append(name)
                return name

            try:
                self.sched.run(wrapped)
                status = "done"
            except simsched.Deadlock as d:
                status = "deadlock:" + ",".join(f"{t}@{op}" for t, op in d.blocked)
            except simsched.SchedulerError as e:
                # not an observation about the code's behaviour: the run cannot be controlled (see simsched.Stuck)
                status = ("stuck:" if isinstance(e, simsched.Stuck) else "scheduler:") + str(e)
            # an exception in the consumer, the feeding thread or the replace thread is a failure of the code under test
            for n, t in self.sched.threads.items():
                if t.error is not None and not n.startswith("W"):
                    status = f"error:{n}:{type(t.error).__name__}:{t.error}"
            # snapshot what the oracle looks at *before* the parked threads are released (their `finally` clauses run then)
            self.final_logs = {k: list(v) for k, v in self.logs.items()}
            self.final_finished = {n: t.finished for n, t in self.sched.threads.items()}
            self.final_procs = [(p.wid, p.exitcode) for p in self.pool.procs]
            self.final_resq = list(self.queues["resQ"].items) if "resQ" in self.queues else []
            return status, schedule, list(self.sched.log)
        finally:
            self.sched.abort()
            self.unpatch()

    def digest(self):
        def show(q):
            return ",".join(SimQueue._show(x) for x in self.queues[q].items) if q in self.queues else ""
        return f"wq:{show('workQ')}|rq:{show('resQ')}|pq:{show('replQ')}"

    def expected(self):
        """what every call should have yielded"""
        exp = []
        for k, (n, cs, ordered) in enumerate(self.cfg.calls):
            exp.append([core.pool_f(core.pool_input(k, i, self.cfg.none_inputs)) for i in range(n)])
        return exp


class EndFailed(RuntimeError):
    pass


class SizedWrapper:
    """an iterable with a `len()` that is not the number of items it yields (a progress-bar wrapper with an estimated total,
    a collection that changes): what counts for a map over an iterable is what iteration yields"""

    def __init__(self, items, delta):
        self.items = items
        self.delta = delta

    def __iter__(self):
        return iter(self.items)

    def __len__(self):
        return max(0, len(self.items) + self.delta)


class BodyRaised(Exception):
    pass


FAULTS = {"RuntimeError": RuntimeError, "SystemExit": SystemExit, "KeyboardInterrupt": KeyboardInterrupt}


class FaultItem:
    def __init__(self, exc="RuntimeError"):
        self.exc = exc

    def __mul__(self, other):
        raise FAULTS[self.exc]("functor failed")


class QueueView:
    """forwards to a queue, with `get` replaced (harness-side lifecycle logging; adds no visible operation)"""

    def __init__(self, q, get):
        self._q = q
        self.get = get

    def __getattr__(self, name):
        return getattr(self._q, name)


class LazyEvent(SimEvent):
    """an event whose name is the attribute it was assigned to (`F.run_event`, `W3.begin_finished`, …)"""

    def __init__(self, env):
        owner = sys._getframe(2).f_locals.get("self")
        SimEvent.__init__(self, env.sched, None)
        self._owner = owner
        self._env = env

    def _resolve(self):
        o = self._owner
        attr = next((k for k, v in vars(o).items() if v is self), "event")
        opp = self._env.opp
        if isinstance(o, opp.FunctorPool.SendWorkThread):
            return f"F.{attr}"
        if isinstance(o, opp.CMThread):
            return f"R.{attr}"
        if hasattr(o, "wid"):
            return f"W{o.wid}.{attr}"
        return f"?.{attr}"

    def __getattribute__(self, item):
        if item == "name":
            n = object.__getattribute__(self, "__dict__").get("name")
            if n is None:
                n = self._resolve()
                # worker ids are assigned after construction: cache only once the owner is final
                if not n.startswith("WNone"):
                    self.__dict__["name"] = n
            return n
        return object.__getattribute__(self, item)
