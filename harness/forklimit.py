# -*- coding: UTF-8 -*-
"""
C18, a forked child that has no file descriptor to spare: the child inherits the opened file object, then every free descriptor
slot of the child is used up (soft RLIMIT_NOFILE lowered to the highest open descriptor + 1, the gaps below filled).  Its first
access has to give up the inherited handle before it can open its own — closing first and opening afterwards works, there is
always the slot of the handle that was closed.  Every line read by the child and (meanwhile) by the parent has to be the right one.
Run as a subprocess in its own session:  python -m harness.forklimit <variant> <seed>
"""
import os
import random
import resource
import select
import signal
import sys
import tempfile

REPO = os.environ.get("WINDPYUTILS_REPO", "/repo")
if REPO not in sys.path:
    sys.path.insert(0, REPO)


def main(variant, seed):
    import codecs  # noqa: everything the read path may import lazily is loaded before descriptors get scarce
    import encodings.utf_8  # noqa
    import io  # noqa
    import mmap  # noqa
    import traceback  # noqa
    from windpyutils import files
    rng = random.Random(seed)
    lines = [f"line {i} " + "xyzé"[i % 4] * rng.randint(0, 30) for i in range(rng.randint(4, 20))]
    d = tempfile.mkdtemp(prefix="c18lim_", dir=os.environ.get("VERIF_SCRATCH") or None)
    path = os.path.join(d, "f.txt")
    with open(path, "w", encoding="utf-8", newline="\n") as f:
        f.write("".join(l + "\n" for l in lines))
    problems = []
    try:
        if variant == "MapAccessFile":
            offs, o = {}, 0
            for i, l in enumerate(lines):
                offs[f"k{i}"] = o
                o += len((l + "\n").encode())
            obj = files.MapAccessFile(path, offs)
            key = lambda n: f"k{n}"
            norm = lambda s: s.rstrip("\n")
        else:
            obj = getattr(files, variant)(path)
            key = lambda n: n
            norm = lambda s: s
        obj.open()
        if norm(obj[key(0)]) != lines[0]:
            problems.append("the parent's first read is wrong")
        r, w = os.pipe()
        order = list(range(len(lines)))
        rng.shuffle(order)
        pid = os.fork()
        if pid == 0:
            rep = "fine"
            try:
                os.close(r)
                soft, hard = resource.getrlimit(resource.RLIMIT_NOFILE)
                top = max(int(x) for x in os.listdir("/proc/self/fd"))
                resource.setrlimit(resource.RLIMIT_NOFILE, (top + 1, hard))
                fill = []
                try:
                    while True:
                        fill.append(os.open("/dev/null", os.O_RDONLY))
                except OSError:
                    pass  # every slot below the limit is in use now
                for i in order:
                    try:
                        v = norm(obj[key(i)])
                    except BaseException as e:  # noqa
                        v = f"<{type(e).__name__}: {e}>"
                    if v != lines[i]:
                        rep = f"obj[{i}] in the child (no descriptor to spare) returned {v!r}, the line is {lines[i]!r}"
                        break
            except BaseException as e:  # noqa
                rep = f"the child's preparation failed: {type(e).__name__}: {e}"
            finally:
                try:
                    os.write(w, rep.encode("utf-8", "replace"))
                finally:
                    os._exit(0)
        os.close(w)
        # the parent keeps reading through its own handle meanwhile
        for i in reversed(order):
            if norm(obj[key(i)]) != lines[i]:
                problems.append(f"obj[{i}] in the parent returned a wrong line while a child was reading")
                break
        ready, _, _ = select.select([r], [], [], 20)
        if not ready:
            os.kill(pid, signal.SIGKILL)
            problems.append("the child did not finish within 20 s")
        else:
            rep = os.read(r, 65536).decode("utf-8", "replace")
            if rep != "fine":
                problems.append(rep)
        os.close(r)
        os.waitpid(pid, 0)
        for i in order[:5]:
            if norm(obj[key(i)]) != lines[i]:
                problems.append(f"obj[{i}] in the parent returned a wrong line after the child had finished")
                break
        obj.close()
    finally:
        import shutil
        shutil.rmtree(d, ignore_errors=True)
    for p in problems[:3]:
        print("WRONG", variant + ":", p)
    print("DONE" if not problems else "FAILED")
    return 0 if not problems else 1


if __name__ == "__main__":
    sys.exit(main(sys.argv[1], int(sys.argv[2])))
