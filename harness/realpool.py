# -*- coding: UTF-8 -*-
"""
Real-process runs of FunctorPool / FactoryFunctorPool (thorough tier of C02/C03): the scenarios whose outcome depends on
*timing* of the input iterator (late items, late StopIteration) and on real multiprocessing primitives — a cross-check that
the simulated primitives of the controlled scheduler do not hide behaviour of the real ones.  Run as a subprocess in its own
session so that a hang can be killed as a whole process group:   python -m harness.realpool <scenario>
"""
import os
import sys
import time

REPO = os.environ.get("WINDPYUTILS_REPO", "/repo")
if REPO not in sys.path:
    sys.path.insert(0, REPO)


def slow_tail(n, delay):
    for i in range(n):
        yield i
    time.sleep(delay)  # exhaustion signalled late, after every result was consumed


def slow_items(n, delay):
    for i in range(n):
        time.sleep(delay)
        yield i


SCENARIOS = {
    # name: (factory, workers, quota, work_cap, res_cap, [(iterator factory, chunk, ordered)])
    "late_exhaustion": (False, 2, None, 1.0, None, [(lambda: slow_tail(2, 1.0), 1, True), (lambda: slow_tail(3, 0.7), 2, False)]),
    "late_items_flow_control": (False, 2, None, 1.0, 1, [(lambda: slow_items(6, 0.05), 1, True), (lambda: iter([]), 1, True)]),
    "factory_quota_two_calls": (True, 2, 1, 1.0, None, [(lambda: slow_tail(3, 0.5), 1, True), (lambda: iter(range(4)), 1, False)]),
    "factory_quota_bounded": (True, 1, 2, None, 2, [(lambda: iter(range(5)), 1, True), (lambda: slow_tail(2, 0.5), 1, True)]),
    # D19 (repaired): both workers retire only after the replace thread of the last call has gone (they are slow between
    # handing over their last result and retiring), the work queue has room for one stop order only
    "d19_late_retirement": (True, 2, 1, 1, None, [(lambda: iter(range(2)), 1, True)]),
}
SLOW_RETIRE = {"d19_late_retirement": 1.0}
# results far larger than a pipe buffer, `None` and falsy inputs
SCENARIOS["big_results"] = (False, 2, None, 1.0, 2, [(lambda: iter(range(6)), 1, True), (lambda: iter(range(5)), 2, False)])
SCENARIOS["factory_big_results"] = (True, 2, 2, 1.0, None, [(lambda: iter(range(6)), 1, True)])
SCENARIOS["none_inputs"] = (False, 2, None, 1.0, None, [(lambda: iter([0, None, 2, None, None, 5, 0.0]), 2, True),
                                                        (lambda: iter([None]), 1, False)])
# items that are equal but distinguishable (1, True, 1.0) in one chunk, a functor that tells them apart
SCENARIOS["equal_items"] = (False, 2, None, 1.0, None, [(lambda: iter([1, True, 1.0, 1, 2, 2.0, 0, False, 0.0, -0.0]), 3, True),
                                                         (lambda: iter([True, 1, 1.0, 1]), 4, False)])
SCENARIOS["exception_values"] = (False, 2, None, 1.0, None, [(lambda: iter(range(7)), 2, True), (lambda: iter(range(5)), 1, False)])
BIG = 1 << 20


def fun(name, x):
    if name in ("big_results", "factory_big_results"):
        return (x, bytes([x % 251]) * BIG)
    if x is None:
        return None
    if name == "equal_items":
        return (type(x).__name__, repr(x))
    if name == "exception_values":
        # an exception instance returned (not raised) is a value like any other
        return ("exc", "ValueError", x) if False else (ValueError("multiple of three", x) if x % 3 == 0 else x)
    return x * 2 + 1


def main(name):
    import math
    from windpyutils.parallel.own_proc_pools import FunctorPool, FactoryFunctorPool, FunctorWorker, FunctorWorkerFactory

    factory, workers, quota, work_cap, res_cap, calls = SCENARIOS[name]

    class W(FunctorWorker):
        def __call__(self, x):
            return fun(name, x)

    if name in SLOW_RETIRE:
        class W(W):  # noqa: the countdown of the quota reaching zero takes a while (a slow worker, nothing else)
            @property
            def max_chunks_per_worker(self):
                return self._quota_left

            @max_chunks_per_worker.setter
            def max_chunks_per_worker(self, v):
                if v == 0:
                    time.sleep(SLOW_RETIRE[name])
                self._quota_left = v

    class F(FunctorWorkerFactory):
        def create(self):
            return W(math.inf if quota is None else quota)

    if factory:
        pool = FactoryFunctorPool(workers, F(), work_queue_maxsize=work_cap, results_queue_maxsize=res_cap)
    else:
        pool = FunctorPool([W() for _ in range(workers)], work_queue_maxsize=work_cap, results_queue_maxsize=res_cap)
    ok = True
    with pool:
        for mk, chunk, ordered in calls:
            data = list(mk())
            exp = [fun(name, x) for x in data]
            got = list(pool.imap(mk(), chunk) if ordered else pool.imap_unordered(mk(), chunk))
            cn = lambda v: (type(v).__name__, v.args) if isinstance(v, BaseException) else v
            got, exp = [cn(v) for v in got], [cn(v) for v in exp]
            if (got != exp) if ordered else (sorted(got, key=repr) != sorted(exp, key=repr)):
                print(f"WRONG {name}: got {got}, expected {exp}")
                ok = False
    print("DONE" if ok else "FAILED")
    return 0 if ok else 1


if __name__ == "__main__":
    sys.exit(main(sys.argv[1]))
