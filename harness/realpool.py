# -*- coding: UTF-8 -*-
"""
Real-process runs of FunctorPool / FactoryFunctorPool (thorough tier of C02/C03): the scenarios whose outcome depends on
*timing* of the input iterator (late items, late StopIteration) and on real multiprocessing primitives — a cross-check that
the simulated primitives of the controlled scheduler do not hide behaviour of the real ones.  Run as a subprocess in its own
session so that a hang can be killed as a whole process group:   python -m harness.realpool <scenario>
"""
import os
import sys
import time

REPO = os.environ.get("WINDPYUTILS_REPO", "/repo")
if REPO not in sys.path:
    sys.path.insert(0, REPO)


def slow_tail(n, delay):
    for i in range(n):
        yield i
    time.sleep(delay)  # exhaustion signalled late, after every result was consumed


def slow_items(n, delay):
    for i in range(n):
        time.sleep(delay)
        yield i


SCENARIOS = {
    # name: (factory, workers, quota, work_cap, res_cap, [(iterator factory, chunk, ordered)])
    "late_exhaustion": (False, 2, None, 1.0, None, [(lambda: slow_tail(2, 1.0), 1, True), (lambda: slow_tail(3, 0.7), 2, False)]),
    "late_items_flow_control": (False, 2, None, 1.0, 1, [(lambda: slow_items(6, 0.05), 1, True), (lambda: iter([]), 1, True)]),
    "factory_quota_two_calls": (True, 2, 1, 1.0, None, [(lambda: slow_tail(3, 0.5), 1, True), (lambda: iter(range(4)), 1, False)]),
    "factory_quota_bounded": (True, 1, 2, None, 2, [(lambda: iter(range(5)), 1, True), (lambda: slow_tail(2, 0.5), 1, True)]),
    # D19 (repaired): both workers retire only after the replace thread of the last call has gone (they are slow between
    # handing over their last result and retiring), the work queue has room for one stop order only
    "d19_late_retirement": (True, 2, 1, 1, None, [(lambda: iter(range(2)), 1, True)]),
}
SLOW_RETIRE = {"d19_late_retirement": 1.0}
# results far larger than a pipe buffer, `None` and falsy inputs
SCENARIOS["big_results"] = (False, 2, None, 1.0, 2, [(lambda: iter(range(6)), 1, True), (lambda: iter(range(5)), 2, False)])
SCENARIOS["factory_big_results"] = (True, 2, 2, 1.0, None, [(lambda: iter(range(6)), 1, True)])
SCENARIOS["none_inputs"] = (False, 2, None, 1.0, None, [(lambda: iter([0, None, 2, None, None, 5, 0.0]), 2, True),
                                                        (lambda: iter([None]), 1, False)])
# items that are equal but distinguishable (1, True, 1.0) in one chunk, a functor that tells them apart
SCENARIOS["equal_items"] = (False, 2, None, 1.0, None, [(lambda: iter([1, True, 1.0, 1, 2, 2.0, 0, False, 0.0, -0.0]), 3, True),
                                                         (lambda: iter([True, 1, 1.0, 1]), 4, False)])
SCENARIOS["exception_values"] = (False, 2, None, 1.0, None, [(lambda: iter(range(7)), 2, True), (lambda: iter(range(5)), 1, False)])
BIG = 1 << 20


def fun(name, x):
    if name in ("big_results", "factory_big_results"):
        return (x, bytes([x % 251]) * BIG)
    if x is None:
        return None
    if name == "equal_items":
        return (type(x).__name__, repr(x))
    if name == "exception_values":
        # an exception instance returned (not raised) is a value like any other
        return ("exc", "ValueError", x) if False else (ValueError("multiple of three", x) if x % 3 == 0 else x)
    return x * 2 + 1


def make_pool(factory, workers, quota, work_cap=1.0, res_cap=None, name="plain"):
    import math
    from windpyutils.parallel.own_proc_pools import FunctorPool, FactoryFunctorPool, FunctorWorker, FunctorWorkerFactory

    class W(FunctorWorker):
        def __call__(self, x):
            return fun(name, x)

    class F(FunctorWorkerFactory):
        def create(self):
            return W(math.inf if quota is None else quota)

    if factory:
        return FactoryFunctorPool(workers, F(), work_queue_maxsize=work_cap, results_queue_maxsize=res_cap)
    return FunctorPool([W() for _ in range(workers)], work_queue_maxsize=work_cap, results_queue_maxsize=res_cap)


def two_pools_interleaved():
    """two pools of the same class alive at once, their calls consumed in lock step: pools are independent of each other"""
    ok = True
    for factory in (False, True):
        a, b = make_pool(factory, 2, 2 if factory else None), make_pool(factory, 2, 1 if factory else None)
        with a, b:
            xs, ys = list(range(7)), list(range(100, 109))
            for ca, cb, ordered_b in ((1, 1, True), (2, 3, True), (1, 2, False)):
                ib = b.imap(iter(ys), cb) if ordered_b else b.imap_unordered(iter(ys), cb)
                got_a, got_b = [], []
                ia = a.imap(iter(xs), ca)
                for u, v in zip(ia, ib):
                    got_a.append(u); got_b.append(v)
                # zip asks A first and stops when A is exhausted: nothing of B was taken and dropped
                got_b += list(ib)
                got_a += list(ia)
                exp_a, exp_b = [fun("plain", x) for x in xs], [fun("plain", y) for y in ys]
                if got_a != exp_a:
                    print(f"WRONG two_pools_interleaved: pool A (factory={factory}, chunk {ca}) yielded {got_a}, map gives {exp_a}")
                    ok = False
                if (got_b != exp_b) if ordered_b else (sorted(got_b) != exp_b):
                    print(f"WRONG two_pools_interleaved: pool B (factory={factory}, chunk {cb}, ordered={ordered_b}) yielded "
                          f"{got_b}, map gives {exp_b}")
                    ok = False
    return ok


def from_thread():
    """the pool is created, entered, used and left in a thread that is not the main thread"""
    import threading
    res = {}

    def body():
        try:
            for factory in (False, True):
                with make_pool(factory, 2, 2 if factory else None) as pool:
                    res[factory] = (list(pool.imap(iter(range(6)), 2)), sorted(pool.imap_unordered(iter(range(5)), 1)))
        except BaseException as e:  # noqa
            res["err"] = f"{type(e).__name__}: {e}"

    t = threading.Thread(target=body)
    t.start()
    t.join()
    exp = ([fun("plain", x) for x in range(6)], sorted(fun("plain", x) for x in range(5)))
    if res.get("err") or res.get(False) != exp or res.get(True) != exp:
        print(f"WRONG from_thread: {res}, expected {exp} from both kinds of pool")
        return False
    return True


def low_fd_limit():
    """many replacements in one pool lifetime while the process may open few files: what a retired worker held is given back"""
    import resource
    pool = make_pool(True, 2, 1)
    ok = True
    with pool:
        first = list(pool.imap(iter(range(4)), 1))
        n_open = len(os.listdir("/proc/self/fd"))
        soft, hard = resource.getrlimit(resource.RLIMIT_NOFILE)
        resource.setrlimit(resource.RLIMIT_NOFILE, (min(soft, n_open + 120), hard))
        try:
            for k in range(12):
                data = list(range(k * 10, k * 10 + 20))
                got = list(pool.imap(iter(data), 1)) if k % 2 else sorted(pool.imap_unordered(iter(data), 1))
                if got != [fun("plain", x) for x in data]:
                    print(f"WRONG low_fd_limit: call {k} yielded {got}")
                    ok = False
                    break
        finally:
            resource.setrlimit(resource.RLIMIT_NOFILE, (soft, hard))
        if first != [fun("plain", x) for x in range(4)]:
            ok = False
    return ok


def abandoned_big_results():
    """a call whose iteration is given up after a few results, the rest (large ones) is never read; then the context is left:
    leaving must not wait for somebody to read them"""
    ok = True
    for factory in (False, True):
        pool = make_pool(factory, 2, 3 if factory else None, name="big_results")
        with pool:
            it = pool.imap(iter(range(12)), 1)
            first = [next(it)[0], next(it)[0]]
            del it
            # the pool is still usable for a complete call? (not required: an abandoned call may leave chunks behind) — only
            # leaving the context is required to work
        if first != [0, 1]:
            print(f"WRONG abandoned_big_results: the first results were {first}")
            ok = False
        alive = [p.wid for p in pool.procs if p.exitcode is None]
        if alive:
            print(f"WRONG abandoned_big_results: the context was left, workers {alive} have not exited (factory={factory})")
            ok = False
    return ok


def _child_square(conn, x):
    conn.send(x * x)
    conn.close()


def nested_children():
    """a functor that itself starts a child process (a nested pool, a subprocess helper): workers are ordinary processes that may
    have children"""
    import multiprocessing
    from windpyutils.parallel.own_proc_pools import FunctorPool, FunctorWorker

    class W(FunctorWorker):
        def __call__(self, x):
            a, b = multiprocessing.Pipe()
            p = multiprocessing.Process(target=_child_square, args=(b, x))
            p.start()
            r = a.recv()
            p.join()
            return r

    with FunctorPool([W() for _ in range(2)]) as pool:
        got = list(pool.imap(iter(range(6)), 2))
    if got != [x * x for x in range(6)]:
        print(f"WRONG nested_children: {got}")
        return False
    return True


def thread_handover():
    """a call started in one thread (the generator is created and its first result taken there) and finished in another; then
    another call from a third thread"""
    import threading
    ok = True
    for factory in (False, True):
        with make_pool(factory, 2, 2 if factory else None) as pool:
            box = {}

            def starter():
                it = pool.imap(iter(range(7)), 2)
                box["first"] = next(it)
                box["it"] = it

            t = threading.Thread(target=starter); t.start(); t.join()
            rest = list(box["it"])

            def later():
                box["second"] = sorted(pool.imap_unordered(iter(range(5)), 1))

            t2 = threading.Thread(target=later); t2.start(); t2.join(20)
            if [box.get("first")] + rest != [fun("plain", x) for x in range(7)] or box.get("second") != sorted(fun("plain", x) for x in range(5)):
                print(f"WRONG thread_handover (factory={factory}): first {box.get('first')}, rest {rest}, second call {box.get('second')}")
                ok = False
    return ok


def exit_with_running_worker():
    """the program ends right after a pool with a finite join_timeout was left while a worker is still busy with its last item:
    the worker still finishes and runs end() (it is not killed with the parent)"""
    import subprocess
    import tempfile
    d = tempfile.mkdtemp(prefix="c04exit_", dir=os.environ.get("VERIF_SCRATCH") or None)
    marker = os.path.join(d, "events")
    code = (
        "import sys, time\n"
        f"sys.path.insert(0, {REPO!r})\n"
        "from windpyutils.parallel.own_proc_pools import FunctorPool, FunctorWorker\n"
        "class W(FunctorWorker):\n"
        "    def begin(self):\n"
        f"        open({marker!r}, 'a').write('begin\\n')\n"
        "    def __call__(self, x):\n"
        "        if x == 1:\n"
        "            time.sleep(1.5)\n"
        "        return x\n"
        "    def end(self):\n"
        f"        open({marker!r}, 'a').write('end\\n')\n"
        "with FunctorPool([W()], join_timeout=0.1) as pool:\n"
        "    it = pool.imap(iter([0, 1]), 1)\n"
        "    print(next(it))\n"
    )
    try:
        p = subprocess.run([sys.executable, "-c", code], stdout=subprocess.PIPE, stderr=subprocess.STDOUT, text=True, timeout=30)
        time.sleep(0.3)
        events = open(marker).read().split() if os.path.exists(marker) else []
    finally:
        import shutil
        shutil.rmtree(d, ignore_errors=True)
    if events != ["begin", "end"]:
        print(f"WRONG exit_with_running_worker: the worker's events are {events} after the program has ended (output: {p.stdout[-200:]!r})")
        return False
    return True


def long_reorder():
    """an ordered call whose first element is slow while some fifteen hundred later chunks finish: all of them wait in the reorder
    buffer and are handed over in one go when the first arrives"""
    import math
    from windpyutils.parallel.own_proc_pools import FunctorPool, FunctorWorker

    class W(FunctorWorker):
        def __call__(self, x):
            if x == 0:
                time.sleep(1.5)
            return x * 2 + 1

    n = 1600
    with FunctorPool([W() for _ in range(3)], results_queue_maxsize=None) as pool:
        got = list(pool.imap(iter(range(n)), 1))
    if got != [x * 2 + 1 for x in range(n)]:
        print(f"WRONG long_reorder: {len(got)} results, first differing position "
              f"{next((i for i, (a, b) in enumerate(zip(got, range(1, 2 * n, 2))) if a != b), len(got))}")
        return False
    return True


def join_timeout_zero():
    """join_timeout=0 means "do not wait for a worker at all": with workers whose end() takes six seconds, a call that needs
    replacements and the leaving of the context are over long before any end() has finished"""
    import math
    from windpyutils.parallel.own_proc_pools import FactoryFunctorPool, FunctorWorker, FunctorWorkerFactory

    class W(FunctorWorker):
        def __call__(self, x):
            return x * 2 + 1

        def end(self):
            time.sleep(6)

    class F(FunctorWorkerFactory):
        def create(self):
            return W(1)

    t0 = time.time()
    with FactoryFunctorPool(2, F(), join_timeout=0) as pool:
        got = list(pool.imap(iter(range(5)), 1))
    took = time.time() - t0
    ok = True
    if got != [1, 3, 5, 7, 9]:
        print(f"WRONG join_timeout_zero: results {got}")
        ok = False
    if took > 5.0:
        print(f"WRONG join_timeout_zero: call and exit took {took:.1f} s — the pool waited for workers busy in end() although "
              f"join_timeout is 0")
        ok = False
    return ok


def other_start_methods():
    """pools whose workers are started by the forkserver / by spawn (the worker's parent process is then not the process that
    created the worker object), over an input that pauses for more than a second between items and before its end"""
    import multiprocessing
    from windpyutils.parallel.own_proc_pools import FunctorPool
    ok = True
    for method in ("forkserver", "spawn"):
        ctx = multiprocessing.get_context(method)
        cls = CtxWorker.for_context(ctx)
        with FunctorPool([cls() for _ in range(2)], ctx) as pool:
            def paused():
                yield 1
                yield 2
                time.sleep(1.6)
                yield 3
                yield 4
                time.sleep(1.3)
            got = list(pool.imap(paused()))
            got2 = sorted(pool.imap_unordered(iter(range(5)), 2))
        if got != [3, 5, 7, 9] or got2 != [1, 3, 5, 7, 9]:
            print(f"WRONG other_start_methods ({method}): {got}, {got2}")
            ok = False
    return ok


class CtxWorker:
    _classes = {}

    @classmethod
    def for_context(cls, ctx):
        return {"forkserver": ForkserverWorker, "spawn": SpawnWorker}[ctx.get_start_method()]


def _ctx_worker(method):
    import multiprocessing
    from windpyutils.parallel.own_proc_pools import BaseFunctorWorker
    ctx = multiprocessing.get_context(method)

    class _W(BaseFunctorWorker, ctx.Process):
        def __init__(self):
            super().__init__(ctx)

        def __call__(self, x):
            return x * 2 + 1

    return _W


ForkserverWorker = _ctx_worker("forkserver")
ForkserverWorker.__name__ = ForkserverWorker.__qualname__ = "ForkserverWorker"
SpawnWorker = _ctx_worker("spawn")
SpawnWorker.__name__ = SpawnWorker.__qualname__ = "SpawnWorker"


EXTRA = {"nested_children": nested_children, "thread_handover": thread_handover,
         "exit_with_running_worker": exit_with_running_worker, "long_reorder": long_reorder, "join_timeout_zero": join_timeout_zero, "abandoned_big_results": abandoned_big_results, "other_start_methods": other_start_methods, "two_pools_interleaved": two_pools_interleaved, "from_thread": from_thread, "low_fd_limit": low_fd_limit}


def main(name):
    import math
    from windpyutils.parallel.own_proc_pools import FunctorPool, FactoryFunctorPool, FunctorWorker, FunctorWorkerFactory

    if name in EXTRA:
        ok = EXTRA[name]()
        print("DONE" if ok else "FAILED")
        return 0 if ok else 1
    factory, workers, quota, work_cap, res_cap, calls = SCENARIOS[name]

    class W(FunctorWorker):
        def __call__(self, x):
            return fun(name, x)

    if name in SLOW_RETIRE:
        class W(W):  # noqa: the countdown of the quota reaching zero takes a while (a slow worker, nothing else)
            @property
            def max_chunks_per_worker(self):
                return self._quota_left

            @max_chunks_per_worker.setter
            def max_chunks_per_worker(self, v):
                if v == 0:
                    time.sleep(SLOW_RETIRE[name])
                self._quota_left = v

    class F(FunctorWorkerFactory):
        def create(self):
            return W(math.inf if quota is None else quota)

    if factory:
        pool = FactoryFunctorPool(workers, F(), work_queue_maxsize=work_cap, results_queue_maxsize=res_cap)
    else:
        pool = FunctorPool([W() for _ in range(workers)], work_queue_maxsize=work_cap, results_queue_maxsize=res_cap)
    ok = True
    with pool:
        for mk, chunk, ordered in calls:
            data = list(mk())
            exp = [fun(name, x) for x in data]
            got = list(pool.imap(mk(), chunk) if ordered else pool.imap_unordered(mk(), chunk))
            cn = lambda v: (type(v).__name__, v.args) if isinstance(v, BaseException) else v
            got, exp = [cn(v) for v in got], [cn(v) for v in exp]
            if (got != exp) if ordered else (sorted(got, key=repr) != sorted(exp, key=repr)):
                print(f"WRONG {name}: got {got}, expected {exp}")
                ok = False
    print("DONE" if ok else "FAILED")
    return 0 if ok else 1


if __name__ == "__main__":
    sys.exit(main(sys.argv[1]))
