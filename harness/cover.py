# -*- coding: UTF-8 -*-
"""
Transition coverage of an interleaving model on a small configuration: the Lean driver explores the reachable state graph
of the model (`explore <limit>`), this module turns it into a set of schedules (maximal paths from the initial state) that
together traverse *every* reachable transition, and the property's runner executes each of them on the real code under the
controlled scheduler with the usual step-by-step comparison.  Random schedules sample the interleavings; this enumerates
the model's behaviour for the configuration completely, so a reachable transition on which code and model differ cannot be
missed for it.
"""
from collections import deque

from . import core


def explore(model_name, cfg_line, limit):
    out = core.run_driver(model_name, ["reset", cfg_line, f"explore {limit}"])
    if out[1] != "ok" or not out[2].startswith("graph "):
        raise core.HarnessError(f"model {model_name} cannot explore {cfg_line!r}: {out[1:]}")
    head, _, edges = out[2].partition(" edges=")
    info = dict(kv.split("=") for kv in head.split()[1:])
    es = []
    if edges:
        for e in edges.split(","):
            a, t, b = e.split(":")
            es.append((int(a), t, int(b)))
    return int(info["states"]), info["complete"] == "1", es


def covering_paths(n_states, edges):
    """schedules (lists of thread names) from state 0, each extended to a terminal state, that traverse every edge"""
    out = [[] for _ in range(n_states)]
    parent = {0: None}
    for k, (a, t, b) in enumerate(edges):  # edges come in BFS order of their source
        out[a].append(k)
        if b not in parent:
            parent[b] = k
    covered = [False] * len(edges)
    nxt = [0] * n_states  # per state: position of the first possibly uncovered out-edge

    def tree_path(state):
        ks = []
        while parent[state] is not None:
            k = parent[state]
            ks.append(k)
            state = edges[k][0]
        ks.reverse()
        return ks

    paths = []
    for k0 in range(len(edges)):
        if covered[k0]:
            continue
        ks = tree_path(edges[k0][0]) + [k0]
        state = edges[k0][2]
        while out[state]:
            o = out[state]
            while nxt[state] < len(o) and covered[o[nxt[state]]]:
                nxt[state] += 1
            k = o[nxt[state]] if nxt[state] < len(o) else o[0]
            ks.append(k)
            covered[k] = True  # (marking while extending keeps the choice of uncovered edges current)
            state = edges[k][2]
        for k in ks:
            covered[k] = True
        paths.append([edges[k][1] for k in ks])
    return paths


def chooser_cover(path):
    """follows the planned schedule; where the real code does not offer the planned thread the first enabled one runs (the
    step-by-step comparison reports the difference of the enabled sets)"""
    it = iter(path)

    def choose(en, sched):
        t = next(it, None)
        return t if t in en else en[0]

    return choose
