# -*- coding: UTF-8 -*-
"""
Generic runner for properties whose tie to the code is: the same operation lines are executed by the real
implementation (in-process) and by the Lean model (compiled driver), and the canonical output lines are compared.

A property module provides a subclass of `SeqProp`.
"""
import os
import random
import sys
import time
import traceback

from . import core
from .core import Case, Finding, Report, HarnessError


class SeqProp:
    pid = "C00"
    model = "none"
    anchors = []  # repo files the property is anchored in
    rule = ""
    trusted_base = []
    assumptions = []
    quick_cases = 300
    thorough_cases = 5000
    search_factor = 10
    driver_args = ()
    allow_bad_op = False  # True where an op on a state that does not exist (failed constructor) is part of the protocol

    # ---- to be provided --------------------------------------------------------------------------------------------
    def corpus(self):
        """minimised past failures and the witnesses of repaired defects: run first"""
        return []

    def gen(self, rng: random.Random, n: int, tier: str):
        """yields n generated cases"""
        raise NotImplementedError

    def exhaustive(self, tier: str):
        """cases enumerated exhaustively (thorough tier); default none"""
        return []

    def run_impl(self, case: Case):
        """executes the case on the real code; one canonical output line per op"""
        raise NotImplementedError

    def oracle(self, case: Case, impl_out):
        """independent judge of the *property* on the implementation's outputs: None if fine, else a description"""
        return None

    def extra_scenarios(self, rng, tier):
        return []

    def run_extra(self, desc):
        """runs one oracle-only scenario on the real code: None if the property held, else a description"""
        return None

    def key(self, case: Case, impl_out):
        """key for counting distinct non-trivial cases (None = trivial)"""
        return hash(tuple(case.ops))

    def observable_kind(self, case: Case, i: int, model_line: str, impl_line: str):
        """'PO' if the proved spec determines this output uniquely, 'MO' for model-only observables"""
        return "PO"

    def signature(self, case: Case, impl_out, detail):
        """canonical signature of a failure (matched against `known:` entries)"""
        return None

    def histogram(self, report: Report, case: Case, impl_out):
        for op in case.ops:
            report.count("op:" + op.split(" ")[0])

    def valid(self, case: Case, model_out, impl_out):
        """a candidate produced by shrinking is only usable if neither side rejected an op"""
        return "bad-op" not in model_out and "bad-op" not in impl_out

    # ---- machinery -------------------------------------------------------------------------------------------------
    def run_model(self, cases):
        lines = []
        for c in cases:
            lines.append("reset")
            lines.extend(c.ops)
        out = core.run_driver(self.model, lines, args=self.driver_args)
        res = []
        k = 0
        for c in cases:
            assert out[k] == "reset", out[k]
            res.append(out[k + 1:k + 1 + len(c.ops)])
            k += 1 + len(c.ops)
        return res

    case_timeout = 10.0  # seconds one case may take on the implementation (a case takes milliseconds on the unchanged code)

    def safe_impl(self, case):
        try:
            out = core.call_with_alarm(lambda: self.run_impl(case), self.case_timeout)
        except core.Timeout:
            out = ["timeout"] * len(case.ops)
        except MemoryError:
            out = ["memory-error"] * len(case.ops)
        if len(out) != len(case.ops):
            raise HarnessError(f"{self.pid}: implementation runner returned {len(out)} lines for {len(case.ops)} ops")
        return out

    def first_diff(self, model_out, impl_out):
        for i, (a, b) in enumerate(zip(model_out, impl_out)):
            if a != b:
                return i
        return None

    def shrink(self, case, pred):
        """pred(case, model_out, impl_out) -> bool ; returns the smallest sub-case still satisfying pred"""

        t_end = time.time() + 90  # shrinking is a convenience: candidates that run into the per-case watchdog are expensive

        def fails(ops):
            if time.time() > t_end:
                return False
            c = Case(ops, case.meta, case.label)
            impl = self.safe_impl(c)
            model = self.run_model([c])[0]
            if not self.valid(c, model, impl):
                return False
            return pred(c, model, impl)

        ops = core.ddmin(case.ops, fails)
        return Case(ops, case.meta, case.label + " (shrunk)")

    def main(self, tier, seed, replay=None):
        report = Report(self.pid, tier, seed)
        rng = random.Random(seed * 1000003 + int(self.pid[1:]))
        known, _fixed = core.load_known_findings()
        known = [k for k in known if k["property"] == self.pid]

        if replay is not None:
            return self.do_replay(replay)

        proofs = core.check_proofs(self.pid, leanchecker=(tier == "thorough"))

        n = self.quick_cases if tier == "quick" else self.thorough_cases
        n *= core.budget_scale(self.anchors, tier, report)
        n = core.budget_div(n)
        cases = list(self.corpus())
        n_corpus = len(cases)
        cases.extend(self.gen(rng, n, tier))
        if tier == "thorough":
            ex = list(self.exhaustive(tier))
            report.extra["exhaustive_cases"] = len(ex)
            cases.extend(ex)
        report.extra["corpus_cases"] = n_corpus

        impl_outs = []
        timeouts = 0
        for c in cases:
            io = self.safe_impl(c)
            impl_outs.append(io)
            if io and io[0] == "timeout" and all(x == "timeout" for x in io):
                timeouts += 1
                if timeouts >= 3:
                    break  # the implementation no longer terminates on ordinary cases: three observations are enough
        if len(impl_outs) < len(cases):
            report.extra["cases_not_run_after_timeouts"] = len(cases) - len(impl_outs)
            cases = cases[:len(impl_outs)]
        model_outs = self.run_model(cases)

        prop_fail = None  # (case, detail)
        timeout_fail = None
        po_mismatch = None
        mo_mismatch = None
        for c, mo, io in zip(cases, model_outs, impl_outs):
            if "bad-op" in mo and not self.allow_bad_op:
                raise HarnessError(f"{self.pid}: Lean driver rejected an op of a generated case: {c.ops[mo.index('bad-op')]}")
            if io and all(x == "timeout" for x in io):
                # every operation of every property terminates: a case the implementation does not finish is a failure
                report.add_case(c, None)
                report.count("result:timeout")
                if timeout_fail is None:
                    timeout_fail = (c, f"the implementation did not finish this case within {self.case_timeout:.0f} s "
                                       f"(an operation does not terminate)")
                continue
            report.add_case(c, self.key(c, io))
            self.histogram(report, c, io)
            report.traces_validated += 1
            detail = self.oracle(c, io)
            if detail is not None and prop_fail is None:
                prop_fail = (c, detail)
            i = self.first_diff(mo, io)
            if i is not None:
                kind = self.observable_kind(c, i, mo[i], io[i])
                if kind == "PO" and po_mismatch is None:
                    po_mismatch = (c, i)
                elif kind != "PO" and mo_mismatch is None:
                    mo_mismatch = (c, i)

        # scenarios beyond the model's vocabulary (e.g. an operation of another process placed *inside* an operation):
        # executed on the real code and judged by the oracle only
        extra_fail = None
        n_extra = 0
        for desc in self.extra_scenarios(rng, tier):
            n_extra += 1
            report.evaluations += 1
            report.count("extra:" + str(desc.get("kind", "scenario")))
            d = self.run_extra(desc)
            if d is not None and extra_fail is None:
                extra_fail = (desc, d)
        report.extra["oracle_only_scenarios"] = n_extra

        violations = 0
        lines = []

        def emit(f: Finding, suffix=""):
            nonlocal violations
            sig = f.signature
            for k in known:
                if sig is not None and k["signature"] == sig:
                    lines.append(f"KNOWN-FINDING: property={self.pid} {k['what']}")
                    return
            path = report.write_replay(f, suffix)
            violations += 1
            tail = " no-failing-input-found" if f.kind != "property" else ""
            lines.append(f"VIOLATION property={self.pid} replay={path}{tail}")

        if prop_fail is None and timeout_fail is not None:
            c, detail = timeout_fail  # reported as it is: shrinking a non-terminating case would cost a watchdog period per attempt
            emit(Finding("property", c, detail, expected=self.run_model([c])[0], observed=["timeout"], signature=None))
        elif extra_fail is not None and prop_fail is None:
            desc, d = extra_fail
            emit(Finding("property", Case([], desc, "oracle-only scenario"), d, signature=None))
        elif prop_fail is not None:
            c, detail = prop_fail
            small = self.shrink(c, lambda cc, m, i: self.oracle(cc, i) is not None)
            io = self.safe_impl(small)
            d2 = self.oracle(small, io) or detail
            emit(Finding("property", small, d2, expected=self.run_model([small])[0], observed=io,
                         signature=self.signature(small, io, d2)))
        elif po_mismatch is not None:
            c, i = po_mismatch
            small = self.shrink(c, lambda cc, m, io_: (lambda j: j is not None and
                                                       self.observable_kind(cc, j, m[j], io_[j]) == "PO")(self.first_diff(m, io_)))
            io = self.safe_impl(small)
            mo = self.run_model([small])[0]
            j = self.first_diff(mo, io)
            detail = (f"implementation differs from the proved model on a property observable at op {j}: "
                      f"{small.ops[j] if j is not None else '?'}")
            emit(Finding("property", small, detail, expected=mo, observed=io, signature=self.signature(small, io, detail)))
        elif mo_mismatch is not None or not proofs.ok:
            # property no longer shown: search the implementation for a concrete property failure
            found = None
            budget = n * self.search_factor
            t_end = time.time() + (120 if tier == "quick" else 900)
            srng = random.Random(seed ^ 0x5EA7C4)
            for c in self.gen(srng, budget, "search"):
                io = self.safe_impl(c)
                report.evaluations += 1
                d = self.oracle(c, io)
                if d is not None:
                    found = (c, d)
                    break
                if time.time() > t_end:
                    break
            if found is not None:
                c, d = found
                small = self.shrink(c, lambda cc, m, i: self.oracle(cc, i) is not None)
                io = self.safe_impl(small)
                emit(Finding("property", small, self.oracle(small, io) or d, observed=io,
                             signature=self.signature(small, io, d)))
            else:
                if mo_mismatch is not None:
                    c, i = mo_mismatch
                    small = self.shrink(c, lambda cc, m, io_: self.first_diff(m, io_) is not None)
                    io = self.safe_impl(small)
                    mo = self.run_model([small])[0]
                    emit(Finding("correspondence", small,
                                 f"correspondence {self.pid}/{self.model} no longer checks (model-only observable differs);"
                                 f" no failing input found in {budget} searched cases", expected=mo, observed=io))
                else:
                    emit(Finding("proof", Case([], {}, "proof obligations"),
                                 "proof obligations no longer check: " + " | ".join(proofs.problems)))

        report.write_evidence(proofs, self.trusted_base, self.assumptions, violations, self.rule)
        for l in lines:
            print(l)
        if violations:
            return 1
        print(f"OK property={self.pid} tier={tier} seed={seed} cases={report.evaluations} "
              f"theorems={len([t for t in proofs.theorems if not t.startswith('__')])} wall={time.time() - report.t0:.1f}s")
        return 0

    def do_replay(self, path):
        import json
        r = json.load(open(path, encoding="utf-8"))
        c = Case(r["case"]["ops"], r["case"].get("meta"), r["case"].get("label", ""))
        if not c.ops and c.label == "oracle-only scenario":
            d = self.run_extra(dict(c.meta or {}))
            print("scenario:", c.meta)
            print("oracle:  ", d)
            return 1 if d is not None else 0
        io = self.safe_impl(c)
        mo = self.run_model([c])[0] if c.ops else []
        print("ops:     ", c.ops)
        print("model:   ", mo)
        print("impl:    ", io)
        d = self.oracle(c, io)
        print("oracle:  ", d)
        return 1 if (d is not None or mo != io) else 0
