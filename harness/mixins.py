# -*- coding: UTF-8 -*-
"""
Batteries for the *inherited* part of a container's interface: the classes of the library get most of their public
methods from the `collections.abc` mixins (`Mapping.get`, `MutableMapping.pop(k, default)`, the key / value / item views,
`Sequence.index(value, start, stop)`, `count`, `reversed`, `Set` comparisons and operators, …).  A class may override any of
them ("one bisect instead of two", "the C method of the underlying list"), and then the override has to behave like the
mixin it replaces.  Each battery puts the object beside the builtin container that holds the same content and compares the
*non-mutating* calls; it returns None or a description of the first difference.  The probes are values of the harness
(present and absent ones, and foreign-typed ones where the property speaks about them).
"""


def _call(fn):
    try:
        return ("ret", fn())
    except BaseException as e:  # noqa
        if isinstance(e, (KeyboardInterrupt, SystemExit)):
            raise
        return ("err", type(e).__name__)


def _same(a, b):
    if a[0] != b[0]:
        return False
    if a[0] == "err":
        return a[1] == b[1]
    x, y = a[1], b[1]
    try:
        return type(x) is type(y) and x == y if isinstance(y, (bool, type(None))) else x == y
    except Exception:  # noqa
        return x is y


SENTINEL = ("default", "object")


def mapping_battery(obj, ref, probes, foreign=(), ordered_keys=None):
    """obj: a Mapping under test, ref: the dict with the same content; ordered_keys: the iteration order the property
    prescribes (None: any order, compared as a multiset)"""
    keys = list(ref)
    want = list(ordered_keys) if ordered_keys is not None else None
    checks = []

    def add(name, f_obj, f_ref):
        checks.append((name, f_obj, f_ref))

    for k in list(probes) + list(foreign):
        is_foreign = any(k is x for x in foreign)
        in_ref = (not is_foreign) and k in ref
        add(f"{k!r} in m", lambda k=k: k in obj, lambda r=in_ref: r)
        add(f"m.get({k!r})", lambda k=k: obj.get(k), lambda k=k, r=in_ref: ref[k] if r else None)
        add(f"m.get({k!r}, default)", lambda k=k: obj.get(k, SENTINEL), lambda k=k, r=in_ref: ref[k] if r else SENTINEL)
        if not in_ref:
            # an absent key with a default: nothing is removed, the default comes back
            add(f"m.pop({k!r}, default) [absent key]", lambda k=k: obj.pop(k, SENTINEL), lambda: SENTINEL)
            add(f"m.pop({k!r}, None) [absent key]", lambda k=k: obj.pop(k, None), lambda: None)
        add(f"{k!r} in m.keys()", lambda k=k: k in obj.keys(), lambda r=in_ref: r)
        if in_ref:
            add(f"({k!r}, value) in m.items()", lambda k=k: (k, ref[k]) in obj.items(), lambda: True)
            add(f"({k!r}, other) in m.items()", lambda k=k: (k, SENTINEL) in obj.items(), lambda: False)
    add("len(m)", lambda: len(obj), lambda: len(ref))
    add("len(m.keys()), len(m.values()), len(m.items())",
        lambda: (len(obj.keys()), len(obj.values()), len(obj.items())), lambda: (len(ref),) * 3)
    if want is not None:
        add("list(m)", lambda: list(obj), lambda: want)
        add("list(m.keys())", lambda: list(obj.keys()), lambda: want)
        add("list(m.values())", lambda: list(obj.values()), lambda: [ref[k] for k in want])
        add("list(m.items())", lambda: list(obj.items()), lambda: [(k, ref[k]) for k in want])
        add("second list(m) (iteration is repeatable)", lambda: list(obj), lambda: want)
    add("m == dict", lambda: obj == dict(ref), lambda: True)
    add("m != dict", lambda: obj != dict(ref), lambda: False)
    if keys:
        other = dict(ref)
        other.pop(keys[0])
        add("m == smaller dict", lambda: obj == other, lambda: False)
        add("m.keys() & {first}", lambda: set(obj.keys() & {keys[0]}), lambda: {keys[0]})
        add("m.keys() - {first}", lambda: set(obj.keys() - {keys[0]}), lambda: set(keys[1:]))
    add("m.keys() == dict.keys()", lambda: obj.keys() == ref.keys(), lambda: True)
    add("bool(m)", lambda: bool(obj), lambda: bool(ref))
    for name, f_obj, f_ref in checks:
        a, b = _call(f_obj), _call(f_ref)
        if not _same(a, b):
            return f"{name}: the object gives {a}, a dict with the same content gives {b}"
    # nothing of the above may have changed the content
    a = _call(lambda: len(obj))
    if a != ("ret", len(ref)):
        return f"a non-mutating call changed the length: {a}, expected {len(ref)}"
    return None


def set_battery(obj, ref, probes, ordered=None, others=()):
    """obj: a Set under test, ref: the builtin set with the same content; ordered: prescribed iteration order or None"""
    checks = []

    def add(name, f_obj, f_ref):
        checks.append((name, f_obj, f_ref))

    for v in probes:
        add(f"{v!r} in s", lambda v=v: v in obj, lambda v=v: v in ref)
    add("len(s)", lambda: len(obj), lambda: len(ref))
    if ordered is not None:
        add("list(s)", lambda: list(obj), lambda: list(ordered))
        add("second list(s) (iteration is repeatable)", lambda: list(obj), lambda: list(ordered))
    add("s == set", lambda: obj == set(ref), lambda: True)
    add("s != set", lambda: obj != set(ref), lambda: False)
    add("s <= set", lambda: obj <= set(ref), lambda: True)
    add("s < set", lambda: obj < set(ref), lambda: False)
    add("s >= set", lambda: obj >= set(ref), lambda: True)
    add("bool(s)", lambda: bool(obj), lambda: bool(ref))
    for o in others:
        o = set(o)
        add(f"s <= {sorted(o)!r}", lambda o=o: obj <= o, lambda o=o: ref <= o)
        add(f"s >= {sorted(o)!r}", lambda o=o: obj >= o, lambda o=o: ref >= o)
        add(f"s == {sorted(o)!r}", lambda o=o: obj == o, lambda o=o: ref == o)
        add(f"s.isdisjoint({sorted(o)!r})", lambda o=o: obj.isdisjoint(o), lambda o=o: ref.isdisjoint(o))
        add(f"set(s & {sorted(o)!r})", lambda o=o: set(obj & o), lambda o=o: ref & o)
        add(f"set(s | {sorted(o)!r})", lambda o=o: set(obj | o), lambda o=o: ref | o)
        add(f"set(s - {sorted(o)!r})", lambda o=o: set(obj - o), lambda o=o: ref - o)
        add(f"set(s ^ {sorted(o)!r})", lambda o=o: set(obj ^ o), lambda o=o: ref ^ o)
    for name, f_obj, f_ref in checks:
        a, b = _call(f_obj), _call(f_ref)
        if not _same(a, b):
            return f"{name}: the object gives {a}, a set with the same content gives {b}"
    a = _call(lambda: len(obj))
    if a != ("ret", len(ref)):
        return f"a non-mutating call changed the length: {a}, expected {len(ref)}"
    return None


def sequence_battery(obj, ref, probes, negative_index=True):
    """obj: a Sequence under test, ref: the list with the same items; negative_index=False: the class documents that it
    rejects indices outside 0..len-1 (IndexError for negative ones too)"""
    n = len(ref)
    checks = []

    def add(name, f_obj, f_ref):
        checks.append((name, f_obj, f_ref))

    add("len(q)", lambda: len(obj), lambda: n)
    add("list(q)", lambda: list(obj), lambda: list(ref))
    add("list(reversed(q))", lambda: list(reversed(obj)), lambda: list(reversed(ref)))
    add("second list(q) (iteration is repeatable)", lambda: list(obj), lambda: list(ref))
    for v in probes:
        add(f"{v!r} in q", lambda v=v: v in obj, lambda v=v: v in ref)
        add(f"q.count({v!r})", lambda v=v: obj.count(v), lambda v=v: ref.count(v))
        add(f"q.index({v!r})", lambda v=v: obj.index(v), lambda v=v: ref.index(v))
        for start, stop in ((1, None), (0, max(n - 1, 0)), (-2, None), (n // 2, n), (1, -1)):
            if stop is None:
                add(f"q.index({v!r}, {start})", lambda v=v, a=start: obj.index(v, a), lambda v=v, a=start: ref.index(v, a))
            else:
                add(f"q.index({v!r}, {start}, {stop})", lambda v=v, a=start, b=stop: obj.index(v, a, b),
                    lambda v=v, a=start, b=stop: ref.index(v, a, b))
    def ref_item(i):
        if i < 0 and not negative_index:
            raise IndexError(i)
        return ref[i]

    for i in (0, -1, n - 1, n, -n, -n - 1):
        add(f"q[{i}]", lambda i=i: obj[i], lambda i=i: ref_item(i))
    for name, f_obj, f_ref in checks:
        a, b = _call(f_obj), _call(f_ref)
        if not _same(a, b):
            return f"{name}: the object gives {a}, a list with the same items gives {b}"
    return None
