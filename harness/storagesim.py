# -*- coding: UTF-8 -*-
"""
`windpyutils.parallel.storage.TextFileStorage` under the controlled scheduler.  Each simulated process owns a fork-style
copy of the storage object; the manager lists, the two counters and the re-entrant lock are simulated objects whose
operations are scheduling points; files live in a simulated file system whose `open`/`tell`/`write`/`flush`/`seek`/
`readline`/`remove` are scheduling points too (a `write` is visible to readers at once — `print` issues the text and the
terminator as two writes).  The names the module imported (`Manager`, `multiprocessing`, `open`, `os`) are rebound for the
duration of a run and restored afterwards.
"""
import copy
import re

from . import simsched
from .simsched import Scheduler


class SimList:
    def __init__(self, sched, name):
        self.sched = sched
        self.name = name
        self.items = []

    def _show(self, v):
        if v is None:
            return "None"
        if isinstance(v, tuple):
            return f"{v[0]}:{v[1]}"
        return str(path_id(v))

    def __len__(self):
        self.sched.visible(f"{self.name}.len")
        self.sched.record(f"{self.name}.len", len(self.items))
        return len(self.items)

    def append(self, v):
        self.sched.visible(f"{self.name}.append")
        self.items.append(v)
        self.sched.record(f"{self.name}.append", self._show(v))

    def extend(self, vs):
        vs = list(vs)
        self.sched.visible(f"{self.name}.extend")
        self.items.extend(vs)
        self.sched.record(f"{self.name}.extend", len(vs))

    def __getitem__(self, i):
        self.sched.visible(f"{self.name}.getitem")
        if isinstance(i, slice):
            raise NotImplementedError
        if not (-len(self.items) <= i < len(self.items)):
            self.sched.record(f"{self.name}.getitem", f"{i} IndexError")
            raise IndexError(i)
        v = self.items[i]
        if self.name == "paths":
            self.sched.record(f"{self.name}.getitem", f"{i}")
        else:
            self.sched.record(f"{self.name}.getitem", f"{i} {self._show(v)}")
        return v

    def __setitem__(self, i, v):
        if isinstance(i, slice):
            self.sched.visible(f"{self.name}.clear")
            self.items[i] = v
            self.sched.record(f"{self.name}.clear")
            return
        self.sched.visible(f"{self.name}.setitem")
        self.items[i] = v
        self.sched.record(f"{self.name}.setitem", f"{i} {self._show(v)}")


class SimValue:
    def __init__(self, sched, name):
        self.sched = sched
        self.name = name
        self._v = 0

    @property
    def value(self):
        self.sched.visible(f"{self.name}.read")
        self.sched.record(f"{self.name}.read", self._v)
        return self._v

    @value.setter
    def value(self, v):
        self.sched.visible(f"{self.name}.write")
        self._v = v
        self.sched.record(f"{self.name}.write", v)


class SimRLock:
    def __init__(self, sched):
        self.sched = sched
        self.holder = None
        self.depth = 0

    def acquire(self, *a, **k):
        me = self.sched.me()
        self.sched.visible("lock.acquire", lambda: self.holder is None or self.holder is me)
        self.holder = me
        self.depth += 1
        self.sched.record("lock.acquire")
        return True

    def release(self):
        self.sched.visible("lock.release")
        self.depth -= 1
        if self.depth == 0:
            self.holder = None
        self.sched.record("lock.release")

    __enter__ = acquire

    def __exit__(self, *a):
        self.release()


def path_id(path):
    m = re.search(r"_(\d+)$", str(path))
    return int(m.group(1)) if m else -1


class SimFS:
    """buffered=False: a write is visible to readers at once (text and terminator separately);
    buffered=True: written data sits in the writer's user-space buffer, invisible to readers, until flush()/close() —
    both are legal behaviours of a real file object (short lines are buffered, long ones are written through), and a
    correct storage is safe under both.  The digest shows the logical content (file + pending) in either mode."""

    def __init__(self, sched, buffered=False):
        self.sched = sched
        self.buffered = buffered
        self.files = {}  # path -> list of writes ("T5", "\n", …) that reached the file
        self.pending = {}  # path -> list of writes still in a writer's buffer

    def logical(self, path):
        return self.files.get(path, []) + self.pending.get(path, [])

    def open(self, path, mode="r", *a, **k):
        self.sched.visible("open")
        self.sched.record("open", f"{path_id(path)} {mode}")
        if mode == "w":
            self.files[path] = []
            self.pending[path] = []
        elif mode == "a":
            self.files.setdefault(path, [])
            self.pending.setdefault(path, [])
        elif path not in self.files:
            raise FileNotFoundError(path)
        return SimFile(self, path, mode)

    def remove(self, path):
        self.sched.visible("remove")
        self.sched.record("remove", path_id(path))
        if path not in self.files:
            raise FileNotFoundError(path)
        del self.files[path]
        self.pending.pop(path, None)


class SimFile:
    def __init__(self, fs, path, mode):
        self.fs = fs
        self.path = path
        self.mode = mode
        self.pos = 0
        self.closed = False

    def tell(self):
        self.fs.sched.visible("tell")
        n = len(self.fs.logical(self.path))
        self.fs.sched.record("tell", n)
        return n

    def write(self, s):
        self.fs.sched.visible("write")
        # one write call may carry several tokens ("T5\n"): keep the token structure
        import re as _re
        toks = [t for t in _re.split(r"(\n)", s) if t != ""]
        if self.fs.buffered:
            self.fs.pending.setdefault(self.path, []).extend(toks)
        else:
            self.fs.files[self.path].extend(toks)
        self.fs.sched.record("write", "NL" if s == "\n" else s.replace("\n", "/"))
        return len(s)

    def _drain(self):
        if self.path in self.fs.files:
            self.fs.files[self.path].extend(self.fs.pending.get(self.path, []))
        self.fs.pending[self.path] = []

    def flush(self):
        self.fs.sched.visible("flush")
        self._drain()
        self.fs.sched.record("flush")

    def seek(self, off):
        self.fs.sched.visible("seek")
        self.pos = off
        self.fs.sched.record("seek", off)

    def readline(self):
        self.fs.sched.visible("readline")
        content = self.fs.files.get(self.path, [])
        out = []
        for w in content[self.pos:]:
            out.append(w)
            if w == "\n":
                break
        self.pos += len(out)
        self.fs.sched.record("readline", "+".join(x for x in out if x != "\n"))
        return "".join(out)

    def close(self):
        if self.mode in ("w", "a") and not self.closed:
            self._drain()
        self.closed = True


class SCfg:
    def __init__(self, presize=0, scripts=(), reader_only=(), buffered=False):
        """scripts: per process a list of ops: ['store', gid, t] | ['read', gid] | ['len'] | ['contig'] | ['iter'] | ['flush']
        and, outside the model (such runs are judged by the oracle only): ['enter'] / ['exit'] — the context-manager use, which
        opens the process's file eagerly and closes all handles; a store after an exit re-opens the file in append mode"""
        self.presize = presize
        self.buffered = buffered
        self.scripts = [[list(op) for op in sc] for sc in scripts]
        self.oracle_only = any(op[0] in ("enter", "exit") for sc in self.scripts for op in sc)

    def model_line(self):
        parts = []
        for sc in self.scripts:
            parts.append(" ".join(" ".join(str(x) for x in op) for op in sc))
        return f"cfg {self.presize} " + " | ".join(parts)

    def to_json(self):
        return dict(presize=self.presize, scripts=self.scripts, buffered=self.buffered)


class StorageEnv:
    def __init__(self, cfg: SCfg):
        self.cfg = cfg
        self.sched = Scheduler()
        self.fs = SimFS(self.sched, getattr(cfg, "buffered", False))
        self.patches = []
        self.results = [[] for _ in cfg.scripts]
        self.storage = None

    def patch(self, obj, attr, value):
        missing = object()
        old = obj.__dict__.get(attr, missing)
        self.patches.append((obj, attr, old, missing))
        setattr(obj, attr, value)

    def unpatch(self):
        for obj, attr, old, missing in reversed(self.patches):
            if old is missing:
                delattr(obj, attr)
            else:
                setattr(obj, attr, old)
        self.patches = []

    def install(self):
        env = self
        from windpyutils.parallel import storage as st

        class FakeManager:
            def __init__(self):
                self.n = 0

            def list(self, init=()):
                name = ["paths", "index"][self.n] if self.n < 2 else f"list{self.n}"
                self.n += 1
                l = SimList(env.sched, name)
                l.items = list(init)
                env.lists[name] = l
                return l

        class MPShim:
            def __init__(self):
                self.n = 0

            def Value(self, typ, init=0):
                name = ["cnt", "wf"][self.n] if self.n < 2 else f"val{self.n}"
                self.n += 1
                v = SimValue(env.sched, name)
                v._v = init
                env.values[name] = v
                return v

            def RLock(self):
                env.lock = SimRLock(env.sched)
                return env.lock

        class OSShim:
            @staticmethod
            def remove(p):
                return env.fs.remove(p)

        self.lists, self.values, self.lock = {}, {}, None
        self.patch(st, "Manager", FakeManager)
        self.patch(st, "multiprocessing", MPShim())
        self.patch(st, "open", env.fs.open)
        self.patch(st, "os", OSShim())
        self.st = st

    def proc_main(self, k):
        storage = copy.copy(self.storage)
        storage._opened_files_for_reading = []
        res = self.results[k]

        def canon(s):
            return "+".join(x for x in re.split(r"(T\d+)", s.replace("\n", "")) if x)

        for op in self.cfg.scripts[k]:
            try:
                if op[0] == "store":
                    storage[op[1]] = f"T{op[2]}"; res.append("ok")
                elif op[0] == "read":
                    res.append("text:" + canon(storage[op[1]]))
                elif op[0] == "len":
                    res.append(f"nat:{len(storage)}")
                elif op[0] == "contig":
                    res.append(f"bool:{1 if storage.is_contiguous() else 0}")
                elif op[0] == "iter":
                    res.append("texts:" + ",".join(canon(x) for x in storage))
                elif op[0] == "flush":
                    storage.flush(); res.append("ok")
                elif op[0] == "close":
                    # close() touches nothing that is shared: one step of the process (model: Op.close)
                    self.sched.visible("close")
                    storage.close()
                    self.sched.record("close")
                    res.append("ok")
                elif op[0] == "enter":
                    res.append("ok" if storage.__enter__() is storage else "enter-returned-other")
                elif op[0] == "exit":
                    # every other session is left by an exception raised in its body
                    if len(res) % 2:
                        try:
                            raise KeyError("session body failed")
                        except KeyError as e:
                            storage.__exit__(KeyError, e, e.__traceback__)
                    else:
                        storage.__exit__(None, None, None)
                    res.append("ok")
            except IndexError:
                res.append("IndexError")
            except ValueError:
                res.append("ValueError")

    def digest(self):
        idx = ",".join("-" if e is None else f"{e[0]}:{e[1]}" for e in self.lists["index"].items)
        files = ";".join(f"{path_id(p)}=" + "".join("/" if w == "\n" else w for w in self.fs.logical(p))
                         for p in sorted(self.fs.files, key=path_id))
        holder = "-" if self.lock.holder is None else self.lock.holder.name[1:]
        val = lambda k: self.values[k]._v if k in self.values else "absent"  # a shared counter the code no longer has
        return f"idx:{idx}|cnt:{val('cnt')}|wf:{val('wf')}|lock:{holder}|files:{files}"

    def run(self, chooser):
        schedule = []
        try:
            self.install()
            self.storage = self.st.TextFileStorage("/sim", number_of_data=(self.cfg.presize or None))
            try:
                for k in range(len(self.cfg.scripts)):
                    self.sched.spawn(f"P{k}", (lambda kk: (lambda: self.proc_main(kk)))(k))
            except simsched.SchedulerError as e:
                return ("stuck:" if isinstance(e, simsched.Stuck) else "scheduler:") + str(e), schedule, list(self.sched.log)

            def wrapped(en, sched):
                name = chooser(en, sched)
                schedule.append(name)
                return name

            try:
                self.sched.run(wrapped)
                status = "done"
            except simsched.Deadlock as d:
                status = "deadlock:" + ",".join(f"{t}@{op}" for t, op in d.blocked)
            except simsched.SchedulerError as e:
                # not an observation about the code's behaviour: the run cannot be controlled (see simsched.Stuck)
                status = ("stuck:" if isinstance(e, simsched.Stuck) else "scheduler:") + str(e)
            for t in self.sched.threads.values():
                if t.error is not None:
                    status = f"error:{t.name}:{type(t.error).__name__}:{t.error}"
            return status, schedule, list(self.sched.log)
        finally:
            self.sched.abort()
            self.unpatch()
