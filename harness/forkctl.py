# -*- coding: UTF-8 -*-
"""
Controlled real forks for C18: an orchestrator (the harness process) drives a tree of really forked processes that share
one opened line / map file object.  `files.open` and `files.mmap` are rebound *inside the forked processes only* to thin
wrappers whose `seek` stops after the real seek and waits for the orchestrator, so that a seek of one process can be placed
between the seek and the read of another — with real file descriptors and real open file descriptions.
"""
import multiprocessing
import os
import signal
import sys
import traceback


class Pauser:
    conn = None

    @classmethod
    def pause(cls):
        cls.conn.send(("paused",))
        msg = cls.conn.recv()
        if msg[0] != "go":
            os._exit(3)


class PausingFile:
    def __init__(self, real):
        self._real = real

    def seek(self, *a):
        r = self._real.seek(*a)
        Pauser.pause()
        return r

    def __getattr__(self, name):
        return getattr(self._real, name)

    def __iter__(self):
        return iter(self._real)

    def __enter__(self):
        self._real.__enter__()
        return self

    def __exit__(self, *a):
        return self._real.__exit__(*a)


class MmapShim:
    def __init__(self, real_module):
        self._m = real_module

    def __getattr__(self, name):
        return getattr(self._m, name)

    def mmap(self, *a, **k):
        return PausingFile(self._m.mmap(*a, **k))


def process_loop(k, conns, obj, make_key):
    """command loop of process number k"""
    Pauser.conn = conns[k][1]
    conn = conns[k][1]
    iterator = None
    while True:
        msg = conn.recv()
        try:
            if msg[0] == "iter":
                # one step of `for line in obj` (the iteration is created on its first step, in this process)
                if iterator is None:
                    iterator = iter(obj)
                conn.send(("ret", next(iterator)))
            elif msg[0] == "get":
                line = obj[make_key(msg[1])]
                conn.send(("ret", line))
            elif msg[0] == "next":
                conn.send(("ret", obj._read_next_line()))
            elif msg[0] == "noop":
                # calls that are documented to change nothing on an opened file object
                if msg[1] == 0:
                    obj.open()
                elif msg[1] == 1:
                    len(obj)
                elif hasattr(type(obj), "closed"):
                    _ = obj.closed
                conn.send(("ok",))
            elif msg[0] == "fork":
                j = msg[1]
                pid = os.fork()
                if pid == 0:
                    k = j
                    if not (len(msg) > 2 and msg[2]):
                        iterator = None  # (otherwise the child continues the iteration its parent had started)
                    Pauser.conn = conns[k][1]
                    conn = conns[k][1]
                    conn.send(("hello", os.getpid()))
                else:
                    conn.send(("forked", pid))
            elif msg[0] == "quit":
                conn.send(("bye",))
                os._exit(0)
        except BaseException as e:  # noqa
            try:
                conn.send(("err", type(e).__name__ + ": " + str(e)))
            except Exception:
                pass


class ForkTree:
    def __init__(self, variant, path, lines, max_procs=6):
        self.variant = variant
        self.path = path
        self.lines = lines
        self.max_procs = max_procs
        self.conns = [multiprocessing.Pipe() for _ in range(max_procs)]
        self.nprocs = 0
        self.root_pid = None

    def start(self):
        pid = os.fork()
        if pid == 0:
            try:
                os.setsid()
                sys.path.insert(0, os.environ.get("WINDPYUTILS_REPO", "/repo"))
                from windpyutils import files
                import mmap as real_mmap
                import builtins
                files.open = lambda *a, **k: PausingFile(builtins.open(*a, **k))
                files.mmap = MmapShim(real_mmap)
                Pauser.conn = None
                if self.variant == "MapAccessFile":
                    offs, o = {}, 0
                    for i, l in enumerate(self.lines):
                        offs[f"k{i}"] = o
                        o += len((l + "\n").encode())
                    obj = files.MapAccessFile(self.path, offs)
                    make_key = lambda n: f"k{n}"
                else:
                    obj = getattr(files, self.variant)(self.path)
                    make_key = lambda n: n
                # opening must not pause: no seek happens in open()
                obj.open()
                self.conns[0][1].send(("hello", os.getpid()))
                process_loop(0, self.conns, obj, make_key)
            except BaseException:  # noqa
                traceback.print_exc()
            finally:
                os._exit(1)
        self.root_pid = pid
        msg = self.recv(0)
        assert msg[0] == "hello", msg
        self.nprocs = 1

    def recv(self, k, timeout=15):
        c = self.conns[k][0]
        if not c.poll(timeout):
            raise TimeoutError(f"process {k} does not answer")
        return c.recv()

    def send(self, k, *msg):
        self.conns[k][0].send(msg)

    def fork(self, parent):
        j = self.nprocs
        self.send(parent, "fork", j, bool(getattr(self, "keep_iter", False)))
        a = self.recv(parent)
        b = self.recv(j)
        assert a[0] == "forked" and b[0] == "hello", (a, b)
        self.nprocs += 1
        return j

    def seek(self, k, n):
        """start `obj[n]` in process k; returns once it stands right after its seek"""
        self.send(k, "get", n)
        msg = self.recv(k)
        if msg[0] != "paused":
            return msg
        return ("ok",)

    def seek_iter(self, k):
        """start the next step of process k's own iteration over the file; returns once it stands right after its seek"""
        self.send(k, "iter")
        msg = self.recv(k)
        if msg[0] != "paused":
            return msg
        return ("ok",)

    def read(self, k):
        """let process k continue from its seek to the end of the access"""
        self.send(k, "go")
        return self.recv(k)

    def next(self, k):
        self.send(k, "next")
        return self.recv(k)

    def noop(self, k, kind):
        self.send(k, "noop", kind)
        return self.recv(k)

    def stop(self):
        try:
            if self.root_pid:
                os.killpg(self.root_pid, signal.SIGKILL)
        except Exception:
            pass
        try:
            if self.root_pid:
                os.waitpid(self.root_pid, 0)
        except Exception:
            pass
        for a, b in self.conns:
            a.close(); b.close()
