# -*- coding: UTF-8 -*-
"""
Pure functions and immutable objects are used from several threads at once without a second thought; a memo table filled on
demand or a "last hit" remembered inside a lookup makes them stateful, and then two calls can interfere although every
single-threaded history is right.  `hammer` calls read-only operations from several threads at the same time (tiny switch
interval, keys whose comparisons run Python code so that a switch can fall inside an operation) and compares every result
with the value computed beforehand by an independent reference.  On code without hidden state it cannot fail.

As a program (`python -m harness.threads roman`) it starts *cold*: the first calls the process ever makes to the roman numeral
functions come from four threads at once; afterwards the whole domain is swept sequentially.
"""
import os
import sys
import threading

REPO = os.environ.get("WINDPYUTILS_REPO", "/repo")


def hammer(jobs, nthreads=4, rounds=3):
    """jobs: list of (description, callable, expected) — expected is ('ret', value) or ('err', exception class name);
    returns None or a description of the first wrong result"""
    old = sys.getswitchinterval()
    sys.setswitchinterval(1e-6)
    problems = []
    barrier = threading.Barrier(nthreads)

    def work(t):
        try:
            barrier.wait(10)
        except threading.BrokenBarrierError:
            return
        for r in range(rounds):
            order = jobs[t::nthreads] + jobs[:t:nthreads] if r % 2 else list(reversed(jobs))[t::2] + jobs[t::3]
            for desc, fn, exp in order:
                try:
                    got = ("ret", fn())
                except BaseException as e:  # noqa
                    if isinstance(e, (KeyboardInterrupt, SystemExit)):
                        raise
                    got = ("err", type(e).__name__)
                if got != exp:
                    problems.append(f"{desc}: a thread got {got}, the reference gives {exp} (other threads were inside the same "
                                    f"kind of call)")
                    return
                if problems:
                    return

    try:
        ts = [threading.Thread(target=work, args=(t,), daemon=True) for t in range(nthreads)]
        for t in ts:
            t.start()
        for t in ts:
            t.join(30)
    finally:
        sys.setswitchinterval(old)
    return problems[0] if problems else None


def roman_reference(n):
    out = []
    for v, s in ((1000, "M"), (900, "CM"), (500, "D"), (400, "CD"), (100, "C"), (90, "XC"), (50, "L"), (40, "XL"), (10, "X"),
                 (9, "IX"), (5, "V"), (4, "IV"), (1, "I")):
        while n >= v:
            out.append(s); n -= v
    return "".join(out)


class SlowInt(int):
    """an int whose arithmetic and comparisons run Python code (a switch of threads can fall inside the function)"""

    def _w(self, r):
        return SlowInt(r) if isinstance(r, int) and not isinstance(r, bool) else r

    def __add__(self, o): return self._w(int.__add__(self, o))
    def __radd__(self, o): return self._w(int.__radd__(self, o))
    def __sub__(self, o): return self._w(int.__sub__(self, o))
    def __floordiv__(self, o): return self._w(int.__floordiv__(self, o))
    def __mod__(self, o): return self._w(int.__mod__(self, o))
    def __lt__(self, o): return int.__lt__(self, o)
    def __le__(self, o): return int.__le__(self, o)
    def __gt__(self, o): return int.__gt__(self, o)
    def __ge__(self, o): return int.__ge__(self, o)
    def __eq__(self, o): return int.__eq__(self, o)
    def __hash__(self): return int.__hash__(self)


def roman_cold():
    if REPO not in sys.path:
        sys.path.insert(0, REPO)
    import importlib
    from windpyutils import generic as g
    ns = [20, 3, 1994, 8, 300, 49, 1, 3999, 14, 621, 90, 2444, 5, 1000, 77, 444]
    for attempt in range(12):
        if attempt:
            g = importlib.reload(g)  # module-level state (if any) starts from scratch again
        jobs = []
        for n in ns[attempt % 3:] + ns[:attempt % 3]:
            jobs.append((f"int_2_roman({n})", lambda n=n, g=g: g.int_2_roman(SlowInt(n)), ("ret", roman_reference(n))))
            jobs.append((f"roman_2_int({roman_reference(n)!r})", lambda n=n, g=g: g.roman_2_int(roman_reference(n)), ("ret", n)))
        p = hammer(jobs, 6, 2)
        if p is not None:
            return p
        for n in range(1, 4000):
            r = g.int_2_roman(n)
            if r != roman_reference(n) or g.roman_2_int(r) != n:
                return (f"after the first calls came from several threads at once: int_2_roman({n}) = {r!r} "
                        f"(canonical {roman_reference(n)!r}), roman_2_int of it = {g.roman_2_int(r)!r}")
    return None


if __name__ == "__main__":
    res = {"roman": roman_cold}[sys.argv[1]]()
    print("DONE" if res is None else "WRONG " + res)
    sys.exit(0 if res is None else 1)
