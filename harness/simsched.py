# -*- coding: UTF-8 -*-
"""
Controlled scheduler: runs the real (unmodified) concurrent code of /repo with every *visible operation* — queue
put/get/qsize, event set/clear/is_set/wait, lock acquire/release, reads and writes of shared flags, thread/process
start/join — turned into a scheduling point.  Simulated threads/processes are OS threads gated by semaphores; exactly one
runs at a time; a schedule is an explicit list of thread names (or a chooser callback), so every run is reproducible and
a deadlock is simply "no enabled thread while somebody is unfinished" (threads stay parked, no exception is injected).

Each visible operation is logged as (thread, label, result) — the same sequence the Lean model produces when it is driven
with the same schedule.
"""
import copy
import queue as _queue
import threading


class Deadlock(Exception):
    def __init__(self, blocked):
        super().__init__("deadlock: " + ", ".join(f"{t}@{op}" for t, op in blocked))
        self.blocked = blocked


class SchedulerError(Exception):
    pass


class Stuck(SchedulerError):
    """a simulated thread did not come back to the scheduler: it sits in a blocking call that is not one of the simulated
    primitives (the code under test uses something the harness does not control), or it loops without a visible operation"""

    def __init__(self, name, last):
        super().__init__(f"thread {name} did not reach its next scheduling point (last operation: {last})")
        self.name = name
        self.last = last


class SimThread:
    """a simulated thread of control"""

    def __init__(self, sched, name, fn):
        self.sched = sched
        self.name = name
        self.fn = fn
        self.sem = threading.Semaphore(0)
        self.pending = None  # (label, enabled_fn) of the visible operation it is about to perform
        self.ready = threading.Semaphore(0)  # signalled when the thread reaches its first visible operation (or ends)
        self.first = True
        self.finished = False
        self.error = None
        self.started = False
        self.os_thread = threading.Thread(target=self._main, name="sim-" + name, daemon=True)

    def _main(self):
        self.sem.acquire()  # wait for the first scheduling
        if self.sched.aborting:
            return
        try:
            self.fn()
        except _Abort:
            return
        except BaseException as e:  # noqa
            self.error = e
        self.finished = True
        self.pending = None
        if self.first:
            self.first = False
            self.ready.release()
        else:
            self.sched.control.release()


class _Abort(BaseException):
    pass


class Scheduler:
    def __init__(self):
        self.threads = {}  # name -> SimThread (insertion ordered)
        self.control = threading.Semaphore(0)
        self.current = None
        self.log = []  # (thread, label, result)
        self.aborting = False
        self.local = threading.local()
        self.max_steps = 100000
        self.impatient = False  # timed operations may time out whenever they cannot complete at once (slow other threads)
        self.step_timeout = 10.0  # wall-clock seconds one step may take (thread-local code between two visible operations)

    # ---- called from simulated code --------------------------------------------------------------------------------
    def me(self):
        return getattr(self.local, "thread", None)

    def spawn(self, name, fn):
        """creates a simulated thread and lets it run its thread-local prefix up to its first visible operation (the
        creator is paused meanwhile), so that a thread's first step is its first visible operation"""
        old = self.threads.get(name)
        if old is not None and not old.finished:
            raise SchedulerError(f"thread name {name} used twice")
        t = SimThread(self, name, self._wrap(name, fn))
        self.threads.pop(name, None)
        self.threads[name] = t
        t.os_thread.start()
        t.sem.release()
        if not t.ready.acquire(timeout=self.step_timeout):
            raise Stuck(name, "thread-local prefix before its first visible operation")
        return t

    def _wrap(self, name, fn):
        def run():
            self.local.thread = self.threads[name]
            fn()
        return run

    def visible(self, label, enabled=None):
        """called by a simulated thread right before a visible operation: park until scheduled (and enabled)"""
        t = self.me()
        if t is None:
            return  # code running outside the simulation (setup/teardown by the harness)
        if self.aborting:
            raise _Abort()
        # consecutive timed operations of this thread that timed out (reset when somebody else moves, see step)
        if getattr(t, "just_timed_out", False):
            t.spin = getattr(t, "spin", 0) + 1
        else:
            t.spin = 0
        t.just_timed_out = False
        t.pending = (label, enabled or (lambda: True))
        if t.first:
            t.first = False
            t.ready.release()
        else:
            self.control.release()
        t.sem.acquire()
        if self.aborting:
            raise _Abort()
        t.pending = None

    def timed_out(self):
        t = self.me()
        if t is not None:
            t.yielded = True
            t.just_timed_out = True

    def nobody_else_enabled(self):
        """used by the enabling predicate of a timed blocking operation: true when no other thread can perform its pending
        operation (timed operations of the others count with their untimed condition only)"""
        if getattr(self, "_probing", False):
            return False
        self._probing = True
        try:
            asking = [t for t in self.threads.values() if not t.finished and t.pending is not None]
            n = 0
            for t in asking:
                try:
                    if t.pending[1]():
                        n += 1
                except Exception:
                    pass
            # the asking thread itself evaluates to its untimed condition (false, else it would not ask)
            return n == 0
        finally:
            self._probing = False

    def record(self, label, result=""):
        t = self.me()
        if t is not None:
            self.log.append((t.name, label, str(result)))

    # ---- driver -------------------------------------------------------------------------------------------------------
    def enabled(self):
        res = []
        for name, t in self.threads.items():
            if not t.finished and t.pending is not None:
                try:
                    ok = t.pending[1]()
                except Exception:
                    ok = False
                if ok:
                    res.append(name)
        fresh = [n for n in res if not getattr(self.threads[n], "yielded", False)]
        return fresh if fresh else res

    def unfinished(self):
        return [(n, t.pending[0] if t.pending else "?") for n, t in self.threads.items() if not t.finished]

    def step(self, name):
        """lets thread `name` perform its pending visible operation and run to its next one"""
        t = self.threads[name]
        if t.finished or t.pending is None or not t.pending[1]():
            raise SchedulerError(f"thread {name} is not enabled")
        self.current = t
        for other in self.threads.values():
            if other is not t:
                other.yielded = False
                other.spin = 0
        t.sem.release()
        if not self.control.acquire(timeout=self.step_timeout):
            raise Stuck(name, self.log[-1][1] if self.log else "?")
        for tt in self.threads.values():
            if tt.error is not None and not getattr(tt, "error_reported", False):
                tt.error_reported = True

    def run(self, chooser, until=None):
        """chooser(enabled_names, scheduler) -> name ; runs until every thread finished, `until()` holds or deadlock"""
        steps = 0
        while True:
            if until is not None and until():
                return "until"
            if all(t.finished for t in self.threads.values()):
                return "done"
            en = self.enabled()
            if not en:
                raise Deadlock(self.unfinished())
            if all(getattr(self.threads[n], "spin", 0) >= 2 for n in en):
                # everybody who can still move only polls: timed out twice in a row while nobody else moved
                raise Deadlock(self.unfinished())
            name = chooser(en, self)
            self.step(name)
            steps += 1
            if steps > self.max_steps:
                raise SchedulerError("step limit reached (livelock?)")

    def abort(self):
        """releases every parked thread so that the OS threads terminate"""
        self.aborting = True
        for t in self.threads.values():
            # also threads marked finished from outside (a terminated worker process) are still parked
            if not t.finished or t.os_thread.is_alive():
                t.sem.release()
        for t in self.threads.values():
            t.os_thread.join(2)


# ---- simulated primitives ---------------------------------------------------------------------------------------------

class SimQueue:
    """manager queue / multiprocessing queue: one atomic FIFO with optional capacity"""

    def __init__(self, sched, name, maxsize=0):
        self.sched = sched
        self.name = name
        self.maxsize = maxsize or 0
        self.items = []

    def _full(self):
        return self.maxsize > 0 and len(self.items) >= self.maxsize

    def put(self, item, block=True, timeout=None):
        if block and timeout is not None:
            # a timed put: it times out only when real time passes with the queue still full, i.e. when nobody else can
            # move (a retry after a time-out that changes nothing is not a step: the thread just stays parked).
            # `impatient` scheduler (oracle-only runs): the others may be arbitrarily slow, so the time-out may strike at
            # any moment the operation cannot be completed at once; the thread then yields to the others.
            # `timeout_useful` (set by the harness for a particular queue): the caller's reaction to a time-out would make
            # progress right now — then the time-out may strike although others can still move (real time passes anyway)
            useful = getattr(self, "timeout_useful", None)
            self.sched.visible(f"{self.name}.put", lambda: not self._full() or self.sched.impatient
                               or (useful is not None and useful()) or self.sched.nobody_else_enabled())
            if self._full():
                self.sched.record(f"{self.name}.put", "Full")
                self.sched.timed_out()
                raise _queue.Full()
            self.items.append(item)
            self.sched.record(f"{self.name}.put", self._show(item))
            return
        if block:
            self.sched.visible(f"{self.name}.put", lambda: not self._full())
            self.items.append(item)
            self.sched.record(f"{self.name}.put", self._show(item))
        else:
            self.sched.visible(f"{self.name}.put_nowait")
            if self._full():
                self.sched.record(f"{self.name}.put_nowait", "Full")
                raise _queue.Full()
            self.items.append(item)
            self.sched.record(f"{self.name}.put_nowait", self._show(item))

    def get(self, block=True, timeout=None):
        if block and timeout is not None:
            # a timed get: same rule as the timed put
            self.sched.visible(f"{self.name}.get", lambda: len(self.items) > 0 or self.sched.impatient
                               or self.sched.nobody_else_enabled())
            if not self.items:
                self.sched.record(f"{self.name}.get", "Empty")
                self.sched.timed_out()
                raise _queue.Empty()
            item = self.items.pop(0)
            self.sched.record(f"{self.name}.get", self._show(item))
            return item
        if block:
            self.sched.visible(f"{self.name}.get", lambda: len(self.items) > 0)
            item = self.items.pop(0)
            self.sched.record(f"{self.name}.get", self._show(item))
            return item
        self.sched.visible(f"{self.name}.get_nowait")
        if not self.items:
            self.sched.record(f"{self.name}.get_nowait", "Empty")
            raise _queue.Empty()
        item = self.items.pop(0)
        self.sched.record(f"{self.name}.get_nowait", self._show(item))
        return item

    def empty(self):
        self.sched.visible(f"{self.name}.empty")
        self.sched.record(f"{self.name}.empty", int(not self.items))
        return not self.items

    def full(self):
        self.sched.visible(f"{self.name}.full")
        self.sched.record(f"{self.name}.full", int(self._full()))
        return self._full()

    def put_nowait(self, item):
        return self.put(item, block=False)

    def get_nowait(self):
        return self.get(block=False)

    def qsize(self):
        self.sched.visible(f"{self.name}.qsize")
        n = len(self.items)
        self.sched.record(f"{self.name}.qsize", n)
        return n

    @staticmethod
    def _show(item):
        if item is None:
            return "None"
        if isinstance(item, tuple):
            return f"c{item[0]}"
        return str(item)


class SimEvent:
    def __init__(self, sched, name):
        self.sched = sched
        self.name = name
        self.flag = False

    def set(self):
        self.sched.visible(f"{self.name}.set")
        self.flag = True
        self.sched.record(f"{self.name}.set")

    def clear(self):
        self.sched.visible(f"{self.name}.clear")
        self.flag = False
        self.sched.record(f"{self.name}.clear")

    def is_set(self):
        self.sched.visible(f"{self.name}.is_set")
        self.sched.record(f"{self.name}.is_set", int(self.flag))
        return self.flag

    def wait(self, timeout=None):
        if timeout is None:
            self.sched.visible(f"{self.name}.wait", lambda: self.flag)
            self.sched.record(f"{self.name}.wait")
            return True
        # a timed wait never blocks for good: it is a visible operation that reports the flag; when it times out, real time
        # has passed, i.e. every other thread had the chance to run — the scheduler does not pick this thread again before
        # somebody else moved (if anybody can)
        self.sched.visible(f"{self.name}.wait_timeout")
        self.sched.record(f"{self.name}.wait_timeout", int(self.flag))
        if not self.flag:
            self.sched.timed_out()
        return self.flag


class SimLock:
    def __init__(self, sched, name):
        self.sched = sched
        self.name = name
        self.holder = None

    def acquire(self, block=True, timeout=None):
        self.sched.visible(f"{self.name}.acquire", lambda: self.holder is None)
        self.holder = self.sched.me().name if self.sched.me() else "-"
        self.sched.record(f"{self.name}.acquire")
        return True

    def release(self):
        self.sched.visible(f"{self.name}.release")
        self.holder = None
        self.sched.record(f"{self.name}.release")

    __enter__ = acquire

    def __exit__(self, *a):
        self.release()


class SharedFlag:
    """data descriptor: reads and writes of a shared attribute become visible operations"""

    def __init__(self, sched, name, slot):
        self.sched = sched
        self.name = name
        self.slot = slot

    def __get__(self, obj, objtype=None):
        if obj is None:
            return self
        self.sched.visible(f"{self.name}.read")
        v = obj.__dict__.get(self.slot)
        self.sched.record(f"{self.name}.read", int(v) if isinstance(v, bool) else v)
        return v

    def __set__(self, obj, value):
        self.sched.visible(f"{self.name}.write")
        obj.__dict__[self.slot] = value
        self.sched.record(f"{self.name}.write", int(value) if isinstance(value, bool) else value)


def fork_copy(obj):
    """what a forked child sees of an object of the parent: a shallow copy (its own attribute writes stay private)"""
    return copy.copy(obj)
