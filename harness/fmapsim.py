# -*- coding: UTF-8 -*-
"""`FunctorMap` (pools.py) and `mul_p_map` (maps.py) under the controlled scheduler: the names the modules imported
(`Queue`, the worker classes' `start`/`join`, `FunRunner.WORK_QUEUE/RESULTS_QUEUE`) are rebound for the duration of a run"""
import multiprocessing

from . import simsched, core
from .simsched import Scheduler, SimQueue


class FCfg:
    def __init__(self, n_workers=2, mulp=False, calls=((3, 1),), exact=False, none_inputs=False, input_kind=0, idle_gen=False,
                 body_raises=False, impatient=False):
        """calls: (items, chunk_size) — chunk size is 1 for mul_p_map;
        exact: the caller takes exactly as many results as there are items (zip / islice style) and drops the generator
        instead of running it into StopIteration (`Cfg.exact` in the model: no further poll of the result queue after the
        last item)"""
        self.n_workers = n_workers
        self.mulp = mulp
        self.calls = [tuple(c) for c in calls]
        self.exact = exact
        self.none_inputs = none_inputs  # see poolsim.Cfg
        self.input_kind = input_kind  # generator / list / tuple / one-shot iterator, rotating per call
        # before every call the caller also creates a call object that it never iterates (dropped at the end): a generator
        # that was not started has done nothing
        self.idle_gen = idle_gen
        self.body_raises = body_raises  # the with-body raises after its last call (same steps in the model)
        # oracle-only runs in which a timed operation may time out at any moment (slow workers), see poolsim.Cfg
        self.impatient = impatient

    @property
    def oracle_only(self):
        return self.impatient

    def cap(self):
        return multiprocessing.cpu_count() if self.mulp else self.n_workers

    def model_line(self):
        chunks = " ".join(str(-(-n // cs)) for n, cs in self.calls)
        return f"{'cfgx' if self.exact else 'cfg'} {self.n_workers} {self.cap()} {1 if self.mulp else 0} {chunks}".rstrip()

    def to_json(self):
        return dict(n_workers=self.n_workers, mulp=self.mulp, calls=self.calls, exact=self.exact, none_inputs=self.none_inputs,
                    input_kind=self.input_kind, idle_gen=self.idle_gen, body_raises=self.body_raises,
                    impatient=self.impatient)


def f(x):
    return core.pool_f(x, 3)


class FSimEnv:
    def __init__(self, cfg):
        self.cfg = cfg
        self.sched = Scheduler()
        self.sched.impatient = bool(getattr(cfg, "impatient", False))
        self.queues = {}
        self.results = []
        self.patches = []
        self.counter = 0

    def patch(self, obj, attr, value):
        missing = object()
        old = obj.__dict__.get(attr, missing)
        self.patches.append((obj, attr, old, missing))
        setattr(obj, attr, value)

    def unpatch(self):
        for obj, attr, old, missing in reversed(self.patches):
            if old is missing:
                delattr(obj, attr)
            else:
                setattr(obj, attr, old)
        self.patches = []

    def install(self):
        env = self
        from windpyutils.parallel import pools, maps, workers

        def make_queue(maxsize=0):
            name = ["workQ", "resQ"][len(env.queues)] if len(env.queues) < 2 else f"q{len(env.queues)}"
            q = SimQueue(env.sched, name, maxsize)
            env.queues[name] = q
            return q

        def w_start(proc):
            proc._sim_wid = env.counter
            env.counter += 1
            name = f"W{proc._sim_wid}"
            env.sched.visible(f"start {name}")
            env.sched.record(f"start {name}")
            proc._sim = env.sched.spawn(name, proc.run)

        def w_join(proc, timeout=None):
            name = f"W{proc._sim_wid}"
            env.sched.visible(f"join {name}", lambda: proc._sim.finished)
            env.sched.record(f"join {name}")

        def w_alive(proc):
            sim = getattr(proc, "_sim", None)
            return sim is not None and not sim.finished

        def w_exitcode(proc):
            sim = getattr(proc, "_sim", None)
            return 0 if (sim is not None and sim.finished) else None

        for cls in ((workers.FunRunner,) if self.cfg.mulp else (pools.FunctorWorker,)):
            self.patch(cls, "is_alive", w_alive)
            self.patch(cls, "exitcode", property(w_exitcode))
        if self.cfg.mulp:
            self.patch(workers.FunRunner, "WORK_QUEUE", make_queue(self.cfg.cap()))
            self.patch(workers.FunRunner, "RESULTS_QUEUE", make_queue())
            self.patch(workers.FunRunner, "start", w_start)
            self.patch(workers.FunRunner, "join", w_join)
        else:
            self.patch(pools, "Queue", make_queue)
            self.patch(pools.FunctorWorker, "start", w_start)
            self.patch(pools.FunctorWorker, "join", w_join)

    def caller(self):
        from windpyutils.parallel import pools, maps
        def shaped(k, data):
            from .poolsim import SizedWrapper
            kind = (self.cfg.input_kind + k) % 5
            return [lambda: data, lambda: list(data), lambda: tuple(data), lambda: iter(list(data)),
                    lambda: SizedWrapper(list(data), 1 if k % 2 else -1)][kind]()

        if self.cfg.mulp:
            for k, (n, cs) in enumerate(self.cfg.calls):
                data = shaped(k, (core.pool_input(k, i, self.cfg.none_inputs) for i in range(n)))
                self.results.append(list(maps.mul_p_map(f, data, self.cfg.n_workers)))
        else:
            class BodyRaised(Exception):
                pass

            try:
                with pools.FunctorMap(f, self.cfg.n_workers) as m:
                    made = {}
                    if self.cfg.input_kind % 4 == 3 and not self.cfg.idle_gen:
                        # all call objects are created first and consumed afterwards, one after the other
                        for j, (n_, cs_) in enumerate(self.cfg.calls):
                            made[j] = m(iter([core.pool_input(j, i, self.cfg.none_inputs) for i in range(n_)]), cs_)
                    for k, (n, cs) in enumerate(self.cfg.calls):
                        res = []
                        self.results.append(res)
                        if self.cfg.idle_gen:
                            ghosts = getattr(self, "ghosts", [])
                            ghosts.append(m(iter([900 + k, 901 + k, 902 + k]), cs))
                            self.ghosts = ghosts
                        it = made.get(k)
                        if it is None:
                            it = m(shaped(k, (core.pool_input(k, i, self.cfg.none_inputs) for i in range(n))), cs)
                        if self.cfg.exact and n > 0:
                            for _ in range(n):
                                res.append(next(it))
                            it.close()
                        else:
                            for x in it:
                                res.append(x)
                    if self.cfg.body_raises:
                        raise BodyRaised("the with-body raises after its last call")
            except BodyRaised:
                pass

    def expected(self):
        return [[f(core.pool_input(k, i, self.cfg.none_inputs)) for i in range(n)] for k, (n, cs) in enumerate(self.cfg.calls)]

    def digest(self):
        def show(q):
            return ",".join(SimQueue._show(x) for x in self.queues[q].items) if q in self.queues else ""
        return f"wq:{show('workQ')}|rq:{show('resQ')}"

    def run(self, chooser):
        schedule = []
        try:
            self.install()
            try:
                self.sched.spawn("P", self.caller)
            except simsched.SchedulerError as e:
                self.final_finished = {}
                return ("stuck:" if isinstance(e, simsched.Stuck) else "scheduler:") + str(e), schedule, list(self.sched.log)

            def wrapped(en, sched):
                name = chooser(en, sched)
                schedule.append(name)
                return name

            try:
                self.sched.run(wrapped)
                status = "done"
            except simsched.Deadlock as d:
                status = "deadlock:" + ",".join(f"{t}@{op}" for t, op in d.blocked)
            except simsched.SchedulerError as e:
                # not an observation about the code's behaviour: the run cannot be controlled (see simsched.Stuck)
                status = ("stuck:" if isinstance(e, simsched.Stuck) else "scheduler:") + str(e)
            self.final_finished = {n: t.finished for n, t in self.sched.threads.items()}
            err = self.sched.threads["P"].error
            if err is not None:
                status = "error:" + type(err).__name__
            return status, schedule, list(self.sched.log)
        finally:
            self.sched.abort()
            self.unpatch()
