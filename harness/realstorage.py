# -*- coding: UTF-8 -*-
"""
Real-process runs of TextFileStorage (C14): what the controlled scheduler cannot see because it replaces the manager lists,
the shared counters, the lock and the file system — real files (buffering, append mode, offsets in bytes vs characters), a
real Manager, really forked writer and reader processes.  Judged by the property's oracle only: every read raises IndexError
or returns exactly the stored text; a second store under an identifier raises ValueError and changes nothing; len(),
is_contiguous() and iteration agree with the stored identifiers; flush() removes the files and resets the storage.
Run as a subprocess in its own session so that a hang can be killed as a whole process group:
    python -m harness.realstorage <scenario>
"""
import multiprocessing
import os
import shutil
import sys
import tempfile
import time

REPO = os.environ.get("WINDPYUTILS_REPO", "/repo")
if REPO not in sys.path:
    sys.path.insert(0, REPO)


def text_for(name, g):
    """the single-line text stored under identifier g (deterministic)"""
    if name == "big_texts":
        return f"{g}:" + chr(0x61 + g % 26) * (70000 + 4099 * (g % 5))
    pool = [f"text {g}", f"  lead and trail {g}  ", f"žluťoučký kůň {g} \U0001F40D", f"tab\there {g}",
            "x" * (g % 7), f"{g}", f"0", f"a,b;\"c\" {g}", f"é" * (3 + g % 50) + str(g),
            # characters that str.splitlines() treats as line boundaries but a text file does not, inside and at the ends
            f"page one\x0cpage two {g}", f"\x0bvt first {g}", f"fs\x1cgs\x1drs\x1e {g}", f"nel\x85 ls\u2028 ps\u2029 {g}",
            f"{g} ends with a separator\u2028"]
    # not generated: texts containing '\r' — the read handle is opened with universal newlines, so '\r' ends a line for the
    # storage; such a text is not a "single-line text" for it (DESIGN.md §2, observed but outside the property as stated)
    return pool[g % len(pool)] or f"e{g}"


SCENARIOS = {
    # name: (writers, ids per writer layout, number_of_data, readers)
    "writers_readers": dict(writers=3, n=24, layout="interleaved", presize=None, readers=2),
    "reversed_gapped": dict(writers=2, n=14, layout="reversed_gaps", presize=None, readers=1),
    "presized_larger": dict(writers=2, n=10, layout="interleaved", presize=16, readers=1),
    "big_texts": dict(writers=2, n=8, layout="interleaved", presize=None, readers=2),
    "sessions": dict(writers=2, n=12, layout="sessions", presize=None, readers=1),
    # the same under an interpreter whose default text encoding is ASCII (LC_ALL=C, UTF-8 mode off): a text the files cannot
    # hold may be refused (UnicodeEncodeError, nothing recorded under its identifier); whatever is accepted is read back exactly
    "ascii_locale": dict(writers=2, n=18, layout="interleaved", presize=None, readers=1, allow_refused=True),
}


def ids_of(cfg, w):
    n, k = cfg["n"], cfg["writers"]
    if cfg["layout"] in ("interleaved", "sessions"):
        return [g for g in range(n) if g % k == w]
    # reversed order, every fifth identifier never stored
    all_ids = [g for g in range(n) if g % 5 != 3]
    mine = [g for i, g in enumerate(all_ids) if i % k == w]
    return list(reversed(mine))


def writer(name, cfg, storage, w, errq):
    try:
        ids = ids_of(cfg, w)
        if cfg["layout"] == "sessions":
            half = len(ids) // 2
            with storage:
                for g in ids[:half]:
                    storage[g] = text_for(name, g)
            # the context was left: the next store re-opens this process's file in append mode
            for g in ids[half:]:
                storage[g] = text_for(name, g)
            storage.close()
        else:
            storage.open()
            for g in list(ids):
                try:
                    storage[g] = text_for(name, g)
                except UnicodeError:
                    if not cfg.get("allow_refused"):
                        raise
                    errq.put(("refused", g))
                    ids.remove(g)
                time.sleep(0.002)  # lets the readers poll between two stores
            # a second store under an identifier of one's own: ValueError, nothing changes
            if ids:
                try:
                    storage[ids[0]] = "other text"
                    errq.put(f"writer {w}: second store under {ids[0]} did not raise")
                except ValueError:
                    pass
            storage.close()
    except BaseException as e:  # noqa
        errq.put(f"writer {w}: {type(e).__name__}: {e}")


def reader(name, cfg, storage, r, stop, errq):
    try:
        n = cfg["n"]
        reads = hits = 0
        g = r
        while not stop.is_set() or reads < 2 * n:
            g = (g * 7 + 3 + r) % (n + 2)
            try:
                got = storage[g]
                hits += 1
                if got != text_for(name, g):
                    errq.put(f"reader {r}: storage[{g}] returned {got[:60]!r} (len {len(got)}), stored text is "
                             f"{text_for(name, g)[:60]!r} (len {len(text_for(name, g))})")
                    return
            except IndexError:
                pass
            reads += 1
            if reads > 200000:
                break
        storage.close()
        errq.put(("stats", reads, hits))
    except BaseException as e:  # noqa
        errq.put(f"reader {r}: {type(e).__name__}: {e}")


def opened_before_fork():
    """the storage is opened and used in the parent, then a child is forked that inherits it; parent and child go on storing in
    strict alternation, and everything is read back by both"""
    from windpyutils.parallel.storage import TextFileStorage
    ctx = multiprocessing.get_context("fork")
    d = tempfile.mkdtemp(prefix="c14fork_", dir=os.environ.get("VERIF_SCRATCH") or None)
    problems = []
    try:
        st = TextFileStorage(d)
        st.open()
        texts = {g: f"{'parent' if g % 2 == 0 else 'child'} text {g} " + "é" * (g * 3) for g in range(9)}
        st[0] = texts[0]
        to_child, to_parent = ctx.Queue(), ctx.Queue()

        def child():
            try:
                for g in (1, 3, 5, 7):
                    to_child.get(timeout=20)
                    st[g] = texts[g]
                    to_parent.put("stored")
                to_child.get(timeout=20)
                bad = [g for g in range(9) if st[g] != texts[g]]
                to_parent.put(("read", bad))
            except BaseException as e:  # noqa
                to_parent.put(("error", f"{type(e).__name__}: {e}"))

        p = ctx.Process(target=child)
        p.start()
        for g in (2, 4, 6, 8):
            to_child.put("go")
            r = to_parent.get(timeout=20)
            if r != "stored":
                problems.append(f"the child: {r}"); break
            st[g] = texts[g]
        if not problems:
            to_child.put("read")
            r = to_parent.get(timeout=20)
            if r != ("read", []):
                problems.append(f"the child reads back wrongly: {r}")
            for g in range(9):
                try:
                    if st[g] != texts[g]:
                        problems.append(f"storage[{g}] in the parent returns {st[g][:40]!r}, stored was {texts[g][:40]!r}")
                except IndexError:
                    problems.append(f"storage[{g}] in the parent raises IndexError")
            if len(st) != 9 or list(st) != [texts[g] for g in range(9)]:
                problems.append(f"len {len(st)}, iteration {[t[:12] for t in st]}")
        p.join(10)
        if p.is_alive():
            p.kill()
        st.close()
    finally:
        shutil.rmtree(d, ignore_errors=True)
    for p_ in problems[:4]:
        print("WRONG opened_before_fork:", p_)
    print("DONE" if not problems else "FAILED")
    return 0 if not problems else 1


def seq_model():
    """single-process scripts (stores that succeed, stores whose write raises, second stores, reads, len, is_contiguous, iteration,
    flush) on the real storage beside the sequential model `Model/StorageSeq.lean` (driver machine `storageseq`)"""
    import random
    from windpyutils.parallel.storage import TextFileStorage
    sys.path.insert(0, os.path.dirname(os.path.dirname(os.path.abspath(__file__))))
    from harness import core
    rng = random.Random(int(os.environ.get("VERIF_SEED", "20260929")) * 7919 + 14)
    problems = []
    n_scripts = 0
    for _ in range(60):
        presize = rng.choice([0, 0, 2, 5])
        script = [f"init {presize}"]
        for _ in range(rng.randint(1, 25)):
            r = rng.random()
            g = rng.randrange(8)
            if r < 0.45:
                script.append(f"store {g} {rng.randrange(100)} {0 if rng.random() < 0.25 else 1}")
            elif r < 0.65:
                script.append(f"read {g}")
            elif r < 0.75:
                script.append("len")
            elif r < 0.85:
                script.append("contig")
            elif r < 0.95:
                script.append("iter")
            else:
                script.append("flush")
        model = [l.split(" # ")[0] for l in core.run_driver("storageseq", ["reset"] + script)[1:]]
        d = tempfile.mkdtemp(prefix="c14seq_", dir=os.environ.get("VERIF_SCRATCH") or None)
        impl = []
        try:
            st = None
            for op in script:
                w = op.split()
                try:
                    if w[0] == "init":
                        st = TextFileStorage(d, number_of_data=int(w[1]) or None); impl.append("ok")
                    elif w[0] == "store":
                        st[int(w[1])] = f"T{w[2]}" + ("" if w[3] == "1" else "\ud800"); impl.append("ok")
                    elif w[0] == "read":
                        impl.append("text:" + st[int(w[1])])
                    elif w[0] == "len":
                        impl.append(f"nat:{len(st)}")
                    elif w[0] == "contig":
                        impl.append(f"bool:{1 if st.is_contiguous() else 0}")
                    elif w[0] == "iter":
                        impl.append("texts:" + ",".join(st))
                    elif w[0] == "flush":
                        st.close(); st.flush(); impl.append("ok")
                except UnicodeError:
                    impl.append("raised")
                except ValueError:
                    impl.append("ValueError")
                except IndexError:
                    impl.append("IndexError")
            if st is not None:
                st.close()
        finally:
            shutil.rmtree(d, ignore_errors=True)
        n_scripts += 1
        if impl != model:
            k = next(i for i, (a, b) in enumerate(zip(impl, model)) if a != b)
            problems.append(f"script {script[:k + 1]}: the storage answers {impl[k]!r} to `{script[k]}`, the sequential model "
                            f"(a failed store leaves the identifier free; a second store raises ValueError) gives {model[k]!r}")
            break
    print(f"STATS scripts={n_scripts}")
    for p_ in problems[:3]:
        print("WRONG seq_model:", p_)
    print("DONE" if not problems else "FAILED")
    return 0 if not problems else 1


def main(name):
    if name == "seq_model":
        return seq_model()
    if name == "opened_before_fork":
        return opened_before_fork()
    if name == "ascii_locale" and os.environ.get("C14_ASCII_CHILD") != "1":
        import subprocess
        env = dict(os.environ, LC_ALL="C", LANG="C", PYTHONUTF8="0", PYTHONCOERCECLOCALE="0", C14_ASCII_CHILD="1",
                   PYTHONIOENCODING="utf-8")
        p = subprocess.run([sys.executable, "-m", "harness.realstorage", name], env=env, stdout=subprocess.PIPE,
                           stderr=subprocess.STDOUT, text=True)
        print(p.stdout, end="")
        return p.returncode
    from windpyutils.parallel.storage import TextFileStorage
    cfg = SCENARIOS[name]
    ctx = multiprocessing.get_context("fork")
    d = tempfile.mkdtemp(prefix="c14real_", dir=os.environ.get("VERIF_SCRATCH") or None)
    problems = []
    try:
        kw = {"file_prefix": "px"} if name in ("reversed_gapped", "sessions") else {}
        storage = TextFileStorage(d, number_of_data=cfg["presize"], **kw)
        errq = ctx.Queue()
        stop = ctx.Event()
        ws = [ctx.Process(target=writer, args=(name, cfg, storage, w, errq)) for w in range(cfg["writers"])]
        rs = [ctx.Process(target=reader, args=(name, cfg, storage, r, stop, errq)) for r in range(cfg["readers"])]
        for p in rs + ws:
            p.start()
        for p in ws:
            p.join()
        stop.set()
        for p in rs:
            p.join()
        reads = hits = 0
        refused = set()
        deadline = time.time() + 2
        seen_stats = 0
        while seen_stats < cfg["readers"] and time.time() < deadline:
            try:
                m = errq.get(timeout=0.2)
            except Exception:  # noqa: queue.Empty
                continue
            if isinstance(m, tuple) and m[0] == "refused":
                refused.add(m[1])
            elif isinstance(m, tuple):
                seen_stats += 1
                reads += m[1]
                hits += m[2]
            else:
                problems.append(m)
        time.sleep(0.05)
        while not errq.empty():
            m = errq.get()
            if isinstance(m, tuple) and m[0] == "refused":
                refused.add(m[1])
            elif not isinstance(m, tuple):
                problems.append(m)
        print(f"STATS reads={reads} hits={hits} refused={len(refused)}")
        stored = sorted(g for w in range(cfg["writers"]) for g in ids_of(cfg, w) if g not in refused)
        if not problems:
            if len(storage) != len(stored):
                problems.append(f"len() is {len(storage)}, {len(stored)} identifiers were stored")
            contiguous = stored == list(range(len(stored)))
            if storage.is_contiguous() != contiguous:
                problems.append(f"is_contiguous() is {storage.is_contiguous()}, stored identifiers {stored}")
            got = list(storage)
            exp = [text_for(name, g) for g in stored]
            if got != exp:
                problems.append(f"iteration yields {[t[:20] for t in got]}, expected {[t[:20] for t in exp]}")
            for g in range(cfg["n"] + 2):
                try:
                    t = storage[g]
                    if g not in stored or t != text_for(name, g):
                        problems.append(f"storage[{g}] returned {t[:40]!r}")
                except IndexError:
                    if g in stored:
                        problems.append(f"storage[{g}] raised IndexError, a text was stored under it")
            # the parent stores too (its own file), clash with a stored identifier
            free = max(stored) + 1 if stored else 0
            storage[free] = "parent's text"
            if storage[free] != "parent's text":
                problems.append("the parent's own store is not read back")
            if stored:
                try:
                    storage[stored[0]] = "clash"
                    problems.append("a second store under a stored identifier did not raise")
                except ValueError:
                    pass
                if storage[stored[0]] != text_for(name, stored[0]) or len(storage) != len(stored) + 1:
                    problems.append("a rejected second store changed the storage")
            # a store whose write fails (a text that cannot be encoded for the file): the exception reaches the caller and the
            # storage is as before — the identifier is free, nothing counts it, a later store under it works
            bad = free + 1
            n_before, it_before = len(storage), list(storage)
            try:
                storage[bad] = "cannot be encoded \ud800 for the file"
                problems.append("a store of a text that cannot be encoded did not raise")
            except (UnicodeError, ValueError):
                pass
            try:
                t = storage[bad]
                problems.append(f"after a store that raised, storage[{bad}] returns {t[:40]!r} instead of raising IndexError")
            except IndexError:
                pass
            if len(storage) != n_before or list(storage) != it_before:
                problems.append(f"a store that raised changed the storage: len {n_before} -> {len(storage)}")
            try:
                storage[bad] = "stored after the failed attempt"
                if storage[bad] != "stored after the failed attempt" or len(storage) != n_before + 1:
                    problems.append("a store under an identifier whose first store had raised is not read back")
            except ValueError:
                problems.append("an identifier whose store raised counts as stored: a later store under it raises ValueError")
            storage.close()
            storage.flush()
            left = os.listdir(d)
            if left or len(storage) != 0 or list(storage) != []:
                problems.append(f"after flush(): files {left}, len {len(storage)}")
            storage[0] = "again"
            if storage[0] != "again" or len(storage) != 1 or not storage.is_contiguous():
                problems.append("the storage is not usable after flush()")
            storage.close()
    finally:
        shutil.rmtree(d, ignore_errors=True)
    for p in problems[:5]:
        print("WRONG", name + ":", p)
    print("DONE" if not problems else "FAILED")
    return 0 if not problems else 1


if __name__ == "__main__":
    sys.exit(main(sys.argv[1]))
