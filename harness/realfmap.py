# -*- coding: UTF-8 -*-
"""
Real-process runs of FunctorMap / mul_p_map (C05): what the controlled scheduler cannot see because it replaces the
multiprocessing primitives — real queues, real pipes (results far larger than a pipe buffer), real process start and join.
Run as a subprocess in its own session so that a hang can be killed as a whole process group:
    python -m harness.realfmap <scenario>
"""
import os
import sys

REPO = os.environ.get("WINDPYUTILS_REPO", "/repo")
if REPO not in sys.path:
    sys.path.insert(0, REPO)

BIG = 1 << 20


def small(x):
    return None if x is None else x * 3 + 1


def big(x):
    # a result far larger than a pipe buffer, still cheap to compare
    return (x, bytes([x % 251]) * BIG)


def falsy(x):
    return [] if x % 2 else 0


def excval(x):
    # results may be any picklable object: an exception *instance* returned (not raised) is a value like any other
    return ValueError("multiple of three", x) if x % 3 == 0 else (KeyError(x) if x % 3 == 1 else x)


def typed(x):
    # equal items (1, True, 1.0) are different inputs
    return (type(x).__name__, repr(x))


def canon(v):
    return (type(v).__name__, v.args) if isinstance(v, BaseException) else v


SCENARIOS = {
    # name: (kind, workers, functor, [(items, chunk_size)])
    "fmap_small": ("fmap", 2, small, [(10, 3), (0, 1), (1, 5), (7, 1), (6, 2 ** 70), (3, 2 ** 63)]),
    "fmap_big_results": ("fmap", 2, big, [(8, 1), (5, 2)]),
    "fmap_none_and_falsy": ("fmap", 3, small, [(9, 2)]),
    "fmap_falsy_results": ("fmap", 2, falsy, [(6, 1)]),
    "fmap_exception_values": ("fmap", 2, excval, [(7, 2), (4, 1)]),
    "fmap_equal_items": ("fmap", 2, typed, [(10, 3), (10, 10)]),
    "mulp_exception_values": ("mulp", 2, excval, [(6, 1)]),
    "mulp_small": ("mulp", 3, small, [(20, 1), (0, 1), (2, 1)]),
    "mulp_big_results": ("mulp", 2, big, [(6, 1)]),
}


def inputs(name, n):
    if name == "fmap_equal_items":
        return [1, True, 1.0, 1, 2, 2.0, 0, False, 0.0, -0.0][:n]
    if name == "fmap_none_and_falsy":
        return [None if i % 4 == 1 else i for i in range(n)]
    return list(range(n))


def detached_generator():
    """a helper enters a map (no with-block) and hands back only the generator of a call; the map object itself is not referenced
    by the caller any more while the generator is consumed (also after a garbage collection): the call yields map(f, data)"""
    import gc
    from windpyutils.parallel.pools import FunctorMap

    def helper(data, cs):
        fm = FunctorMap(small, 2)
        fm.__enter__()
        return fm(iter(data), cs)

    ok = True
    for n, cs in ((9, 2), (5, 1), (0, 1)):
        data = list(range(n))
        gen = helper(data, cs)
        gc.collect()
        got = list(gen)
        if got != [small(x) for x in data]:
            print(f"WRONG fmap_detached_generator: {n} items, chunk {cs}: got {got}")
            ok = False
    return ok


def one_cpu_default_workers():
    """the default number of workers (`workers <= 0`: "as many as cpus") in a process that may run on one cpu only (taskset, a
    one-core job): the maps still need at least one worker"""
    from windpyutils.parallel.pools import FunctorMap
    from windpyutils.parallel.maps import mul_p_map
    try:
        allowed = sorted(os.sched_getaffinity(0))
        os.sched_setaffinity(0, {allowed[0]})
    except (AttributeError, OSError):
        print("SKIPPED (cpu affinity cannot be set)")
        return True
    ok = True
    data = list(range(7))
    with FunctorMap(small) as m:
        got = list(m(iter(data), 2))
    if got != [small(x) for x in data]:
        print(f"WRONG fmap_one_cpu_default_workers: FunctorMap with the default number of workers: {got}")
        ok = False
    got = list(mul_p_map(small, iter(data), 0))
    if got != [small(x) for x in data]:
        print(f"WRONG fmap_one_cpu_default_workers: mul_p_map with workers=0: {got}")
        ok = False
    return ok


def main(name):
    from windpyutils.parallel.pools import FunctorMap
    from windpyutils.parallel.maps import mul_p_map
    if name == "fmap_one_cpu_default_workers":
        ok = one_cpu_default_workers()
        print("DONE" if ok else "FAILED")
        return 0 if ok else 1
    if name == "fmap_detached_generator":
        ok = detached_generator()
        print("DONE" if ok else "FAILED")
        return 0 if ok else 1
    kind, workers, fun, calls = SCENARIOS[name]
    ok = True
    if kind == "fmap":
        with FunctorMap(fun, workers) as m:
            for n, cs in calls:
                data = inputs(name, n)
                got = [canon(v) for v in m(iter(data), cs)]
                exp = [canon(fun(x)) for x in data]
                if got != exp:
                    print(f"WRONG {name}: {n} items, chunk {cs}: got {str(got)[:200]}, expected {str(exp)[:200]}")
                    ok = False
    else:
        for n, cs in calls:
            data = inputs(name, n)
            got = [canon(v) for v in mul_p_map(fun, iter(data), workers)]
            exp = [canon(fun(x)) for x in data]
            if list(got) != exp:
                print(f"WRONG {name}: {n} items: got {str(got)[:200]}, expected {str(exp)[:200]}")
                ok = False
    print("DONE" if ok else "FAILED")
    return 0 if ok else 1


if __name__ == "__main__":
    sys.exit(main(sys.argv[1]))
