# -*- coding: UTF-8 -*-
"""
Core of the correspondence harness: PRNG, Lean bridge, proof-obligation audit, diff, shrinker, verdict logic,
evidence writer, known findings.  Standard library only; runs under /venv/bin/python (the interpreter of the
baseline test-suite) with /repo's working tree on sys.path.
"""
import fcntl
import hashlib
import json
import os
import random
import re
import shutil
import signal
import subprocess
import sys
import tempfile
import time
import traceback

VERIF = os.path.dirname(os.path.dirname(os.path.abspath(__file__)))
REPO = os.environ.get("WINDPYUTILS_REPO", "/repo")
# where evidence/ and replays/ are written: /verif itself, except for runs against a scratch copy of the repository (seed
# triage, mutation sweeps: tools/*.sh, tools/mutate.py), which must not overwrite the evidence of the unchanged tree
OUT_DIR = os.environ.get("VERIF_OUT_DIR", VERIF)
LEAN_DIR = os.path.join(VERIF, "lean")
DRIVER = os.path.join(LEAN_DIR, ".lake", "build", "bin", "driver")
ALLOWED_AXIOMS = {"propext", "Classical.choice", "Quot.sound"}
FORBIDDEN = re.compile(r"\bsorry\b|\badmit\b|^\s*axiom\s|native_decide|bv_decide|implemented_by|\bunsafe\s|maxHeartbeats\s+0\b")

if REPO not in sys.path:
    sys.path.insert(0, REPO)
os.environ.setdefault("WINDPYUTILS_VERIF", "1")


class HarnessError(Exception):
    """internal problem of the machinery (never a violation): exit code 2"""


# ---------------------------------------------------------------------------------------------------------------------
# Lean side
# ---------------------------------------------------------------------------------------------------------------------

class BuildLock:
    def __enter__(self):
        self.f = open(os.path.join(LEAN_DIR, ".build.lock"), "w")
        fcntl.flock(self.f, fcntl.LOCK_EX)
        return self

    def __exit__(self, *a):
        fcntl.flock(self.f, fcntl.LOCK_UN)
        self.f.close()


def lake_build(targets, timeout=3000):
    """builds the given lake targets (no-op when current); returns (ok, output)"""
    with BuildLock():
        p = subprocess.run(["lake", "build"] + list(targets), cwd=LEAN_DIR, stdout=subprocess.PIPE,
                           stderr=subprocess.STDOUT, text=True, timeout=timeout)
    return p.returncode == 0, p.stdout


def strip_lean_comments(src: str) -> str:
    # nested block comments
    out = []
    i, depth = 0, 0
    n = len(src)
    while i < n:
        if src.startswith("/-", i):
            depth += 1
            i += 2
        elif depth > 0 and src.startswith("-/", i):
            depth -= 1
            i += 2
        elif depth > 0:
            if src[i] == "\n":
                out.append("\n")
            i += 1
        elif src.startswith("--", i):
            while i < n and src[i] != "\n":
                i += 1
        else:
            out.append(src[i])
            i += 1
    return "".join(out)


def import_closure(module):
    """project files a module depends on (transitively), by parsing `import WindVerif.…` lines"""
    seen, todo = {}, [module]
    while todo:
        m = todo.pop()
        if m in seen:
            continue
        p = os.path.join(LEAN_DIR, *m.split(".")) + ".lean"
        if not os.path.exists(p):
            continue
        seen[m] = p
        for line in open(p, encoding="utf-8"):
            mm = re.match(r"\s*(?:public\s+)?import\s+(WindVerif[\w.]*)", line)
            if mm:
                todo.append(mm.group(1))
    return seen


def grep_forbidden(modules):
    """scans the Lean sources the given modules are built from for forbidden constructs outside comments"""
    hits = []
    files = {}
    for m in modules:
        files.update(import_closure(m))
    for m, p in sorted(files.items()):
        code = strip_lean_comments(open(p, encoding="utf-8").read())
        for ln, line in enumerate(code.split("\n"), 1):
            if FORBIDDEN.search(line):
                hits.append(f"{os.path.relpath(p, LEAN_DIR)}:{ln}: {line.strip()}")
    return hits, len(files)


def theorems_of(prop_id):
    """names of the property theorems of one property, from Props/manifest.txt (lines: `Cxx Name`)"""
    res = []
    for line in open(os.path.join(LEAN_DIR, "WindVerif", "Props", "manifest.txt"), encoding="utf-8"):
        line = line.split("#")[0].strip()
        if not line:
            continue
        pid, name = line.split()[:2]
        if pid == prop_id:
            res.append(name)
    return res


def audit_axioms(prop_id, modules=None):
    """`#print axioms` of every property theorem; returns dict name -> list of axioms (raises on failure)"""
    names = theorems_of(prop_id)
    if not names:
        raise HarnessError(f"no theorems registered for {prop_id}")
    modules = modules or [f"WindVerif.Props.{prop_id}"]
    src = "".join(f"import {m}\n" for m in modules) + "".join(f"#print axioms {n}\n" for n in names)
    with tempfile.NamedTemporaryFile("w", suffix=".lean", delete=False, dir=LEAN_DIR) as f:
        f.write(src)
        tmp = f.name
    try:
        p = subprocess.run(["lake", "env", "lean", tmp], cwd=LEAN_DIR, stdout=subprocess.PIPE,
                           stderr=subprocess.STDOUT, text=True, timeout=600)
    finally:
        os.unlink(tmp)
    out = p.stdout
    res = {}
    # "'Name' depends on axioms: [a, b]"  or "'Name' does not depend on any axioms"
    for m in re.finditer(r"'([^']+)' depends on axioms: \[([^\]]*)\]", out, re.S):
        res[m.group(1)] = [a.strip() for a in m.group(2).replace("\n", " ").split(",") if a.strip()]
    for m in re.finditer(r"'([^']+)' does not depend on any axioms", out):
        res[m.group(1)] = []
    missing = [n for n in names if n not in res]
    if p.returncode != 0 or missing:
        raise HarnessError(f"axiom audit failed for {prop_id}: missing={missing}\n{out[-2000:]}")
    return res


class ProofStatus:
    def __init__(self):
        self.ok = True
        self.problems = []
        self.theorems = {}
        self.build_s = 0.0
        self.n_files = 0


def check_proofs(prop_id, extra_targets=(), leanchecker=False):
    """Proof obligations of a property: build, forbidden-token scan, axiom audit (and leanchecker when asked)."""
    st = ProofStatus()
    t0 = time.time()
    if os.environ.get("VERIF_SECONDARY_PASS") == "1":
        # the optimised-mode pass of `./check`: correspondence and oracle only, the proof obligations are those of the
        # primary pass of the same invocation
        return st
    ok, out = lake_build([f"WindVerif.Props.{prop_id}", "driver"] + list(extra_targets))
    for _attempt in range(2):
        if ok:
            break
        # another lake process working in the same directory can make a link step fail transiently: retry before believing it
        time.sleep(5)
        ok, out = lake_build([f"WindVerif.Props.{prop_id}", "driver"] + list(extra_targets))
    st.build_s = time.time() - t0
    if not ok:
        st.ok = False
        st.problems.append("lake build failed:\n" + out[-3000:])
        return st
    hits, n_files = grep_forbidden([f"WindVerif.Props.{prop_id}"])
    st.n_files = n_files
    if hits:
        st.ok = False
        st.problems.append("forbidden constructs in Lean sources: " + "; ".join(hits[:10]))
    try:
        st.theorems = audit_axioms(prop_id)
        for n, ax in st.theorems.items():
            bad = [a for a in ax if a not in ALLOWED_AXIOMS]
            if bad:
                st.ok = False
                st.problems.append(f"theorem {n} depends on non-standard axioms {bad}")
    except HarnessError as e:
        st.ok = False
        st.problems.append(str(e))
    if leanchecker and st.ok:
        p = subprocess.run(["lake", "env", "leanchecker", f"WindVerif.Props.{prop_id}"], cwd=LEAN_DIR,
                           stdout=subprocess.PIPE, stderr=subprocess.STDOUT, text=True, timeout=3000)
        if p.returncode != 0:
            st.ok = False
            st.problems.append("leanchecker rejected the compiled module:\n" + p.stdout[-2000:])
        else:
            st.theorems["__leanchecker__"] = ["ok"]
    return st


def run_driver(model, lines, timeout=600, args=()):
    """pipes the op lines to the compiled Lean driver and returns its output lines"""
    if not os.path.exists(DRIVER):
        raise HarnessError("Lean driver is not built (run setup_cmd)")
    data = "".join(l + "\n" for l in lines)
    p = subprocess.run([DRIVER, model] + list(args), input=data, stdout=subprocess.PIPE, stderr=subprocess.PIPE,
                       text=True, timeout=timeout)
    if p.returncode != 0:
        raise HarnessError(f"Lean driver failed ({p.returncode}): {p.stderr[-500:]}")
    out = p.stdout.split("\n")
    if out and out[-1] == "":
        out.pop()
    if len(out) != len(lines):
        raise HarnessError(f"Lean driver returned {len(out)} lines for {len(lines)} ops")
    return out


# ---------------------------------------------------------------------------------------------------------------------
# helpers for implementations under test
# ---------------------------------------------------------------------------------------------------------------------

class Timeout(KeyboardInterrupt):
    """raised by the watchdog of call_with_alarm.  A subclass of KeyboardInterrupt on purpose: the implementation runners
    turn every exception of an operation into an observation (`err <name>`) except KeyboardInterrupt / SystemExit, so a
    watchdog that fires aborts the whole case instead of being recorded for one operation after the other"""


def call_with_alarm(fn, seconds=2.0):
    """runs fn() under a SIGALRM watchdog (main thread only): non-termination becomes an observation"""

    def handler(signum, frame):
        raise Timeout()

    # nesting: an enclosing watchdog keeps its deadline (the inner one never outlives it, and it is re-armed afterwards)
    outer_left = signal.getitimer(signal.ITIMER_REAL)[0]
    t0 = time.time()
    old = signal.signal(signal.SIGALRM, handler)
    # repeating: a runner that catches the exception of one operation and goes on is interrupted again and again
    signal.setitimer(signal.ITIMER_REAL, min(seconds, outer_left) if outer_left > 0 else seconds, 0.25)
    try:
        return fn()
    finally:
        signal.setitimer(signal.ITIMER_REAL, 0)
        signal.signal(signal.SIGALRM, old)
        if outer_left > 0:
            signal.setitimer(signal.ITIMER_REAL, max(0.01, outer_left - (time.time() - t0)))


def enc_str(s: str) -> str:
    return "x" + ".".join(format(ord(c), "x") for c in s)


def dec_str(w: str) -> str:
    assert w.startswith("x")
    body = w[1:]
    return "" if body == "" else "".join(chr(int(h, 16)) for h in body.split("."))


# Payload values travel through the line protocol as integer codes.  The small codes stand for the falsy / odd objects that a
# container must treat like any other value (`if value:` / `x.get(k) is None` shortcuts are the classic way to lose them).
FALSY = {0: None, 1: 0, 2: "", 3: (), 4: False, 5: 0.0}


def dec_val(code: int):
    return FALSY.get(code, code)


def enc_val(obj):
    for c, t in FALSY.items():
        if type(obj) is type(t) and obj == t:
            return c
    return obj


class FalsyInt(int):
    """an int that is falsy whatever its value: a result a pool must hand over like any other (`if result:` loses it)"""

    def __bool__(self):
        return False


def pool_f(x, a=2):
    """the functor used with the pools: every third result is a falsy object (still an int, so the harness can invert it);
    a `None` input gives a `None` result"""
    if x is None:
        return None
    y = x * a + 1
    return FalsyInt(y) if y % 3 == 0 else y


def pool_input(k, i, with_none=False):
    """the i-th input element of the k-th call: an element is any object — falsy numbers and (`with_none`) `None` included
    (a pool that filters its data with `if x` / `is not None` loses them)"""
    if with_none and i % 5 == 1:
        return None
    v = k * 1000 + i
    return FalsyInt(v) if i % 5 == 3 else v


def err_name(e: BaseException) -> str:
    return type(e).__name__


# ---------------------------------------------------------------------------------------------------------------------
# cases, verdicts
# ---------------------------------------------------------------------------------------------------------------------

class Case:
    """One correspondence case: op lines for the Lean model + whatever the implementation runner needs."""

    def __init__(self, ops, meta=None, label=""):
        self.ops = list(ops)
        self.meta = meta or {}
        self.label = label

    def to_json(self):
        return {"ops": self.ops, "meta": self.meta, "label": self.label}


class Finding:
    def __init__(self, kind, case, detail, expected=None, observed=None, signature=None):
        self.kind = kind  # 'property' (concrete failing input) | 'correspondence' | 'proof'
        self.case = case
        self.detail = detail
        self.expected = expected
        self.observed = observed
        self.signature = signature


def write_fallback_replay(prop_id, seed, tier, error, where):
    """replay file for the case that the harness itself could no longer observe the implementation (see ./check)"""
    d = os.path.join(OUT_DIR, "replays")
    os.makedirs(d, exist_ok=True)
    path = os.path.join(d, f"{prop_id}-{seed}.json")
    with open(path, "w", encoding="utf-8") as f:
        json.dump({"property": prop_id, "kind": "correspondence",
                   "detail": f"correspondence for {prop_id} no longer checks: the harness could not observe the implementation "
                             f"the way the model prescribes ({error}) at {where}; no failing input found",
                   "case": {"label": "harness observation failed"}, "expected": None, "observed": error,
                   "seed": seed, "tier": tier}, f, indent=1, ensure_ascii=True, default=str)
    return os.path.relpath(path, VERIF)


def load_known_findings():
    known, fixed = [], []
    p = os.path.join(VERIF, "KNOWN_FINDINGS.txt")
    if os.path.exists(p):
        for line in open(p, encoding="utf-8"):
            line = line.strip()
            if line.startswith("known:"):
                m = re.match(r"known:\s+property=(\S+)\s+signature=(\S+)\s+(.*)", line)
                if m:
                    known.append({"property": m.group(1), "signature": m.group(2), "what": m.group(3)})
            elif line.startswith("fixed:"):
                fixed.append(line)
    return known, fixed


def source_digest(files):
    h = hashlib.sha256()
    for f in files:
        p = os.path.join(REPO, f)
        try:
            h.update(open(p, "rb").read())
        except OSError:
            h.update(b"<missing>")
    return h.hexdigest()[:16]


OPT_PASS_RESULT = None  # set by ./check: what the `python -O` pass of this invocation did


def budget_div(n):
    """the secondary (optimised-mode) pass runs a fraction of the budget"""
    try:
        d = int(os.environ.get("VERIF_BUDGET_DIV", "1"))
    except ValueError:
        d = 1
    return max(1, n // max(1, d))


def _ast_digest(path):
    """digest of the *code* of a Python source file: comments, blank lines and docstrings do not count"""
    import ast
    try:
        src = open(path, "rb").read()
    except OSError:
        return "<missing>"
    try:
        tree = ast.parse(src)
    except SyntaxError:
        return "<syntax-error>"
    for node in ast.walk(tree):
        body = getattr(node, "body", None)
        if isinstance(body, list) and body and isinstance(body[0], ast.Expr) and \
                isinstance(getattr(body[0], "value", None), ast.Constant) and isinstance(body[0].value.value, str):
            body[0].value.value = ""
    return hashlib.sha256(ast.dump(tree, annotate_fields=False).encode("utf-8")).hexdigest()[:20]


def anchors_changed(anchors):
    """the anchored source files whose code is not what `anchors.lock.json` records (the tree the models, the budgets and
    the generators were tuned on).  A change is no alarm: it only tells the check to look harder (`budget_scale`)."""
    try:
        lock = json.load(open(os.path.join(VERIF, "anchors.lock.json"), encoding="utf-8"))
    except (OSError, ValueError):
        return []
    return [f for f in anchors if lock.get(f) != _ast_digest(os.path.join(REPO, f))]


def budget_scale(anchors, tier, report=None):
    """1 on the recorded tree; VERIF_ESCALATE (default 4 quick / 2 thorough) when the code of an anchored file changed:
    a change on the property's path deserves a deeper correspondence run than the every-commit budget"""
    changed = anchors_changed(anchors)
    if report is not None:
        report.extra["anchored_sources_changed"] = changed
        if OPT_PASS_RESULT is not None:
            report.extra["optimised_mode_pass"] = OPT_PASS_RESULT
    if not changed:
        return 1
    try:
        k = int(os.environ.get("VERIF_ESCALATE", "4" if tier == "quick" else "2"))
    except ValueError:
        k = 4
    k = max(1, k)
    if report is not None:
        report.extra["budget_scale"] = k
    return k


def clone_probe(obj, snapshot, deep_equal=True, collect=False):
    """Copies of an object of the library — `copy.copy`, `copy.deepcopy`, a pickle round trip — are made, looked at and
    dropped again (garbage collected) next to the object under test.  `snapshot(o)` describes what `o` presents without
    using it in a way that changes it.  Returns None or a description:
      * making, reading and dropping the copies must leave the object exactly as it was,
      * every copy presents what the object presents.
    An object that cannot be copied or pickled at all (TypeError, RecursionError, pickling errors) is not judged."""
    import copy
    import gc
    import pickle
    try:
        before = snapshot(obj)
    except Exception as e:  # noqa: loud, not skipped — on the unchanged code every object the harness hands in can be read
        return f"the object cannot be read: {err_name(e)}: {e}"
    makers = [("copy.copy", lambda: copy.copy(obj)), ("copy.deepcopy", lambda: copy.deepcopy(obj)),
              ("pickle round trip", lambda: pickle.loads(pickle.dumps(obj)))]
    for name, make in makers:
        try:
            c = make()
        except (TypeError, RecursionError, pickle.PicklingError, AttributeError, ValueError, OSError):
            c = None
        except Exception as e:  # noqa
            return f"{name} of the object raised {err_name(e)}: {e}"
        if c is not None and (deep_equal or name == "copy.copy"):
            try:
                cs = snapshot(c)
            except Exception as e:  # noqa
                return f"the {name} cannot be read: {err_name(e)}: {e}"
            if cs != before:
                return f"the {name} presents {str(cs)[:300]}, the object presents {str(before)[:300]}"
        try:
            now = snapshot(obj)
        except Exception as e:  # noqa
            return f"after a {name} was made the object cannot be read: {err_name(e)}: {e}"
        if now != before:
            return f"making a {name} changed the object: it presented {str(before)[:300]}, now {str(now)[:300]}"
        del c
        if collect and name == "copy.copy":
            gc.collect(0)  # objects with reference cycles (and their finalisers) go only now
        try:
            now = snapshot(obj)
        except Exception as e:  # noqa
            return f"after a {name} was dropped the object cannot be read: {err_name(e)}: {e}"
        if now != before:
            return f"dropping a {name} changed the object: it presented {str(before)[:300]}, now {str(now)[:300]}"
    return None


class Report:
    """collects what a run did and writes evidence / replay / verdict lines"""

    def __init__(self, prop_id, tier, seed):
        self.prop_id = prop_id
        self.tier = tier
        self.seed = seed
        self.t0 = time.time()
        self.evaluations = 0
        self.nontrivial = set()
        self.samples = []
        self.histogram = {}
        self.findings = []
        self.known_hits = []
        self.notes = []
        self.extra = {}
        self.traces_validated = 0

    def count(self, key, n=1):
        self.histogram[key] = self.histogram.get(key, 0) + n

    def add_case(self, case, nontrivial_key=None):
        self.evaluations += 1
        if nontrivial_key is not None:
            self.nontrivial.add(nontrivial_key)
        if len(self.samples) < 3:
            self.samples.append(case.to_json() if isinstance(case, Case) else case)

    def write_replay(self, finding, suffix=""):
        d = os.path.join(OUT_DIR, "replays")
        os.makedirs(d, exist_ok=True)
        path = os.path.join(d, f"{self.prop_id}-{self.seed}{suffix}.json")
        with open(path, "w", encoding="utf-8") as f:
            json.dump({
                "property": self.prop_id, "kind": finding.kind, "detail": finding.detail,
                "case": finding.case.to_json() if isinstance(finding.case, Case) else finding.case,
                "expected": finding.expected, "observed": finding.observed, "seed": self.seed, "tier": self.tier,
            }, f, indent=1, ensure_ascii=True, default=str)
        return os.path.relpath(path, VERIF)

    def write_evidence(self, proof: ProofStatus, trusted_base, assumptions, violations, rule, checker_cmd=None):
        d = os.path.join(OUT_DIR, "evidence")
        os.makedirs(d, exist_ok=True)
        n_thm = len([n for n in proof.theorems if not n.startswith("__")])
        obligations = n_thm + 1  # the theorems + the correspondence obligation
        discharged = (n_thm if proof.ok else 0) + (1 if violations == 0 else 0)
        ev = {
            "property_id": self.prop_id, "tier": self.tier, "seed": self.seed, "level": "proof",
            "coverage": {
                "obligations": obligations, "discharged": discharged,
                "checker_cmd": checker_cmd or f"cd lean && lake build WindVerif.Props.{self.prop_id} && "
                                              f"#print axioms of every theorem in Props/manifest.txt",
                "trusted_base": trusted_base,
                "theorems": {n: ax for n, ax in proof.theorems.items()},
                "evaluations": self.evaluations, "distinct_nontrivial": len(self.nontrivial), "rule": rule,
                "samples": self.samples, "input_distribution": dict(sorted(self.histogram.items())),
                "traces_validated_against_impl": self.traces_validated,
                "proof_build_s": round(proof.build_s, 2), "notes": self.notes,
            },
            "assumptions": assumptions, "wall_s": round(time.time() - self.t0, 2), "violations": violations,
        }
        ev["coverage"].update(self.extra)
        with open(os.path.join(d, f"{self.prop_id}.json"), "w", encoding="utf-8") as f:
            json.dump(ev, f, indent=1, ensure_ascii=True, default=str)


def ddmin(items, fails, max_tests=400, max_seconds=120):
    """delta debugging: smallest sublist (order kept) for which fails(sublist) is still true; gives up refining after
    `max_seconds` (candidates that run into a watchdog are expensive) — what it has then is still a failing case"""
    tests = 0
    t_end = time.time() + max_seconds
    n = 2
    items = list(items)
    while len(items) >= 2 and tests < max_tests and time.time() < t_end:
        chunk = max(1, len(items) // n)
        subsets = [items[i:i + chunk] for i in range(0, len(items), chunk)]
        reduced = False
        for i in range(len(subsets)):
            cand = [x for j, s in enumerate(subsets) if j != i for x in s]
            tests += 1
            if time.time() > t_end:
                break
            try:
                bad = fails(cand)
            except Exception:
                bad = False
            if bad:
                items = cand
                n = max(n - 1, 2)
                reduced = True
                break
        if not reduced:
            if chunk == 1:
                break
            n = min(len(items), n * 2)
    return items


def seed_from_env(default=20260929):
    try:
        return int(os.environ.get("VERIF_SEED", default))
    except ValueError:
        return default


def scratch_dir():
    base = os.path.join(VERIF, ".scratch")
    os.makedirs(base, exist_ok=True)
    return tempfile.mkdtemp(dir=base)


def cleanup_dir(d):
    shutil.rmtree(d, ignore_errors=True)
