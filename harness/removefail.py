# -*- coding: UTF-8 -*-
"""
C20, a removal the operating system refuses: `TmpPool.remove(p)` while the directory does not allow deleting (a read-only
directory, for a user who is not root) raises; the file is still there, so the pool still lists it, and once the directory allows
it again `flush()` / leaving the context removes it.  Also a removal interrupted by a signal (KeyboardInterrupt raised inside
`os.remove`).  Run as a subprocess (it gives up root for the read-only part):  python -m harness.removefail <scratch dir>
"""
import os
import shutil
import sys
import tempfile

REPO = os.environ.get("WINDPYUTILS_REPO", "/repo")
if REPO not in sys.path:
    sys.path.insert(0, REPO)


def main(scratch):
    from windpyutils import files
    from windpyutils.files import TmpPool
    problems = []
    d = tempfile.mkdtemp(prefix="c20rm_", dir=scratch or None)
    try:
        os.chmod(d, 0o777)
        if os.getuid() == 0:
            try:
                os.chown(d, 65534, 65534)
                os.setgid(65534); os.setuid(65534)
                os.listdir(d)
            except OSError:
                print("SKIPPED (cannot give up root)")
                print("DONE")
                return 0
        # (1) the directory refuses the removal
        pool = TmpPool(d)
        with pool:
            a, b = pool.create(), pool.create()
            os.chmod(d, 0o555)
            try:
                try:
                    pool.remove(a)
                    refused = False
                except PermissionError:
                    refused = True
                if not refused:
                    print("SKIPPED (the removal was not refused)")
                else:
                    if not os.path.exists(a):
                        problems.append("remove() raised PermissionError although the file is gone")
                    elif list(pool) != [a, b]:
                        problems.append(f"after a remove() that the directory refused (the file still exists) the pool lists "
                                        f"{[os.path.basename(p) for p in pool]}, created and not removed: "
                                        f"{[os.path.basename(p) for p in (a, b)]}")
            finally:
                os.chmod(d, 0o755)
        left = sorted(os.listdir(d))
        if left:
            problems.append(f"after leaving the context (the directory allows removals again) files of the pool still exist: {left}")
        # (2) a removal interrupted from outside: the exception comes out of os.remove before anything was deleted
        real_remove = os.remove
        state = {"armed": False}

        def interrupted_remove(p, *a_, **k_):
            if state["armed"]:
                state["armed"] = False
                raise KeyboardInterrupt()
            return real_remove(p, *a_, **k_)

        pool = TmpPool(d)
        with pool:
            a, b = pool.create(), pool.create()
            files.os.remove = interrupted_remove
            try:
                state["armed"] = True
                try:
                    pool.remove(b)
                    problems.append("the interruption inside remove() was swallowed")
                except KeyboardInterrupt:
                    pass
            finally:
                files.os.remove = real_remove
            if os.path.exists(b) and list(pool) != [a, b]:
                problems.append(f"after a remove() that was interrupted before the file was deleted the pool lists "
                                f"{[os.path.basename(p) for p in pool]}, the files {[os.path.basename(p) for p in (a, b)]} exist")
        left = sorted(os.listdir(d))
        if left:
            problems.append(f"after leaving the context files of the pool still exist (a removal had been interrupted): {left}")
    finally:
        try:
            os.chmod(d, 0o755)
        except OSError:
            pass
        shutil.rmtree(d, ignore_errors=True)
    for p in problems[:4]:
        print("WRONG", p)
    print("DONE" if not problems else "FAILED")
    return 0 if not problems else 1


if __name__ == "__main__":
    sys.exit(main(sys.argv[1] if len(sys.argv) > 1 else None))
