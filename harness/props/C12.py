from .linefile import C12Prop as Prop
