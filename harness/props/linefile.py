# -*- coding: UTF-8 -*-
"""C11 / C12 — line files: correspondence of windpyutils.files with Model/LineFile.lean"""
import os
import random

from .. import core
from ..core import Case, err_name, enc_str, dec_str
from ..seqcheck import SeqProp

VARIANTS = ["RandomLineAccessFile", "MemoryMappedRandomLineAccessFile", "MutableRandomLineAccessFile",
            "MutableMemoryMappedRandomLineAccessFile", "RecordFile", "MemoryMappedRecordFile", "MutableRecordFile",
            "MutableMemoryMappedRecordFile"]
MUTABLE = [v for v in VARIANTS if v.startswith("Mutable")]

_REC = {}


def id_record():
    """a record class whose string representation is the line itself"""
    if "cls" not in _REC:
        from windpyutils.files import Record

        class IdRecord(Record):
            def __init__(self, s):
                self.s = s

            @classmethod
            def load(cls, s):
                return cls(s)

            def save(self):
                return self.s

            def __eq__(self, other):
                return isinstance(other, IdRecord) and other.s == self.s

            def __hash__(self):
                return hash(self.s)

        _REC["cls"] = IdRecord
    return _REC["cls"]


def ref_lines(content):
    ls = content.split("\n")
    if ls[-1] == "":
        ls.pop()
    return ls


def line_offsets(content):
    offs, o = [], 0
    for l in content.split("\n")[:-1]:
        offs.append(o)
        o += len((l + "\n").encode("utf-8"))
    if not content.endswith("\n") and content != "":
        offs.append(o)
    return offs


def strs(xs):
    return ",".join(enc_str(x) for x in xs)


class LineFileBase(SeqProp):
    model = "linefile"
    anchors = ["windpyutils/files.py"]
    trusted_base = ["Lean 4.33.0 kernel", "axioms: propext, Classical.choice, Quot.sound (audited per theorem)",
                    "hand-written model Model/LineFile.lean tied to files.py by this correspondence run (all eight variants "
                    "run against the one model)",
                    "modelled, not verified: TextIOWrapper(newline='\\n') seek/readline, mmap.readline + bytes.decode, "
                    "UTF-8 size of a scalar value = Char.utf8Size, list/slice index conventions (Core/PyList.lean)"]
    scratch = None

    # ---- implementation ------------------------------------------------------------------------------------------------
    def path(self, name):
        if self.scratch is None:
            self.scratch = core.scratch_dir()
        return os.path.join(self.scratch, name)

    def main(self, tier, seed, replay=None):
        try:
            return SeqProp.main(self, tier, seed, replay)
        finally:
            if self.scratch is not None:
                core.cleanup_dir(self.scratch)
                self.scratch = None

    def make(self, variant, path, index):
        from windpyutils import files
        cls = getattr(files, variant)
        if "Record" in variant:
            if index is None:
                f = cls(path, id_record())
            else:
                # record files take a `lines` argument of the base class, the offsets are set the same way
                f = cls(path, id_record())
                f._lines = index if not isinstance(index, str) else files.RandomLineAccessFile.read_index_from_file(index)
            return f
        return cls(path, index)

    def run_impl(self, case):
        m = case.meta
        variant = m["variant"]
        is_rec = "Record" in variant
        content = dec_str(m["content"])
        src = self.path("src.txt")
        with open(src, "wb") as fh:
            fh.write(content.encode("utf-8"))
        # the modification time of the source is the same for every case (cp -p, rsync -t, a coarse clock): a file object must
        # not take the file for one it has seen before because path, size and time stamp coincide
        os.utime(src, ns=(1_600_000_000_000_000_000, 1_600_000_000_000_000_000))
        index = None
        if m["index"][0] == "list":
            index = list(m["index"][1])
        elif m["index"][0] == "file":
            ip = self.path("src.index")
            with open(ip, "w") as fh:
                fh.write("".join(f"{o}\n" for o in m["index"][1]))
            index = ip
        f = None
        iters = []
        out = []
        def unwrap_rec(r):
            text = r.s
            r.s = "changed by the caller after it was read"  # the caller's copy: the file is not affected
            return text

        unwrap = unwrap_rec if is_rec else (lambda r: r)
        wrap = (lambda s: id_record()(s)) if is_rec else (lambda s: s)
        try:
            for op in case.ops:
                w = op.split()
                try:
                    k = w[0]
                    if k == "new":
                        if m.get("rel_chdir"):
                            # the path is given relative to the working directory, which is somewhere else afterwards (only while
                            # the object is constructed and while it is opened is it the file's directory): an opened file is the
                            # file that was opened
                            back = os.getcwd()
                            os.chdir(os.path.dirname(src))
                            try:
                                f = self.make(variant, os.path.basename(src), index)
                            finally:
                                os.chdir(back)
                        else:
                            f = self.make(variant, src, index)
                        out.append("ok")
                    elif k == "open":
                        # open() / the context-manager entry, in turn
                        back = os.getcwd()
                        if m.get("rel_chdir"):
                            os.chdir(os.path.dirname(src))
                        try:
                            if len(out) % 2:
                                f.open()
                            elif f.__enter__() is not f:
                                raise RuntimeError("__enter__ did not return the file object")
                        finally:
                            os.chdir(back)
                        out.append("ok")
                        if len(content) < 3000 and not any(o.startswith("ok") for o in out[1:-1]) and not m.get("rel_chdir"):
                            # copies of the opened file object are made, read and dropped: the object itself stays usable
                            try:
                                cp = core.clone_probe(f, lambda o: (len(o), o.closed, [unwrap(o[i]) for i in range(min(len(o), 3))]),
                                                      collect=True)
                            except Exception as e_:  # noqa: the freshly opened file cannot even be read
                                cp = f"the opened file cannot be read: {err_name(e_)}: {e_}"
                            if cp is not None:
                                out[-1] = "mixin-mismatch copies of the file object: " + cp + " ;; ok"
                    elif k == "close":
                        # close() / leaving the context normally / leaving it through an exception raised in the body
                        if len(out) % 3 == 0:
                            f.close()
                        elif len(out) % 3 == 1:
                            f.__exit__(None, None, None)
                        else:
                            try:
                                raise KeyError("with-body failed")
                            except KeyError as e:
                                f.__exit__(KeyError, e, e.__traceback__)
                        out.append("ok")
                    elif k == "len":
                        out.append(f"ret {len(f)}")
                    elif k == "get":
                        out.append("ret " + enc_str(unwrap(f[int(w[1])])))
                    elif k == "slice":
                        a, b, c = [None if x == "-" else int(x) for x in w[1:4]]
                        out.append("list " + strs(unwrap(x) for x in f[slice(a, b, c)]))
                    elif k == "sel":
                        sel = [int(x) for x in w[1:]]
                        # alternate between a list, a tuple and a generator as the iterable selector
                        sel_obj = [sel, tuple(sel), (x for x in sel)][len(sel) % 3]
                        if len(sel) >= 2 and sel[1] != sel[0] and all(b_ - a_ == sel[1] - sel[0] for a_, b_ in zip(sel, sel[1:])):
                            # an arithmetic progression is handed over as a range object (negative ends, counting down included)
                            sel_obj = range(sel[0], sel[-1] + (1 if sel[1] > sel[0] else -1), sel[1] - sel[0])
                        out.append("list " + strs(unwrap(x) for x in f[sel_obj]))
                    elif k == "iter_new":
                        iters.append(iter(f)); out.append(f"ret {len(iters) - 1}")
                    elif k == "iter_next":
                        try:
                            out.append("ret " + enc_str(unwrap(next(iters[int(w[1])]))))
                        except StopIteration:
                            out.append("stop")
                    elif k == "set":
                        f[int(w[1])] = wrap(dec_str(w[2])); out.append("ok")
                    elif k == "del":
                        del f[int(w[1])]; out.append("ok")
                    elif k == "insert":
                        f.insert(int(w[1]), wrap(dec_str(w[2]))); out.append("ok")
                    elif k == "append":
                        f.append(wrap(dec_str(w[1]))); out.append("ok")
                    elif k in ("extend", "iadd"):
                        vals = [wrap(dec_str(x)) for x in w[1:]]
                        # like list.extend / +=: any iterable, one-shot ones included
                        arg = [vals, tuple(vals), iter(vals), (x for x in vals), map(lambda x: x, vals)][(len(vals) + len(out)) % 5]
                        if k == "extend":
                            f.extend(arg)
                        else:
                            f += arg
                        out.append("ok")
                    elif k == "pop":
                        # pop() without an argument takes the last line
                        out.append("ret " + enc_str(unwrap(f.pop() if (w[1] == "-1" and len(out) % 2) else f.pop(int(w[1])))))
                    elif k == "remove":
                        f.remove(wrap(dec_str(w[1]))); out.append("ok")
                    elif k == "reverse":
                        f.reverse(); out.append("ok")
                    elif k == "index":
                        # index <s> [<start>|- [<stop>|-]] : `-` = the bound is not given
                        args = [wrap(dec_str(w[1]))]
                        if len(w) >= 3:
                            args.append(0 if w[2] == "-" else int(w[2]))
                        if len(w) >= 4 and w[3] != "-":
                            args.append(int(w[3]))
                        out.append(f"ret {f.index(*args)}")
                    elif k == "count":
                        out.append(f"ret {f.count(wrap(dec_str(w[1])))}")
                    elif k == "has":
                        out.append(f"ret {1 if wrap(dec_str(w[1])) in f else 0}")
                    elif k == "rev":
                        out.append("list " + strs(unwrap(x) for x in reversed(f)))
                    elif k == "clear":
                        f.clear(); out.append("ok")
                    elif k == "dirty":
                        out.append(f"ret {1 if f.dirty else 0}")
                    elif k == "lines":
                        view = [unwrap(x) for x in f]
                        out.append("list " + strs(view))
                        if len(content) < 3000 and len(view) <= 40:
                            # the inherited Sequence interface (index with bounds, count, in, reversed) beside the list
                            from .. import mixins
                            ref = [wrap(x) for x in view]
                            probes = ref[:2] + ref[-1:] + [wrap("n1"), wrap("no such line")]
                            mix = mixins.sequence_battery(f, ref, probes)
                            if mix is not None:
                                out[-1] = "mixin-mismatch " + mix + " ;; " + out[-1]
                    elif k == "save":
                        le = dec_str(w[1])
                        dst = self.path("saved.txt")
                        if len(out) % 3 == 0:
                            if os.path.exists(dst):
                                os.remove(dst)
                        else:
                            # the target exists already and is longer than what is going to be written
                            with open(dst, "wb") as fh_:
                                fh_.write(b"stale line of an older, longer file\n" * 40 + content.encode("utf-8"))
                        if len(out) % 2:
                            f.save(dst, le) if le != "\n" else f.save(dst)
                        else:
                            # the documented other form of the target: an opened text file
                            with open(dst, "w", newline="", encoding="utf-8") as fh:
                                f.save(fh, le) if le != "\n" else f.save(fh)
                        data = open(dst, "rb").read().decode("utf-8")
                        line = "ret " + enc_str(data)
                        view = [unwrap(x) for x in f]
                        if le == "\n" and all("\n" not in v for v in view):
                            # reopening the saved file (both flavours) gives the same list
                            from windpyutils import files
                            for cls in (files.MutableRandomLineAccessFile, files.MutableMemoryMappedRandomLineAccessFile):
                                if data == "" and "MemoryMapped" in cls.__name__:
                                    continue
                                with cls(dst) as g:
                                    if list(g) != view or len(g) != len(view):
                                        line += " reopen-mismatch"
                        out.append(line)
                    else:
                        out.append("bad-op")
                except BaseException as e:  # noqa
                    if isinstance(e, (KeyboardInterrupt, SystemExit, core.Timeout)):
                        raise
                    out.append(f"err {err_name(e)}")
            if open(src, "rb").read() != content.encode("utf-8"):
                out[-1] += " source-changed"
        finally:
            try:
                if f is not None:
                    f.close()
            except Exception:
                pass
        return out

    # ---- oracle: a Python list of strings -----------------------------------------------------------------------------
    def oracle(self, case, impl_out):
        for i, line in enumerate(impl_out):
            if line.startswith("mixin-mismatch "):
                return f"op {i} `{case.ops[i]}`: inherited Sequence interface: {line[15:].split(' ;; ')[0][:600]}"
        m = case.meta
        content = dec_str(m["content"])
        plain = "Record" not in m["variant"]
        if m["index"][0] == "built":
            base = ref_lines(content)
        else:
            data = content.encode("utf-8")
            base = []
            for o in m["index"][1]:
                rest = data[o:]
                j = rest.find(b"\n")
                base.append((rest if j < 0 else rest[:j]).decode("utf-8"))
        ref = None
        opened = False
        dirty = False
        iters = []
        for i, (op, line) in enumerate(zip(case.ops, impl_out)):
            w = op.split()
            k = w[0]
            exp = None
            try:
                if k == "new":
                    ref = list(base); exp = "ok"
                elif k == "open":
                    opened = True; exp = "ok"
                elif k == "close":
                    opened = False; exp = "ok"
                elif k == "len":
                    exp = f"ret {len(ref)}"
                elif k in ("index", "count", "has", "rev", "clear") and not opened:
                    exp = None  # which of RuntimeError / ValueError / an empty answer a closed file gives is the model's business
                elif k == "index":
                    args = [dec_str(w[1])]
                    if len(w) >= 3:
                        args.append(0 if w[2] == "-" else int(w[2]))
                    if len(w) >= 4 and w[3] != "-":
                        args.append(int(w[3]))
                    exp = f"ret {ref.index(*args)}"
                elif k == "count":
                    exp = f"ret {ref.count(dec_str(w[1]))}"
                elif k == "has":
                    exp = f"ret {1 if dec_str(w[1]) in ref else 0}"
                elif k == "rev":
                    exp = "list " + strs(reversed(ref))
                elif k == "clear":
                    dirty = dirty or len(ref) > 0
                    ref.clear(); exp = "ok"
                elif k in ("get", "slice", "sel", "lines", "iter_next", "pop", "remove", "save") and not opened \
                        and not (k == "iter_next" and iters[int(w[1])][0]):
                    exp = "err RuntimeError"
                    if k in ("pop", "remove", "save") and k != "save":
                        exp = None  # order of checks inside mixins is not part of the property
                elif k == "get":
                    exp = "ret " + enc_str(ref[int(w[1])])
                elif k == "slice":
                    a, b, c = [None if x == "-" else int(x) for x in w[1:4]]
                    exp = "list " + strs(ref[slice(a, b, c)])
                elif k == "sel":
                    exp = "list " + strs(ref[int(x)] for x in w[1:])
                elif k == "iter_new":
                    iters.append([False, 0, 0]); exp = f"ret {len(iters) - 1}"
                elif k == "iter_next":
                    it = iters[int(w[1])]
                    if not it[0]:
                        it[0], it[1], it[2] = True, 0, len(ref)
                    if it[1] < it[2]:
                        exp = "ret " + enc_str(ref[it[1]]); it[1] += 1
                    else:
                        exp = "stop"
                elif k == "set":
                    ref[int(w[1])] = dec_str(w[2]); dirty = True; exp = "ok"
                elif k == "del":
                    del ref[int(w[1])]; dirty = True; exp = "ok"
                elif k == "insert":
                    ref.insert(int(w[1]), dec_str(w[2])); dirty = True; exp = "ok"
                elif k == "append":
                    ref.append(dec_str(w[1])); dirty = True; exp = "ok"
                elif k in ("extend", "iadd"):
                    ref.extend(dec_str(x) for x in w[1:])
                    dirty = dirty or len(w) > 1
                    exp = "ok"
                elif k == "pop":
                    v = ref.pop(int(w[1])); dirty = True; exp = "ret " + enc_str(v)
                elif k == "remove":
                    ref.remove(dec_str(w[1])); dirty = True; exp = "ok"
                elif k == "reverse" and not opened and len(ref) >= 2:
                    exp = None  # the inherited reverse() reads items: on a closed file it raises before it changes anything
                    if line == "ok":
                        ref.reverse(); dirty = True
                elif k == "reverse":
                    old = list(ref); ref.reverse()
                    dirty = dirty or len(ref) >= 2
                    exp = "ok"
                elif k == "dirty":
                    exp = f"ret {1 if dirty else 0}" if plain else None
                elif k == "lines":
                    exp = "list " + strs(ref)
                elif k == "save":
                    le = dec_str(w[1])
                    exp = "ret " + enc_str("".join(l.rstrip("\n") + le for l in ref))
            except IndexError:
                exp = "err IndexError"
            except ValueError:
                exp = "err ValueError"
            if exp is not None and line != exp:
                return (f"op {i} `{op[:100]}` on {m['variant']}: observed {line[:300]!r}, a Python list of the file's lines "
                        f"gives {exp[:300]!r}")
        return None

    def histogram(self, report, case, impl_out):
        report.count("variant:" + case.meta["variant"])
        report.count("index:" + case.meta["index"][0])
        for op, line in zip(case.ops, impl_out):
            report.count("op:" + op.split()[0])
            if line.startswith("err"):
                report.count("result:" + line)

    def key(self, case, impl_out):
        return hash((case.meta["variant"], case.meta["content"], tuple(case.ops))) if len(case.ops) >= 5 else None


PIECES = ["a", "bc", "", "é", "漢字", "x y\tz", "q\rw", "end\r", "1,2,3", " lead", "trail ", "𝄞",
          # a byte order mark is a character like any other, wherever it stands (concatenated "with BOM" files)
          "\ufeffbom first", "\ufeff", "mid\ufeffdle"]


def sized_content(rng, total, final_nl, n_lines=None):
    """a content of exactly `total` UTF-8 bytes (block-size boundaries of buffered readers: 4096, 8192, 65536, ...), with
    or without a terminated last line"""
    n = rng.choice([1, 2, 3, 6]) if n_lines is None else n_lines
    lines = [rng.choice(["a", "bc", "", "é", "x y"]) for _ in range(n)]
    content = "\n".join(lines) + ("\n" if final_nl else "")
    missing = total - len(content.encode("utf-8"))
    if missing < 0:
        return None
    k = rng.randrange(n)
    lines[k] = lines[k] + "L" * missing
    return "\n".join(lines) + ("\n" if final_nl else "")


def gen_content(rng, tier, allow_cr=True, min_lines=0):
    if min_lines <= 1 and rng.random() < (0.012 if tier == "quick" else 0.03):
        block = rng.choice([4096, 8192, 65536] if tier == "quick" else [4096, 8192, 16384, 65536, 131072, 1 << 20])
        c = sized_content(rng, block * rng.choice([1, 1, 2]) + rng.choice([-1, 0, 0, 0, 1]), rng.random() < 0.4)
        if c is not None:
            return c
    n = rng.choice([0, 1, 2, 3, 5, 8, 12])
    n = max(n, min_lines)
    lines = []
    for _ in range(n):
        p = rng.choice(PIECES)
        if not allow_cr:
            p = p.replace("\r", "")
        r = rng.random()
        if r < 0.03:
            p = p + "L" * 8200
        elif r < 0.04 and tier != "quick":
            p = "é" * 33000
        lines.append(p)
    content = "\n".join(lines)
    if lines and (rng.random() < 0.7 or lines[-1] == ""):
        content += "\n"
    return content


class C11Prop(LineFileBase):
    pid = "C11"
    quick_cases = 1500
    thorough_cases = 6000
    rule = ("file contents from {empty, empty lines, multi-byte UTF-8, lines > 8192 bytes (thorough: > 65536), lone \\r and "
            "\\r\\n, missing final \\n} x all eight variants (unmodified) x index sources {built, offset list, index file, "
            "permutation, subset}; scripts interleave len, f[i] (negative and out of range), slices, iterable selectors, close/open sessions and "
            "next() on up to three live iterators; every result compared with the Lean model and with content.split('\\n'); "
            "non-trivial = at least 5 ops")
    assumptions = ["files are valid UTF-8", "caller-supplied offsets are line starts of the file",
                   "the OS cannot memory-map an empty file (mmap variants are not run on empty content)"]

    def corpus(self):
        c = "l0\nl1\nl2\nl3\nl4\n"
        offs = line_offsets(c)
        return [
            self.mk("RandomLineAccessFile", "a\rb\nc\n", ["built"], ["len", "get 0", "get 1", "lines"], "D9: lone CR"),
            self.mk("MemoryMappedRandomLineAccessFile", "a\r\nb\r\n", ["built"], ["len", "get 0", "get 1", "lines"], "D9: CRLF"),
            self.mk("RandomLineAccessFile", c, ["built"],
                    ["iter_new", "iter_next 0", "get 4", "iter_next 0", "get 4", "iter_next 0", "iter_new", "iter_next 1",
                     "iter_next 0", "iter_next 1", "iter_next 0", "iter_next 0"], "D10: iteration with random access"),
            self.mk("MemoryMappedRandomLineAccessFile", c, ["list", [offs[3], offs[0], offs[2]]],
                    ["len", "lines", "get 0", "get 1", "get 2", "slice - - -1"], "D11: permuted subset index"),
            self.mk("RandomLineAccessFile", sized_content(random.Random(1), 65536, False, 1), ["built"],
                    ["len", "get -1", "lines"], "one unterminated line of exactly 64 KiB"),
            self.mk("MemoryMappedRandomLineAccessFile", sized_content(random.Random(2), 2 * 65536, False, 3), ["built"],
                    ["len", "get -1", "get 0", "slice - - -1"], "128 KiB exactly, last line unterminated"),
            self.mk("RandomLineAccessFile", sized_content(random.Random(3), 8192, False, 2), ["built"],
                    ["len", "get -1", "lines"], "8 KiB exactly, last line unterminated"),
            self.mk("RandomLineAccessFile", sized_content(random.Random(4), 65536, True, 2), ["built"],
                    ["len", "get -1", "lines"], "64 KiB exactly, terminated"),
            self.mk("RandomLineAccessFile", "é\n漢字\n\nlast", ["file", line_offsets("é\n漢字\n\nlast")],
                    ["len", "get -1", "get -4", "get -5", "get 4", "slice 1 3 -", "sel 0 -1 2"], "multi-byte, no final newline"),
        ]

    def mk(self, variant, content, index, body, label=""):
        idx = ["built"] if index[0] == "built" else [index[0], list(index[1])]
        first = "new " + enc_str(content) + (" built" if idx[0] == "built" else " list " + " ".join(map(str, idx[1])))
        ops = [first.rstrip(), "len", "get 0", "open"] + body
        return Case(ops, {"variant": variant, "content": enc_str(content), "index": idx}, label)

    def gen(self, rng, n, tier):
        for _ in range(n):
            content = gen_content(rng, tier)
            variant = rng.choice(VARIANTS)
            if content == "" and "MemoryMapped" in variant:
                variant = variant.replace("MemoryMapped", "")
            offs = line_offsets(content)
            r = rng.random()
            if r < 0.5:
                index = ["built"]
            elif r < 0.62:
                index = ["list", offs]
            elif r < 0.74:
                index = ["file", offs]
            elif r < 0.87:
                p = list(offs); rng.shuffle(p); index = [rng.choice(["list", "file"]), p]
            else:
                index = ["list", [o for o in offs if rng.random() < 0.5]]
            nl = len(offs) if index[0] == "built" else len(index[1])
            body = []
            niter = 0
            for _ in range(rng.randint(3, 25)):
                q = rng.random()
                ri = lambda: rng.randint(-nl - 2, nl + 1)
                if q < 0.04:
                    # the inherited Sequence interface (Model/LineFileSeq.lean): a line of the file or a foreign string
                    ls = ref_lines(content)
                    probe = enc_str(rng.choice(ls) if ls and rng.random() < 0.7 else rng.choice(["", "no such line", "a"]))
                    b = lambda: rng.choice(["-", str(ri())])
                    body.append(rng.choice([f"index {probe}", f"index {probe} {b()}", f"index {probe} {b()} {b()}", f"count {probe}",
                                            f"has {probe}", "rev"]))
                elif q < 0.3:
                    body.append(f"get {ri()}")
                elif q < 0.42:
                    sl = [rng.choice(["-", str(ri())]), rng.choice(["-", str(ri())]), rng.choice(["-", "-", "1", "2", "-1", "-2", "0"])]
                    body.append("slice " + " ".join(sl))
                elif q < 0.5:
                    if nl >= 2 and rng.random() < 0.4:
                        # positions in arithmetic progression (handed over as a range object): across 0 from the negative side,
                        # counting down to 0, ordinary
                        a_ = rng.randint(-nl, nl - 1); st_ = rng.choice([1, 1, -1, 2, -2]); k_ = rng.randint(2, 4)
                        prog = [a_ + st_ * q_ for q_ in range(k_)]
                        prog = [x for x in prog if -nl <= x < nl]
                        body.append(("sel " + " ".join(map(str, prog))).rstrip())
                    else:
                        body.append(("sel " + " ".join(str(rng.randint(-nl, nl - 1)) for _ in range(rng.randint(0, 4)))).rstrip()
                                    if nl else "sel")
                elif q < 0.58 and niter < 3:
                    body.append("iter_new"); niter += 1
                elif q < 0.9 and niter:
                    body.append(f"iter_next {rng.randrange(niter)}")
                elif q < 0.93:
                    body.append("len")
                elif q < 0.975:
                    # a second session on the same object (`with f:` twice): state kept across close/open must not leak
                    body.append("close")
                    if rng.random() < 0.4:
                        body.append(f"get {ri()}")  # a read on the closed object
                    body.append("open")
                    if rng.random() < 0.6 and nl:
                        # the line that physically follows the last one read before the close
                        last = [int(b.split()[1]) for b in body if b.startswith("get ")]
                        body.append(f"get {(last[-1] + 1) if last and -nl <= last[-1] + 1 < nl else ri()}")
                else:
                    body.append("lines")
            c_ = self.mk(variant, content, index, body)
            if rng.random() < 0.08 and body.count("open") == 0 and index[0] != "file":
                c_.meta["rel_chdir"] = True  # relative path, the working directory is elsewhere after construction / opening
            yield c_


class C12Prop(LineFileBase):
    pid = "C12"
    quick_cases = 1500
    thorough_cases = 6000
    rule = ("initial contents of 0-12 lines x the four mutable variants (plain and record) x edit scripts to length 30 (item "
            "assignment, deletion, insert, append, extend, pop, remove, reverse, += (lists, tuples, one-shot iterables), negative and out-of-range positions) "
            "interleaved with reads, dirty and save with line_ending in {\\n, \\r\\n, \\t, ''}; saved bytes, reopened content "
            "(both flavours) and the untouched source bytes are checked; compared with the Lean model and a Python list; "
            "non-trivial = at least 5 ops with an edit")
    assumptions = ["line contents without line breaks", "save target differs from the source path", "files are valid UTF-8"]

    def corpus(self):
        return [
            self.mk("MutableRandomLineAccessFile", "l0\nl1\nl2\n", ["dirty", "set 10 " + enc_str("x"), "dirty", "del 10", "dirty",
                                                                     "pop 7", "dirty", "set 1 " + enc_str("y"), "dirty", "lines",
                                                                     "save " + enc_str("\n")], "D12: failed edits leave dirty False"),
            self.mk("MutableMemoryMappedRandomLineAccessFile", "a\nb\nc\nd\n",
                    ["del 1", "insert 1 " + enc_str("X"), "get 2", "get 3", "reverse", "lines", "pop -1", "remove " + enc_str("c"),
                     "iadd " + enc_str("p") + " " + enc_str("q"), "lines", "save " + enc_str("\r\n"), "save " + enc_str("\n")],
                    "shifted file-backed lines"),
            self.mk("MutableRecordFile", "r0\nr1\n", ["set 0 " + enc_str("n0"), "append " + enc_str("n2"), "lines",
                                                      "save " + enc_str("\n"), "save " + enc_str("\t"), "save " + enc_str("")],
                    "record variant"),
        ]

    def mk(self, variant, content, body, label=""):
        ops = ["new " + enc_str(content) + " built", "open"] + body
        return Case(ops, {"variant": variant, "content": enc_str(content), "index": ["built"]}, label)

    def gen(self, rng, n, tier):
        for _ in range(n):
            content = gen_content(rng, tier, allow_cr=False)
            variant = rng.choice(MUTABLE)
            if content == "" and "MemoryMapped" in variant:
                variant = variant.replace("MemoryMapped", "")
            plain = "Record" not in variant
            nl = len(line_offsets(content))
            body = []
            cur = nl
            vals = ["n1", "n2", "é2", "", "a", "bc"]
            for _ in range(rng.randint(2, 30)):
                q = rng.random()
                ri = lambda: rng.randint(-cur - 2, cur + 1)
                s = enc_str(rng.choice(vals))
                if q < 0.12:
                    body.append(f"set {ri()} {s}")
                elif q < 0.22:
                    body.append(f"del {ri()}"); cur = max(0, cur - 1)
                elif q < 0.32:
                    body.append(f"insert {ri()} {s}"); cur += 1
                elif q < 0.38:
                    body.append(f"append {s}"); cur += 1
                elif q < 0.43:
                    k = rng.randint(0, 3)
                    body.append((rng.choice(["extend", "iadd"]) + "".join(" " + enc_str(rng.choice(vals)) for _ in range(k))))
                    cur += k
                elif q < 0.5:
                    body.append(f"pop {rng.choice([-1, -1, ri()])}"); cur = max(0, cur - 1)
                elif q < 0.55:
                    body.append(f"remove {s}")
                elif q < 0.6:
                    body.append("reverse")
                elif q < 0.63:
                    # the inherited Sequence / MutableSequence interface (Model/LineFileSeq.lean)
                    b = lambda: rng.choice(["-", str(ri())])
                    body.append(rng.choice([f"index {s}", f"index {s} {b()}", f"index {s} {b()} {b()}", f"count {s}", f"has {s}", "rev"]))
                elif q < 0.64:
                    body.append("clear"); cur = 0
                elif q < 0.72:
                    body.append(f"get {ri()}")
                elif q < 0.78:
                    body.append("lines")
                elif q < 0.83:
                    body.append("len")
                elif q < 0.9 and plain:
                    body.append("dirty")
                elif q < 0.95:
                    body.append("slice " + " ".join([rng.choice(["-", str(ri())]), rng.choice(["-", str(ri())]),
                                                    rng.choice(["-", "2", "-1"])]))
                else:
                    body.append("save " + enc_str(rng.choice(["\n", "\n", "\r\n", "\t", ""])))
            body += ["lines", "save " + enc_str("\n")]
            c_ = self.mk(variant, content, body)
            if rng.random() < 0.12 and len(body) >= 3:
                # the file object is edited before it is opened for the first time (the edits are in memory; nothing needs the handle)
                ops_ = c_.ops
                k_ = next((i for i, o in enumerate(ops_[2:], 2) if o.split()[0] in ("get", "slice", "sel", "lines", "save", "pop",
                                                                                   "remove", "index", "count", "has", "rev", "iter_new",
                                                                                   "iter_next", "close", "open")), len(ops_))
                if k_ > 2:
                    c_.ops = [ops_[0]] + ops_[2:k_] + ["open"] + ops_[k_:]
            yield c_

    # mutable *record* files whose records have a text of their own (CSV / TSV / JSON): edited, saved with a chosen line
    # ending, bytes of the saved file and of the source compared, reopened — the scenario of C13's harness, judged by its
    # oracle only (the Lean model of C12 is about lists of strings: a record whose text is the line itself)
    n_recfile = {"quick": 150, "thorough": 800, "search": 600}

    def extra_scenarios(self, rng, tier):
        n = self.n_recfile.get(tier, 150)
        return [{"kind": "recfile", "seed": rng.randrange(1 << 30)} for _ in range(n)] + \
               [{"kind": "recfileM", "seed": rng.randrange(1 << 30)} for _ in range(n)]

    def run_extra(self, desc):
        import random
        from .C13 import Prop as RecProp
        rp = getattr(self, "_recprop", None)
        if rp is None:
            rp = self._recprop = RecProp()
            rp.scratch = None
        if desc["kind"] == "recfileM":
            # the Lean machine `recfile` (Model/RecFile.lean: theorems records_list_semantics, save_untouched, save_edited)
            # against the real mutable record file classes, with CSV records that have a text of their own
            c = rp.gen_recfile_case(random.Random(desc["seed"]))
            io = rp.safe_impl(c)
            d = rp.oracle(c, io)
            if d is not None:
                return f"mutable record file (ops {c.ops}, {c.meta}): {d[:1200]}"
            mo = rp.run_model([c])[0]
            j = rp.first_diff(mo, io)
            if j is not None and rp.observable_kind(c, j, mo[j], io[j]) == "PO":
                return (f"mutable record file (ops {c.ops[:j + 1]}, {c.meta}): `{c.ops[j]}` gives {io[j][:300]!r}, the proved "
                        f"model {mo[j][:300]!r}")
            return None
        try:
            r = core.call_with_alarm(lambda: rp.recfile(random.Random(desc["seed"])), 20.0)
        except core.Timeout:
            r = "the scenario did not finish within 20 s"
        except Exception as e:  # noqa
            r = f"{type(e).__name__}: {e}"
        return None if r == "ok" else f"mutable record file scenario (seed {desc['seed']}): {str(r)[:1500]}"

    def main(self, tier, seed, replay=None):
        try:
            return LineFileBase.main(self, tier, seed, replay)
        finally:
            rp = getattr(self, "_recprop", None)
            if rp is not None and rp.scratch is not None:
                core.cleanup_dir(rp.scratch)
                rp.scratch = None

    def key(self, case, impl_out):
        if len(case.ops) >= 5 and any(o.split()[0] in ("set", "del", "insert", "append", "extend", "iadd", "pop", "remove", "reverse")
                                      for o in case.ops):
            return hash((case.meta["variant"], case.meta["content"], tuple(case.ops)))
        return None
