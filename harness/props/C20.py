# -*- coding: UTF-8 -*-
"""C20 — TmpPool / FilePool: correspondence with Model/TmpPool.lean on real temp directories (and real child processes)"""
import multiprocessing
import os
import random

from .. import core
from ..core import Case, err_name
from ..seqcheck import SeqProp


def child_main(pool, conn):
    try:
        while True:
            cmd = conn.recv()
            try:
                if cmd[0] == "create":
                    conn.send(("ret", pool.create()))
                elif cmd[0] == "remove":
                    pool.remove(cmd[1]); conn.send(("ok",))
                elif cmd[0] == "flush":
                    pool.flush(); conn.send(("ok",))
                elif cmd[0] == "quit":
                    conn.send(("ok",)); return
            except BaseException as e:  # noqa
                conn.send(("err", type(e).__name__))
    except EOFError:
        pass


class Prop(SeqProp):
    pid = "C20"
    model = "tmppool"
    anchors = ["windpyutils/files.py"]
    quick_cases = 1600
    thorough_cases = 10000
    case_timeout = 120.0
    quick_mp = 24
    thorough_mp = 60
    rule = ("TmpPool: random create/remove/flush scripts with files deleted behind the pool's back, removal of unlisted paths, "
            "and the with-body left normally or through an exception at a random step; single-process pools in-process, "
            "multi_proc pools with a real Manager and real forked children driven over pipes (children create/remove/flush "
            "before and after the parent's flush), and pools constructed in one process whose with-block runs in a forked child; after every op the pool's listing and the directory listing are compared "
            "with the Lean model; FilePool: 0-5 files, modes r/w/a, left normally or by exception; non-trivial = a flush or "
            "exit with files created")
    trusted_base = ["Lean 4.33.0 kernel", "axioms: propext, Classical.choice, Quot.sound (audited per theorem)",
                    "hand-written model Model/TmpPool.lean tied to files.py by this correspondence run",
                    "modelled, not verified: tempfile.NamedTemporaryFile gives a fresh existing path; os.remove; a manager list "
                    "proxy inherited by fork refers to the same list"]
    assumptions = ["the pool directory is used by this pool only", "FilePool: every path can be opened in the given mode"]
    scratch = None

    def main(self, tier, seed, replay=None):
        try:
            return SeqProp.main(self, tier, seed, replay)
        finally:
            if self.scratch is not None:
                core.cleanup_dir(self.scratch)
                self.scratch = None

    def corpus(self):
        return [
            Case(["new", "create 0", "fork 0", "flush 0", "create 1", "create 0", "exit"], {"mp": True}, "D18: child create after flush"),
            Case(["new", "create 0", "create 0", "unlink 0", "remove 0 0", "remove 0 5", "create 0", "raise"], {"mp": False},
                 "deleted behind the back, unlisted removal, exception exit"),
            Case(["new", "create 0", "create 0", "remove 0 0", "create 0", "flush 0", "create 0", "exit"], {"mp": False, "bystanders": True},
                 "two other pools alive in the same process"),
            Case(["fp_new 0 1 2", "fp_enter", "fp_raise"], {"mp": False, "modes": "w"}, "FilePool left by exception"),
            Case(["fp_new 0 1 2 3", "fp_enter", "fp_exit"], {"mp": False, "modes": "a", "body_close": [0, 1]},
                 "FilePool whose body closed two of the handles itself"),
            Case(["new", "create 0", "create 0", "enter 0", "create 0", "remove 0 1", "enter 0", "create 0", "exit"], {"mp": False, "late_enter": True},
                 "pool used before its context is entered, entered once more by a helper"),
            Case(["new", "create 0", "create 0", "enter 1", "create 0", "fork 0", "create 1", "exit"], {"mp": True, "late_enter": True},
                 "D21: multi_proc pool used before its context is entered"),
            Case(["new", "create 0", "create 0", "remove 0 0", "create 0", "exit"], {"mp": False, "foreign": True},
                 "pool constructed in one process, with-block in a forked child"),
            Case(["new", "create 0", "fork 0", "create 1", "flush 1", "create 1", "create 0", "raise"], {"mp": True, "foreign": True},
                 "multi_proc pool constructed in one process, entered and left (by exception) in a forked child with children of its own"),
        ]

    def gen(self, rng, n, tier):
        n_mp = self.quick_mp if tier == "quick" else (self.thorough_mp if tier == "thorough" else 0)
        for k in range(n):
            if rng.random() < 0.05:
                # a pool whose FIRST file does not exist yet: the enter fails (nothing was opened), the file appears, the same
                # pool object is entered again — once or several times (Model/FilePoolFail.lean)
                m = rng.randint(1, 4)
                ops = [("fp_new " + " ".join(map(str, range(m)))), "fp_missing 0", "fp_enter", "fp_create 0"]
                for _ in range(rng.randint(1, 3)):
                    ops += ["fp_enter", rng.choice(["fp_exit", "fp_raise"])]
                yield Case(ops, {"mp": False, "modes": "r", "plain_list": True})
                continue
            if rng.random() < 0.15:
                m = rng.randint(0, 5)
                # the with-body may use the handles as it likes: write / read them, close some of them itself
                yield Case([("fp_new " + " ".join(map(str, range(m)))).rstrip(), "fp_enter", rng.choice(["fp_exit", "fp_raise"])],
                           {"mp": False, "modes": rng.choice(["r", "w", "a"]),
                            "body_close": sorted(rng.sample(range(m), rng.randint(0, m))) if rng.random() < 0.5 else []})
                continue
            mp_case = k < n_mp
            ops = ["new"]
            nproc, created = 1, 0
            for _ in range(rng.randint(1, 12 if mp_case else 20)):
                r = rng.random()
                pid = rng.randrange(nproc)
                if r < 0.45:
                    ops.append(f"create {pid}"); created += 1
                elif r < 0.6 and created:
                    ops.append(f"remove {pid} {rng.randrange(created + (1 if rng.random() < 0.1 else 0))}")
                elif r < 0.7:
                    ops.append(f"flush {pid}")
                elif r < 0.8 and created:
                    ops.append(f"unlink {rng.randrange(created)}")
                elif r < 0.92 and mp_case and nproc < 3:
                    ops.append("fork 0"); nproc += 1
                else:
                    ops.append(f"create {pid}"); created += 1
            ops.append(rng.choice(["exit", "raise"]))
            meta = {"mp": mp_case}
            first_fork = next((i for i, o in enumerate(ops) if o.startswith("fork")), len(ops))
            hi = min(first_fork, len(ops) - 2)
            if mp_case and rng.random() < 0.25 and hi >= 2:
                # a multi_proc pool, as long as no child exists yet: the pool object is used (create / remove / flush work
                # without a context) and the context is entered afterwards — `enter` is an operation of the history (model:
                # Model/TmpPoolCtx.lean, D21)
                meta["late_enter"] = True
                ops.insert(rng.randint(2, hi), "enter 1")
            if not mp_case and rng.random() < 0.1:
                meta["rel_dir"] = True
            if not mp_case and created and rng.random() < 0.15:
                # removals the operating system refuses for a while (Model/TmpPoolRefuse.lean): the file stays the pool's and goes
                # once removing is allowed again
                for _ in range(rng.randint(1, 2)):
                    ops.insert(rng.randint(1, len(ops) - 1), f"protect {rng.randrange(created)}")
                if rng.random() < 0.8:
                    ops.insert(len(ops) - 1, "unprotect_all")
                elif rng.random() < 0.5:
                    ops.insert(rng.randint(1, len(ops) - 1), "unprotect_all")
            if not mp_case and rng.random() < 0.2:
                # a single-process pool works without a context too: the object is used first and its context is entered
                # later (`pool = TmpPool(d); pool.create(); with pool: …`), or a helper that got the pool wraps its own work
                # in a second `with pool:` — what was created before is still the pool's and goes when the context is left
                meta["late_enter"] = True
                at = rng.randint(1, max(1, len(ops) - 2))
                ops.insert(at, "enter 0")
                if rng.random() < 0.4:
                    ops.insert(rng.randint(at + 1, len(ops) - 1), "enter 0")
            if (not mp_case and "late_enter" not in meta and rng.random() < 0.04) or (mp_case and k % 4 == 3):
                meta["foreign"] = True  # constructed in this process, the with-block runs in a forked child
            elif rng.random() < 0.3:
                meta["bystanders"] = True  # other pools are alive in the same process while this one is used
            yield Case(ops, meta)

    # ---- implementation ------------------------------------------------------------------------------------------------
    def run_impl(self, case):
        if self.scratch is None:
            self.scratch = core.scratch_dir()
        if case.ops and case.ops[0].startswith("fp_"):
            return self.run_filepool(case)
        return core.call_with_alarm(lambda: self.run_tmppool(case), 60.0)

    def run_tmppool(self, case):
        from windpyutils.files import TmpPool
        d = os.path.join(self.scratch, f"pool{random.getrandbits(40)}")
        os.mkdir(d)
        mp_mode = case.meta.get("mp", False)
        ctx = multiprocessing.get_context("fork")
        if not case.meta.get("foreign", False):
            return self._tmppool_script(case, d, mp_mode, None)
        # the pool object is constructed here, but the `with` block (enter, body, exit) runs in another process: a forked
        # child that inherited the object.  Same history, same model — whoever leaves the context has to clean up.
        pre = TmpPool(d, multi_proc=mp_mode)
        a, b = ctx.Pipe()

        def runner():
            try:
                b.send(("out", self._tmppool_script(case, d, mp_mode, pre, cleanup=False)))
            except BaseException as e:  # noqa
                b.send(("err", err_name(e)))

        proc = ctx.Process(target=runner)
        proc.start()
        try:
            if not a.poll(50):
                raise core.Timeout()
            rep = a.recv()
        finally:
            proc.join(5)
            if proc.is_alive():
                proc.kill(); proc.join(2)
            core.cleanup_dir(d)
        if rep[0] != "out":
            raise core.HarnessError(f"foreign-process runner failed: {rep}")
        return rep[1]

    def _tmppool_script(self, case, d, mp_mode, pre, cleanup=True):
        from windpyutils.files import TmpPool
        ctx = multiprocessing.get_context("fork")
        pool = None
        paths = []  # idx -> path
        children = {}  # pid -> (process, conn)
        out = []

        def idx(p):
            return paths.index(p) if p in paths else f"?{os.path.basename(p)}"

        def dump():
            try:
                listed = ",".join(str(idx(p)) for p in list(pool))
            except BaseException as e:  # noqa
                listed = "!" + err_name(e)
            disk = sorted(idx(os.path.join(d, f)) for f in os.listdir(d))
            return f"L:{listed} D:{','.join(map(str, disk))}"

        def ask(pid, *cmd):
            proc, conn = children[pid]
            conn.send(cmd)
            if not conn.poll(20):
                raise core.Timeout()
            return conn.recv()

        # other pools alive in the same process (one from before, one created half-way, both with directories of their own):
        # pools are independent of each other
        by = {"on": bool(case.meta.get("bystanders")) and pre is None, "outer": None, "late": None, "outer_paths": [], "dirs": []}

        def bystander_problem(k):
            if not by["on"]:
                return None
            if by["outer"] is None:
                d1 = d + "_outer"; os.mkdir(d1); by["dirs"].append(d1)
                by["outer"] = TmpPool(d1); by["outer"].__enter__()
                by["outer_paths"] = [by["outer"].create(), by["outer"].create()]
                return None
            if list(by["outer"]) != by["outer_paths"] or not all(os.path.exists(p) for p in by["outer_paths"]):
                return f"another pool, alive since before, now lists {list(by['outer'])} (its files: {by['outer_paths']})"
            if k == 3 and by["late"] is None:
                d2 = d + "_late"; os.mkdir(d2); by["dirs"].append(d2)
                late = by["late"] = TmpPool(d2)
                if len(late) != 0:
                    return f"a pool created just now already lists {list(late)}"
                late.__enter__()
                lp = late.create()
                if list(late) != [lp]:
                    return f"a pool created just now lists {list(late)} after its first create() ({lp})"
            elif k == 5 and by["late"] is not None and by["late"] != "left":
                by["late"].__exit__(None, None, None)
                by["late"] = "left"
            return None

        late_enter = bool(case.meta.get("late_enter")) and pre is None
        entered = False
        prot = set()
        real_remove = os.remove

        def guarded_remove(path, *a, **k):
            if path in paths and paths.index(path) in prot and os.path.exists(path):
                raise PermissionError(13, "Permission denied", path)
            return real_remove(path, *a, **k)

        if any(o.startswith("protect") for o in case.ops):
            os.remove = guarded_remove
        try:
            for op_i, op in enumerate(case.ops):
                w = op.split()
                if by["on"]:
                    prob = bystander_problem(len(out))
                    if prob is not None:
                        out.append("pools-not-independent " + prob)
                        break
                try:
                    if w[0] == "new":
                        if pre is None and case.meta.get("rel_dir") and not mp_mode:
                            # the directory is given relative to the working directory, which is the right one whenever a file is
                            # created; removals, flushes and the exit happen with the program working somewhere else
                            back_ = os.getcwd()
                            os.chdir(os.path.dirname(d))
                            try:
                                pool = TmpPool(os.path.basename(d))
                            finally:
                                os.chdir(back_)
                            if not late_enter:
                                pool.__enter__(); entered = True
                            out.append("ok " + dump()); continue
                        pool = pre if pre is not None else TmpPool(d, multi_proc=mp_mode)
                        pre = None
                        if not late_enter:
                            pool.__enter__(); entered = True
                        r = "ok"
                    elif w[0] == "enter":
                        if w[1] != ("1" if mp_mode else "0") or (mp_mode and children):
                            out.append("bad-op"); continue
                        pool.__enter__(); entered = True
                        r = "ok"
                    elif w[0] == "create":
                        pid = int(w[1])
                        if pid == 0 and case.meta.get("rel_dir") and not mp_mode:
                            back_ = os.getcwd()
                            os.chdir(os.path.dirname(d))
                            try:
                                p = pool.create()
                            finally:
                                os.chdir(back_)
                            if not os.path.isabs(p):
                                p = os.path.join(os.path.dirname(d), p)  # for the harness's own bookkeeping
                        elif pid == 0:
                            p = pool.create()
                        else:
                            rep = ask(pid, "create")
                            if rep[0] != "ret":
                                raise RuntimeError(rep)
                            p = rep[1]
                        existed = os.path.exists(p)
                        fresh = p not in paths
                        paths.append(p)
                        r = f"ret {len(paths) - 1}" + ("" if existed and fresh else " not-a-fresh-existing-file")
                    elif w[0] == "remove":
                        pid, k = int(w[1]), int(w[2])
                        p = paths[k] if k < len(paths) else os.path.join(d, "never-created")
                        if pid == 0:
                            pool.remove(p); r = "ok"
                        else:
                            rep = ask(pid, "remove", p)
                            r = "ok" if rep[0] == "ok" else f"err {rep[1]}"
                    elif w[0] == "flush":
                        pid = int(w[1])
                        if pid == 0:
                            pool.flush(); r = "ok"
                        else:
                            rep = ask(pid, "flush")
                            r = "ok" if rep[0] == "ok" else f"err {rep[1]}"
                    elif w[0] == "fork":
                        if not mp_mode or int(w[1]) != 0:
                            out.append("bad-op"); continue
                        a, b = ctx.Pipe()
                        proc = ctx.Process(target=child_main, args=(pool, b), daemon=True)
                        proc.start()
                        children[len(children) + 1] = (proc, a)
                        r = f"ret {len(children)}"
                    elif w[0] == "unlink":
                        k = int(w[1])
                        if k < len(paths) and os.path.exists(paths[k]):
                            real_remove(paths[k])
                        r = "ok"
                    elif w[0] == "protect":
                        prot.add(int(w[1]))  # the k-th file the pool creates (it may not exist yet)
                        r = "ok"
                    elif w[0] == "unprotect_all":
                        prot.clear(); r = "ok"
                    elif w[0] in ("exit", "raise"):
                        if mp_mode and not entered:
                            out.append("bad-op"); continue  # (a shrunk history) a multi_proc pool is left only after it was entered
                        listing_pool = pool
                        if w[0] == "exit":
                            pool.__exit__(None, None, None)
                        else:
                            try:
                                raise KeyError("body failed")
                            except KeyError as e:
                                pool.__exit__(KeyError, e, e.__traceback__)
                        disk = sorted(idx(os.path.join(d, f)) for f in os.listdir(d))
                        out.append(f"ok L: D:{','.join(map(str, disk))}")
                        pool = None
                        continue
                    else:
                        out.append("bad-op"); continue
                except core.Timeout:
                    raise
                except BaseException as e:  # noqa
                    if isinstance(e, (KeyboardInterrupt, SystemExit)):
                        raise
                    r = f"err {err_name(e)}"
                out.append(r + " " + dump())
        finally:
            os.remove = real_remove
            for pid, (proc, conn) in children.items():
                try:
                    conn.send(("quit",))
                except Exception:
                    pass
            for pid, (proc, conn) in children.items():
                proc.join(2)
                if proc.is_alive():
                    proc.kill(); proc.join(2)
            if pool is not None:
                try:
                    pool.__exit__(None, None, None)
                except Exception:
                    pass
            for bp in (by["outer"], by["late"]):
                if bp is not None and bp != "left":
                    try:
                        bp.__exit__(None, None, None)
                    except Exception:
                        pass
            for bd in by["dirs"]:
                core.cleanup_dir(bd)
            if cleanup:
                core.cleanup_dir(d)
        while len(out) < len(case.ops):
            out.append("aborted")
        return out

    def run_filepool(self, case):
        from windpyutils.files import FilePool
        d = os.path.join(self.scratch, f"fp{random.getrandbits(40)}")
        os.mkdir(d)
        mode = case.meta.get("modes", "r")
        out = []
        fp = None
        handles = []
        paths = []
        try:
            for op in case.ops:
                w = op.split()
                try:
                    if w[0] == "fp_new":
                        # ordinary names, and names with spaces, unicode and the characters shells expand
                        names = ["f{}", "part[{}].txt", "report {} [final].txt", "a*{}", "q?{}.txt", "ü {}.dat", "{{{}}}"]
                        paths = [os.path.join(d, names[(int(k) + len(w)) % len(names)].format(k)) for k in w[1:]]
                        for p in paths:
                            open(p, "w").write("x\n")
                        fp = FilePool(paths if case.meta.get("plain_list") else (iter(paths) if len(paths) % 2 else paths), mode)
                        out.append("ok")
                    elif w[0] == "fp_missing":
                        for k in w[1:]:
                            os.remove(paths[int(k)])
                        out.append("ok")
                    elif w[0] == "fp_create":
                        open(paths[int(w[1])], "w").write("x\n"); out.append("ok")
                    elif w[0] == "fp_enter":
                        try:
                            r = fp.__enter__()
                        except FileNotFoundError:
                            out.append("err FileNotFoundError handles:" + ("none" if fp.file_handles is None else "some"))
                            continue
                        handles = [fp[p] for p in paths]
                        ok = r is fp and len(fp) == len(paths) and list(fp) == paths
                        out.append("open:" + ",".join("1" if not h.closed else "0" for h in handles) + ("" if ok else " mapping-mismatch"))
                    elif w[0] in ("fp_exit", "fp_raise"):
                        for k in case.meta.get("body_close", []):
                            if k % 2:
                                with fp[paths[k]] as fh:  # the body uses one pooled handle as a context manager of its own
                                    fh.read() if mode == "r" else fh.write("body\n")
                            else:
                                fp[paths[k]].close()
                        if w[0] == "fp_exit":
                            fp.__exit__(None, None, None)
                        else:
                            try:
                                raise KeyError("body failed")
                            except KeyError as e:
                                fp.__exit__(KeyError, e, e.__traceback__)
                        out.append("closed:" + ",".join("1" if h.closed else "0" for h in handles) +
                                   (" handles:none" if fp.file_handles is None else " handles:some"))
                    else:
                        out.append("bad-op")
                except BaseException as e:  # noqa
                    if isinstance(e, (KeyboardInterrupt, SystemExit)):
                        raise
                    out.append(f"err {err_name(e)}")
        finally:
            for h in handles:
                try:
                    h.close()
                except Exception:
                    pass
            core.cleanup_dir(d)
        return out

    # ---- oracle-only scenario: a child's create() lands inside the parent's flush / exit -------------------------------
    def extra_scenarios(self, rng, tier):
        n = 4 if tier == "quick" else 24
        # a removal the operating system refuses (read-only directory) or that is interrupted: the file stays the pool's
        yield {"kind": "remove-refused"}
        for _ in range(n):
            yield {"kind": "create-during-flush", "parent_files": rng.randint(1, 4), "at_removal": None,
                   "via_exit": rng.random() < 0.5, "seed": rng.randrange(1 << 30)}
        for _ in range(6 if tier == "quick" else 40):
            # a FilePool object that is entered again after an earlier enter on it failed (its first file did not exist yet),
            # and pools entered twice in a row
            yield {"kind": "filepool-reenter", "files": rng.randint(1, 4), "fail_first": rng.random() < 0.7,
                   "by_exception": rng.random() < 0.5, "rounds": rng.randint(1, 3)}

    def _remove_refused(self):
        import signal
        import subprocess
        import sys as _sys
        os.chmod(self.scratch, 0o711)  # the scenario gives up root: the directory has to stay reachable
        p = subprocess.Popen([_sys.executable, "-m", "harness.removefail", self.scratch], cwd=core.VERIF, stdout=subprocess.PIPE,
                             stderr=subprocess.STDOUT, text=True, start_new_session=True)
        try:
            out, _ = p.communicate(timeout=60)
        except subprocess.TimeoutExpired:
            out = "the scenario did not finish within 60 s"
        finally:
            try:
                os.killpg(p.pid, signal.SIGKILL)
            except Exception:
                pass
        if p.returncode == 0 and "DONE" in out:
            return None
        return out.strip()[-600:]

    def run_extra(self, desc):
        if self.scratch is None:
            self.scratch = core.scratch_dir()
        if desc["kind"] == "remove-refused":
            return self._remove_refused()
        if desc["kind"] == "filepool-reenter":
            return core.call_with_alarm(lambda: self._filepool_reenter(desc), 20.0)
        return core.call_with_alarm(lambda: self._create_during_flush(desc), 60.0)

    def _filepool_reenter(self, desc):
        from windpyutils.files import FilePool
        d = os.path.join(self.scratch, f"fpr{random.getrandbits(40)}")
        os.mkdir(d)
        held = []
        try:
            paths = [os.path.join(d, f"f{k}") for k in range(desc["files"])]
            for p in paths[1:]:
                open(p, "w").write("x\n")
            if not desc["fail_first"]:
                open(paths[0], "w").write("x\n")
            fp = FilePool(paths, "r")
            if desc["fail_first"]:
                try:
                    fp.__enter__()
                    return "entering a FilePool whose first file does not exist did not raise"
                except FileNotFoundError:
                    pass
                open(paths[0], "w").write("x\n")  # the file appears; the same pool object is used again
            for rnd in range(desc["rounds"]):
                fp.__enter__()
                hs = [fp[p] for p in paths]
                held += hs
                if any(h.closed for h in hs) or len(fp) != len(paths):
                    return f"round {rnd}: not every file is open inside the context"
                if desc["by_exception"]:
                    try:
                        raise KeyError("body failed")
                    except KeyError as e:
                        fp.__exit__(KeyError, e, e.__traceback__)
                else:
                    fp.__exit__(None, None, None)
                if not all(h.closed for h in hs):
                    return (f"round {rnd} ({'after a failed first enter' if desc['fail_first'] else 'plain'}): "
                            f"{sum(not h.closed for h in hs)} of {len(hs)} handles are still open after the context was left")
            return None
        finally:
            for h in held:
                try:
                    h.close()
                except Exception:  # noqa
                    pass
            core.cleanup_dir(d)

    def _create_during_flush(self, desc):
        """the parent lists k files and flushes (explicitly or by leaving the context); while its j-th `os.remove` is in
        progress a forked child creates one more file.  Afterwards (the child is idle again) nothing of the pool may be
        left once the context has been left."""
        from windpyutils import files as files_mod
        from windpyutils.files import TmpPool
        rnd = random.Random(desc["seed"])
        d = os.path.join(self.scratch, f"pool{random.getrandbits(40)}")
        os.mkdir(d)
        ctx = multiprocessing.get_context("fork")
        k = desc["parent_files"]
        j = rnd.randint(1, k) if desc["at_removal"] is None else desc["at_removal"]
        a, b = ctx.Pipe()
        pool = TmpPool(d, multi_proc=True)
        pool.__enter__()
        proc = None
        real_remove = os.remove
        state = {"n": 0, "child_path": None}

        class OSProxy:
            def __getattr__(self, name):
                return getattr(os, name)

            @staticmethod
            def remove(p):
                state["n"] += 1
                if state["n"] == j and state["child_path"] is None:
                    a.send(("create",))
                    if a.poll(20):
                        rep = a.recv()
                        state["child_path"] = rep[1] if rep[0] == "ret" else "?"
                return real_remove(p)

        try:
            for _ in range(k):
                pool.create()
            proc = ctx.Process(target=child_main, args=(pool, b), daemon=True)
            proc.start()
            files_mod.os = OSProxy()
            try:
                if desc["via_exit"]:
                    pool.__exit__(None, None, None)
                else:
                    pool.flush()
                    pool.__exit__(None, None, None)
            finally:
                files_mod.os = os
            left = sorted(os.listdir(d))
            if left:
                return (f"{k} files listed, a child created one more during the parent's removal #{j} inside "
                        f"{'__exit__' if desc['via_exit'] else 'flush()'}: after leaving the context {len(left)} file(s) still exist")
            return None
        finally:
            files_mod.os = os
            try:
                a.send(("quit",))
            except Exception:
                pass
            if proc is not None:
                proc.join(2)
                if proc.is_alive():
                    proc.kill(); proc.join(2)
            core.cleanup_dir(d)

    # ---- oracle -----------------------------------------------------------------------------------------------------------
    def oracle(self, case, impl_out):
        if case.ops and case.ops[0].startswith("fp_"):
            n = len(case.ops[0].split()) - 1
            missing = set()
            for i, (op, l) in enumerate(zip(case.ops, impl_out)):
                w = op.split()
                if w[0] == "fp_missing":
                    missing = set(w[1:]); e = "ok"
                elif w[0] == "fp_create":
                    missing.discard(w[1]); e = "ok"
                elif w[0] == "fp_new":
                    e = "ok"
                elif w[0] == "fp_enter":
                    e = "err FileNotFoundError handles:none" if missing else "open:" + ",".join(["1"] * n)
                else:
                    e = "closed:" + ",".join(["1"] * n) + " handles:none"
                if e != l:
                    return f"op {i} `{op}`: {l!r}, expected {e!r}"
            return None
        for i, line in enumerate(impl_out):
            if line.startswith("pools-not-independent "):
                return f"before op {i} `{case.ops[i]}`: {line[22:][:500]}"
        listed, disk, created = [], set(), 0
        prot = set()
        s = lambda xs: ",".join(map(str, xs))
        for i, (op, line) in enumerate(zip(case.ops, impl_out)):
            if line == "timeout":
                return f"op {i} `{op}`: no answer from the pool / child process"
            w = op.split()
            exp = "ok"
            if w[0] == "new":
                listed, disk, created = [], set(), 0
                prot = set()
            elif w[0] == "create":
                listed.append(created); disk.add(created); exp = f"ret {created}"; created += 1
            elif w[0] == "protect":
                prot.add(int(w[1]))
            elif w[0] == "unprotect_all":
                prot.clear()
            elif w[0] == "remove":
                k = int(w[2])
                if k in prot and k in disk:
                    exp = "err PermissionError"  # refused: the file is still there and still the pool's
                else:
                    disk.discard(k)
                    if k in listed:
                        listed.remove(k)
                    else:
                        exp = "err ValueError"
            elif w[0] in ("flush", "exit", "raise") and any(k in prot and k in disk for k in listed):
                for k in listed:
                    if k in prot and k in disk:
                        break
                    disk.discard(k)
                exp = "err PermissionError"
            elif w[0] == "flush":
                disk -= set(listed); listed = []
            elif w[0] == "fork":
                exp = None
            elif w[0] == "unlink":
                disk.discard(int(w[1]))
            elif w[0] in ("exit", "raise"):
                disk -= set(listed); listed = []
            want = None if exp is None else f"{exp} L:{s(listed)} D:{s(sorted(disk))}"
            if exp is None:
                if not line.endswith(f" L:{s(listed)} D:{s(sorted(disk))}"):
                    return f"op {i} `{op}`: {line!r}, expected listing L:{s(listed)} D:{s(sorted(disk))}"
            elif line != want:
                return f"op {i} `{op}`: {line!r}, created-and-not-removed reference gives {want!r}"
        return None

    def key(self, case, impl_out):
        if any(o.startswith("create") for o in case.ops) and any(o.split()[0] in ("flush", "exit", "raise") for o in case.ops):
            return hash((case.meta.get("mp"),) + tuple(case.ops))
        return hash(tuple(case.ops)) if case.ops[0].startswith("fp_new") and len(case.ops[0].split()) > 2 else None

    def histogram(self, report, case, impl_out):
        report.count("mode:" + ("filepool" if case.ops[0].startswith("fp_") else "multi_proc" if case.meta.get("mp") else "single"))
        for o in case.ops:
            report.count("op:" + o.split()[0])

    def shrink(self, case, pred):
        return case
