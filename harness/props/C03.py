from .poolbase import PoolProp, chooser_roles, chooser_starve
from ..poolsim import Cfg
import random


class Prop(PoolProp):
    pid = "C03"
    focus = "calls"
    real_scenarios_quick = ("factory_quota_two_calls", "low_fd_limit", "thread_handover")
    real_scenarios = ("factory_quota_two_calls", "factory_quota_bounded", "d19_late_retirement", "low_fd_limit", "thread_handover")
    p_factory = 0.6
    n_calls = [2, 2, 3, 4]
    rule = ("call histories of 2-4 calls on one pool (different lengths incl. empty, chunk sizes, ordered/unordered), factory "
            "pools with quotas 1-3 so that retirements fall anywhere incl. exactly at the end of a call; schedules as C01 plus "
            "starvation of the replace thread; oracle: every call yields exactly its own results and terminates, nothing leaks "
            "between calls, the pool context can be left; non-trivial = at least 20 steps with a non-empty call")

    def gen_chooser(self, rng):
        if rng.random() < 0.25:
            seed = rng.randrange(1 << 30)
            return ("starve", seed, "R"), chooser_starve(random.Random(seed), "R")
        return PoolProp.gen_chooser(self, rng)

    def cover_cfgs(self, tier):
        # two calls on one pool; a factory pool whose only worker retires after every chunk
        cfgs = [Cfg(n_workers=1, calls=[(1, 1, True), (1, 1, False)]), Cfg(n_workers=1, factory=True, quota=1, calls=[(2, 1, True)]),
                # a finite join_timeout: the retired worker may still be in end() when its successor starts and when __exit__ returns
                Cfg(n_workers=1, factory=True, quota=1, calls=[(1, 1, True)], join_timeout=True)]
        if tier == "thorough":
            cfgs.append(Cfg(n_workers=1, factory=True, quota=1, calls=[(2, 1, True)], join_timeout=True))
            cfgs += [Cfg(n_workers=1, factory=True, quota=1, calls=[(1, 1, True), (1, 1, True)]),
                     Cfg(n_workers=2, factory=True, quota=1, calls=[(2, 1, False)])]
        return cfgs

    def corpus(self):
        return [(Cfg(n_workers=1, factory=True, quota=1, calls=[(1, 1, True), (2, 1, True)]), ("starve", 3, "R"),
                 chooser_starve(random.Random(3), "R"), "D17: stop token posted while the replace thread is busy"),
                (Cfg(n_workers=2, calls=[(3, 1, True), (0, 1, True), (2, 1, False)]), ("roles", "CWRF", "never", True),
                 chooser_roles("CWRF", "never", True), "D15: flags of the previous call"),
                (Cfg(n_workers=2, factory=True, quota=1, work_cap=1, calls=[(2, 1, True)]), ("roles", "CRFW", "after_put", True),
                 chooser_roles("CRFW", "after_put", True), "D19 (repaired): unreplaced retirements at the end of the last call, work-queue bound below the worker count")]
