from .cachebase import LruProp as Prop
