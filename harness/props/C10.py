# -*- coding: UTF-8 -*-
"""C10 — SpanSet: correspondence with Model/SpanSet.lean; oracle = brute-force evaluation of the defining formulas"""
from ..core import Case, err_name
from ..seqcheck import SeqProp

RELS = ["exact", "partof", "includes", "overlaps"]


def pyval(n, as_float=False):
    """model integer n stands for the number n/2"""
    if n % 2 == 0 and not as_float:
        return n // 2
    return n / 2


class UH:
    """a span bound that orders and compares like the number it wraps but is not hashable (e.g. a mutable position object):
    the relations need comparisons only"""
    __slots__ = ("v",)
    __hash__ = None

    def __init__(self, v):
        self.v = v

    def _o(self, other):
        return other.v if isinstance(other, UH) else other

    def __eq__(self, other):
        return self.v == self._o(other)

    def __ne__(self, other):
        return self.v != self._o(other)

    def __lt__(self, other):
        return self.v < self._o(other)

    def __le__(self, other):
        return self.v <= self._o(other)

    def __gt__(self, other):
        return self.v > self._o(other)

    def __ge__(self, other):
        return self.v >= self._o(other)

    def __repr__(self):
        return f"UH({self.v!r})"


def holds(rel, x, y):
    xs, xe = x
    ys, ye = y
    if rel == "exact":
        return xs == ys and xe == ye
    if rel == "partof":
        return ys <= xs and xe <= ye
    if rel == "includes":
        return xs <= ys and ye <= xe
    return xe >= ys and ye >= xs


import collections
_PairNT = collections.namedtuple("_PairNT", "start end")


class Prop(SeqProp):
    pid = "C10"
    model = "spanset"
    anchors = ["windpyutils/structures/span_set.py"]
    quick_cases = 3200
    thorough_cases = 30000
    rule = ("2-3 span collections per case (overlapping, nested, repeated, inverted, empty; ints and halves, int/float mixed) "
            "with relations drawn from all 4x4 combinations, both constructor forms and force_no_dup_check; then all four "
            "operators, nine comparisons and membership probes; results (span lists in order, booleans) compared with the Lean "
            "model and with a brute-force evaluation of the defining formulas; non-trivial = two non-empty operands")
    trusted_base = ["Lean 4.33.0 kernel", "axioms: propext, Classical.choice, Quot.sound (audited per theorem)",
                    "hand-written model Model/SpanSet.lean tied to span_set.py by this correspondence run",
                    "exact int/float comparison embeds in a linear order (values are multiples of 1/2 sent as integers)"]
    assumptions = ["span bounds are numbers (no NaN)"]

    def corpus(self):
        return [self.build_case([("mk", 0, "overlaps", [(2, 6), (4, 10), (12, 14), (6, 2)], 0),
                                 ("mk", 1, "partof", [(0, 20), (4, 6), (4, 6)], 1),
                                 ("raw", 2, "includes", [(4, 6), (4, 6), (0, 2)], 0)], binops=True, label="mixed relations"),
                self.build_case([("mk", 0, "exact", [(2, 4), (6, 8)], 0),
                                 ("raw", 1, "partof", [(2, 4), (2, 4), (6, 8), (2, 4)], 0),
                                 ("raw", 2, "exact", [(6, 8), (6, 8)], 2)], binops=True,
                                label="sets with repeated spans (force_no_dup_check) against smaller sets that contain them"),
                self.build_case([("mk", 0, "exact", [(2, 6), (8, 12)], 0), ("mk", 1, "exact", [(4, 6), (2, 6)], 2)],
                                binops=True, probes=[(0, 4, 6), (0, 2, 6)], rerel=[("copy", 0, "partof"), ("inplace", 1, "includes")],
                                label="relation changed after first use, on a copy and in place")]

    def build_case(self, sets, binops=True, probes=(), label="", rerel=(), cmp_ops=True):
        ops, impl = [], []
        names = []
        for kind, name, rel, spans, form in sets:
            ops.append(f"{kind} {name} {rel}" + "".join(f" {s} {e}" for s, e in spans))
            impl.append([kind, name, rel, [list(x) for x in spans], form])
            names.append(name)
        if binops:
            nxt = max(names) + 1
            for a in names:
                for b in names:
                    for o in ("and", "or", "sub", "xor"):
                        ops.append(f"{o} {a} {b} {nxt}"); impl.append([o, a, b, nxt]); nxt += 1
                    for o in ("le", "lt", "eq", "ne", "ge", "gt", "disjoint", "subset", "superset") if cmp_ops else ():
                        ops.append(f"{o} {a} {b}"); impl.append([o, a, b])
        for a, s, e in probes:
            ops.append(f"has {a} {s} {e}"); impl.append(["has", a, s, e])
        # the relation is an attribute of the object: it may be changed after the set has been used, in place or on a
        # copy(); everything that follows goes by the relation the operand has *now*
        nxt = 1000
        for mode, a, rel in rerel:
            x = a
            if mode == "copy":
                x = nxt; nxt += 1
                ops.append(f"copy {a} {x}"); impl.append(["copy", a, x])
            ops.append(f"setrel {x} {rel}"); impl.append(["setrel", x, rel])
            spans_x = [tuple(sp) for st in impl if st[0] in ("mk", "raw") and st[1] == a for sp in st[3]]
            for (s0, e0) in spans_x[:3]:
                for s, e in ((s0, e0), (s0 + 1, e0), (s0 - 1, e0 + 1), (s0, e0 - 1), (e0, e0 + 2)):
                    ops.append(f"has {x} {s} {e}"); impl.append(["has", x, s, e])
            for b in names:
                for l, r in ((x, b), (b, x)):
                    for o in ("and", "or", "sub", "xor"):
                        ops.append(f"{o} {l} {r} {nxt}"); impl.append([o, l, r, nxt]); nxt += 1
                    for o in ("le", "lt", "eq", "ne", "ge", "gt", "disjoint", "subset", "superset") if cmp_ops else ():
                        ops.append(f"{o} {l} {r}"); impl.append([o, l, r])
        return Case(ops, {"impl": impl}, label)

    def gen(self, rng, n, tier):
        for _ in range(n):
            nsets = rng.choice([2, 2, 3])
            universe = rng.choice([6, 10, 16])
            sets = []
            for name in range(nsets):
                m = rng.choice([0, 1, 2, 3, 5, 8])
                spans = []
                for _ in range(m):
                    if spans and rng.random() < 0.2:
                        spans.append(rng.choice(spans))  # repeat
                        continue
                    a, b = rng.randint(0, universe), rng.randint(0, universe)
                    if a > b and rng.random() < 0.85:
                        a, b = b, a
                    spans.append((a, b))
                if sets and rng.random() < 0.35:
                    # derived from an earlier set: a sample of its spans, with repeats, sometimes one foreign span — so that
                    # subset / superset / equality hold often, also between sets of different sizes
                    base = sets[rng.randrange(len(sets))][3]
                    if base:
                        spans = [rng.choice(base) for _ in range(rng.choice([1, 2, 3, len(base), len(base) + 2]))]
                        if rng.random() < 0.25:
                            spans.insert(rng.randrange(len(spans) + 1), (rng.randint(0, universe), rng.randint(0, universe)))
                kind = "raw" if rng.random() < 0.3 else "mk"
                sets.append((kind, name, rng.choice(RELS), spans, rng.randint(0, 2)))
            probes = [(rng.randrange(nsets), rng.randint(0, universe), rng.randint(0, universe)) for _ in range(4)]
            for name in range(nsets):
                for (s0, e0) in sets[name][3][:2]:  # probes related to, but different from, a stored span
                    probes.append((name, s0 + rng.choice([-1, 0, 1]), e0 + rng.choice([-1, 0, 1])))
            rerel = []
            if rng.random() < 0.45:
                a = rng.randrange(nsets)
                rerel.append((rng.choice(["copy", "inplace"]), a, rng.choice([r for r in RELS if r != sets[a][2]])))
            # operands that are instances of user subclasses of SpanSet (and of the class itself): operators only — comparing
            # an instance of the class with an instance of a subclass recurses without end in the unchanged code (Python tries the
            # reflected method of the subclass first; DESIGN.md §2, outside the property as stated)
            sub = rng.random() < 0.2
            c = self.build_case(sets, True, probes, rerel=rerel, cmp_ops=not sub)
            if rng.random() < 0.15:
                c.meta["unhashable"] = True  # span bounds that compare like numbers but cannot be hashed
            if sub:
                c.meta["subclasses"] = True
                c.meta["cls_shift"] = rng.randrange(3)
            yield c

    def run_impl(self, case):
        from windpyutils.structures import span_set as ss
        relcls = {"exact": ss.SpanSetExactEqRelation, "partof": ss.SpanSetPartOfEqRelation,
                  "includes": ss.SpanSetIncludesEqRelation, "overlaps": ss.SpanSetOverlapsEqRelation}
        env = {}
        out = []

        class SentenceSpans(ss.SpanSet):
            """a user subclass that only adds a helper"""

            def widest(self):
                return max((e - s_ for s_, e in self), default=None)

        class TokenSpans(ss.SpanSet):
            pass

        # which class a constructed set has: the library's own, a subclass, a sibling subclass
        cls_of = lambda name: [ss.SpanSet, SentenceSpans, TokenSpans][(name + case.meta.get("cls_shift", 0)) % 3] \
            if case.meta.get("subclasses") else ss.SpanSet

        uh = bool(case.meta.get("unhashable"))
        raw = lambda x: x.v if isinstance(x, UH) else x
        num = (lambda n, f=False: UH(pyval(n, f))) if uh else pyval

        def show(S):
            return ",".join(f"{round(raw(s) * 2)}:{round(raw(e) * 2)}" for s, e in S)

        for st in case.meta["impl"]:
            try:
                o = st[0]
                if o in ("mk", "raw"):
                    _, name, rel, spans, form = st
                    vals = [(num(s, (i + form) % 3 == 0), num(e, (i + form) % 2 == 0)) for i, (s, e) in enumerate(spans)]
                    if o == "raw":
                        S = cls_of(name)([v[0] for v in vals], [v[1] for v in vals], force_no_dup_check=True,
                                         eq_relation=relcls[rel]())
                    elif form == 0:
                        starts, ends = [v[0] for v in vals], [v[1] for v in vals]
                        S = cls_of(name)(starts, ends, eq_relation=relcls[rel]())
                        # the caller goes on using its lists: the set built with the duplicate check keeps its own spans
                        starts.append(num(2 * 10 ** 6)); ends.append(num(2 * 10 ** 6 + 2))
                        if starts:
                            starts[0] = num(-2 * 10 ** 6); ends[0] = num(2 * 10 ** 6)
                    elif form == 1:
                        S = cls_of(name)(iter(vals), eq_relation=relcls[rel]())
                    elif len(vals) % 2:
                        # the iterable-of-spans form checks for duplicates whatever the flag says (documented: the flag is for the
                        # starts / ends form)
                        S = cls_of(name)(vals, eq_relation=relcls[rel](), force_no_dup_check=True)
                    else:
                        S = cls_of(name)(vals, eq_relation=relcls[rel]())
                    env[name] = S
                    out.append("ok " + show(S))
                elif o in ("and", "or", "sub", "xor"):
                    A, B = env[st[1]], env[st[2]]
                    R = {"and": lambda: A & B, "or": lambda: A | B, "sub": lambda: A - B, "xor": lambda: A ^ B}[o]()
                    env[st[3]] = R
                    out.append("ok " + show(R))
                elif o in ("le", "lt", "eq", "ne", "ge", "gt", "disjoint", "subset", "superset"):
                    A, B = env[st[1]], env[st[2]]
                    r = {"le": lambda: A <= B, "lt": lambda: A < B, "eq": lambda: A == B, "ne": lambda: A != B,
                         "ge": lambda: A >= B, "gt": lambda: A > B, "disjoint": lambda: A.isdisjoint(B),
                         "subset": lambda: A.issubset(B), "superset": lambda: A.issuperset(B)}[o]()
                    out.append(f"ret {1 if r else 0}" if isinstance(r, bool) else f"ret ?{r!r}")
                elif o == "copy":
                    env[st[2]] = env[st[1]].copy()
                    out.append("ok " + show(env[st[2]]))
                elif o == "setrel":
                    env[st[1]].eq_relation = relcls[st[2]]()
                    out.append("ok " + show(env[st[1]]))
                elif o == "has":
                    r = (num(st[2]), num(st[3], True)) in env[st[1]]
                    # a span is a pair: one that arrives as a list (json) or as a named tuple is the same span
                    alt = ([num(st[2]), num(st[3], True)], _PairNT(num(st[2]), num(st[3], True)))[len(out) % 2]
                    try:
                        r2 = alt in env[st[1]]
                        d2 = env[st[1]].isdisjoint([alt])
                    except BaseException as e2:  # noqa
                        if isinstance(e2, (KeyboardInterrupt, SystemExit)):
                            raise
                        r2 = d2 = f"raised {err_name(e2)}"
                    if r2 is not r or d2 is not (not r):
                        out.append(f"ret {1 if r else 0} span-form-mismatch: the span given as {type(alt).__name__}: `in` gives "
                                   f"{r2!r}, isdisjoint([span]) gives {d2!r}")
                    else:
                        out.append(f"ret {1 if r else 0}")
                else:
                    out.append("bad-op")
            except BaseException as e:  # noqa
                if isinstance(e, (KeyboardInterrupt, SystemExit)):
                    raise
                out.append(f"err {err_name(e)}")
        return out

    def oracle(self, case, impl_out):
        env = {}  # name -> (rel, spans)

        def mem(S, x):
            return any(holds(S[0], x, y) for y in S[1])

        def parse(line):
            body = line[3:]
            return [tuple(int(v) for v in p.split(":")) for p in body.split(",")] if body else []

        for i, (st, line) in enumerate(zip(case.meta["impl"], impl_out)):
            o = st[0]
            if o in ("mk", "raw"):
                _, name, rel, spans, form = st
                spans = [tuple(s) for s in spans]
                if o == "raw":
                    kept = spans
                else:
                    kept = []
                    for x in spans:
                        if not any(holds(rel, x, y) for y in kept):
                            kept.append(x)
                env[name] = (rel, kept)
                if not line.startswith("ok") or parse(line) != kept:
                    return f"op {i} {st}: constructed {line!r}, definition gives {kept}"
            elif o in ("and", "or", "sub", "xor"):
                A, B = env[st[1]], env[st[2]]
                phi = {"and": lambda a, b: a and b, "or": lambda a, b: a or b, "sub": lambda a, b: a and not b,
                       "xor": lambda a, b: a != b}[o]
                exp = []
                for x in A[1] + B[1]:
                    if phi(mem(A, x), mem(B, x)) and x not in exp:
                        exp.append(x)
                env[st[3]] = ("exact", exp)
                if not line.startswith("ok") or parse(line) != exp:
                    return f"op {i} {st}: result {line!r}, membership formula gives {exp} for A={A} B={B}"
            elif o == "copy":
                env[st[2]] = env[st[1]]
                if not line.startswith("ok") or parse(line) != env[st[1]][1]:
                    return f"op {i} {st}: copy() shows {line!r}, the set is {env[st[1]]}"
            elif o == "setrel":
                env[st[1]] = (st[2], env[st[1]][1])
                if not line.startswith("ok") or parse(line) != env[st[1]][1]:
                    return f"op {i} {st}: after changing the relation the set shows {line!r}, its spans are {env[st[1]][1]}"
            elif o == "has":
                exp = mem(env[st[1]], (st[2], st[3]))
                if line != f"ret {1 if exp else 0}":
                    return f"op {i} {st}: {line!r}, definition gives {exp}"
            else:
                A, B = env[st[1]], env[st[2]]
                le = lambda X, Y: all(mem(Y, x) for x in X[1])
                eq = lambda X, Y: le(X, Y) and le(Y, X)
                exp = {"le": lambda: le(A, B), "lt": lambda: le(A, B) and not eq(A, B), "eq": lambda: eq(A, B),
                       "ne": lambda: not eq(A, B), "ge": lambda: le(B, A), "gt": lambda: le(B, A) and not eq(B, A),
                       "disjoint": lambda: all(not mem(A, x) for x in B[1]), "subset": lambda: le(A, B),
                       "superset": lambda: le(B, A)}[o]()
                if line != f"ret {1 if exp else 0}":
                    return f"op {i} {st}: {line!r}, definition gives {exp} for A={A} B={B}"
        return None

    # membership tests and operators on the same (immutable) sets from several threads at once (harness/threads.py)
    def extra_scenarios(self, rng, tier):
        out = []
        for _ in range(5 if tier == "quick" else 30):
            spans = [(a, a + rng.randint(0, 6)) for a in (rng.randint(0, 20) for _ in range(rng.randint(2, 6)))]
            out.append({"kind": "threads", "rel": rng.choice(RELS), "spans": spans,
                        "probes": [(a, a + rng.randint(0, 5)) for a in (rng.randint(0, 22) for _ in range(8))]})
        return out

    def run_extra(self, desc):
        from fractions import Fraction
        from windpyutils.structures import span_set as ss
        from .. import threads
        relcls = {"exact": ss.SpanSetExactEqRelation, "partof": ss.SpanSetPartOfEqRelation,
                  "includes": ss.SpanSetIncludesEqRelation, "overlaps": ss.SpanSetOverlapsEqRelation}
        rel = desc["rel"]
        spans = [tuple(x) for x in desc["spans"]]
        S = ss.SpanSet([Fraction(a) for a, _ in spans], [Fraction(b) for _, b in spans], force_no_dup_check=True,
                       eq_relation=relcls[rel]())
        E = ss.SpanSet([Fraction(a) for a, _ in spans[:2]], [Fraction(b) for _, b in spans[:2]], force_no_dup_check=True)
        jobs = []
        for p in [tuple(x) for x in desc["probes"]] + spans[:3]:
            exp = any(holds(rel, p, y) for y in spans)
            jobs.append((f"{p} in S ({rel})", lambda p=p: (Fraction(p[0]), Fraction(p[1])) in S, ("ret", exp)))
        inter = [x for x in spans if any(holds("exact", x, y) for y in spans[:2])]
        uniq = []
        for x in inter:
            if x not in uniq:
                uniq.append(x)
        jobs.append(("S & E", lambda: [(int(a), int(b)) for a, b in (S & E)],
                     ("ret", [x for x in dict.fromkeys(spans + spans[:2]) if any(holds(rel, x, y) for y in spans)
                              and any(holds("exact", x, y) for y in spans[:2])])))
        return threads.hammer(jobs, 4, 2)

    def key(self, case, impl_out):
        sets = [st for st in case.meta["impl"] if st[0] in ("mk", "raw")]
        if sum(1 for s in sets if s[3]) >= 2:
            return hash(tuple(case.ops))
        return None

    def histogram(self, report, case, impl_out):
        sets = {}
        for st in case.meta["impl"]:
            if st[0] in ("mk", "raw"):
                sets[st[1]] = st[2]
            elif st[0] == "copy":
                sets[st[2]] = sets.get(st[1], "?")
                report.count("op:copy")
            elif st[0] == "setrel":
                sets[st[1]] = st[2]
                report.count("op:setrel")
            elif st[0] in ("and", "or", "sub", "xor"):
                sets[st[3]] = "exact"
                report.count(f"relpair:{sets[st[1]]}x{sets[st[2]]}")

    def shrink(self, case, pred):
        return case  # the cases are small and the ops reference earlier results; kept whole
