from .poolbase import PoolProp, chooser_roles, chooser_starve
from ..poolsim import Cfg
import random


class Prop(PoolProp):
    pid = "C04"
    # real processes: a call given up after two results while large results are still on their way, then the context is left
    real_scenarios = ("abandoned_big_results", "exit_with_running_worker", "from_thread")
    real_scenarios_quick = ("abandoned_big_results", "exit_with_running_worker")
    focus = "lifecycle"
    p_factory = 0.5
    rule = ("as C03, with until_all_ready in half of the runs and fault injection (begin() raises in some worker; the functor "
            "raises at a chosen chunk of a chosen worker); oracle: per-worker event log recorded by an instrumented worker is "
            "begin, item*, end with begin and end exactly once (also on both faults), chunks processed <= quota, until_all_ready "
            "returns only after every listed worker's begin, no worker runs after the pool context was left; non-trivial = at "
            "least 20 steps with a non-empty call")

    def gen_cfg(self, rng, tier):
        cfg = PoolProp.gen_cfg(self, rng, tier)
        cfg.wait_ready = rng.random() < 0.5
        r = rng.random()
        if r < 0.15:
            cfg.begin_fault = [rng.randrange(cfg.n_workers)]
            cfg.wait_ready = False  # a worker whose begin() raised never sets begin_finished: until_all_ready would wait forever
        elif r < 0.35:
            cfg.item_fault = [(rng.randrange(cfg.n_workers), rng.randint(0, 2))]
        if cfg.begin_fault or cfg.item_fault:
            cfg.fault_exc = rng.choice(["RuntimeError", "RuntimeError", "SystemExit", "KeyboardInterrupt"])
        elif rng.random() < (0.7 if tier == "search" and cfg.factory else 0.2):
            # until_all_ready() in the middle of every call, while the replace thread may be exchanging workers (modelled:
            # Cfg.readyMid; theorems ready_mid_after_begin / ready_mid_listed)
            cfg.ready_mid = True
        return cfg

    def cover_cfgs(self, tier):
        # lifecycle with faults: begin() of the worker raises / the functor raises at the first chunk; until_all_ready
        cfgs = [Cfg(n_workers=1, wait_ready=True, calls=[(1, 1, True)]),
                Cfg(n_workers=2, calls=[(1, 1, False)], item_fault=[(0, 0)]),
                # until_all_ready() in the middle of a call of a factory pool whose worker retires at once
                Cfg(n_workers=1, factory=True, quota=1, calls=[(2, 1, True)], ready_mid=True)]
        if tier == "thorough":
            cfgs += [Cfg(n_workers=2, factory=True, quota=1, wait_ready=True, calls=[(2, 1, True)]),
                     Cfg(n_workers=2, calls=[(2, 1, True)], begin_fault=[1])]
        return cfgs

    def corpus(self):
        return [(Cfg(n_workers=2, wait_ready=True, factory=True, quota=1, calls=[(3, 1, True)]), ("roles", "WCFR", "never", True),
                 chooser_roles("WCFR", "never", True), "quota and replacement"),
                (Cfg(n_workers=2, begin_fault=[1], calls=[(2, 1, True)]), ("roles", "WCFR", "never", True),
                 chooser_roles("WCFR", "never", True), "begin() raises"),
                (Cfg(n_workers=2, item_fault=[(0, 0)], calls=[(2, 1, True)]), ("roles", "WCFR", "never", True),
                 chooser_roles("WCFR", "never", True), "functor raises"),
                (Cfg(n_workers=2, factory=True, quota=1, work_cap=1, calls=[(2, 1, True)]), ("roles", "CRFW", "after_put", True),
                 chooser_roles("CRFW", "after_put", True), "D19 (repaired): unreplaced retirements at the end of the last call, work-queue bound below the worker count")]
