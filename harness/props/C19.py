# -*- coding: UTF-8 -*-
"""C19 — generic helpers: correspondence with Model/Generic.lean; oracle = independent reference implementations"""
import itertools

from ..core import Case, err_name
from ..seqcheck import SeqProp


def ref_roman(n):
    th = ["", "M", "MM", "MMM"]
    hu = ["", "C", "CC", "CCC", "CD", "D", "DC", "DCC", "DCCC", "CM"]
    te = ["", "X", "XX", "XXX", "XL", "L", "LX", "LXX", "LXXX", "XC"]
    on = ["", "I", "II", "III", "IV", "V", "VI", "VII", "VIII", "IX"]
    return th[n // 1000] + hu[n // 100 % 10] + te[n // 10 % 10] + on[n % 10]


class Range0:
    """a lazily sized sequence like range(n) for huge n whose len() would overflow ssize_t? (len of range works up to
    sys.maxsize); used only through len() and slicing"""


class _Duck:
    """a sequence by behaviour: len() and indexing with ints and slices, nothing else"""

    def __init__(self, items):
        self.items = items

    def __len__(self):
        return len(self.items)

    def __getitem__(self, i):
        return _Duck(self.items[i]) if isinstance(i, slice) else self.items[i]


class Prop(SeqProp):
    pid = "C19"
    model = "generic"
    anchors = ["windpyutils/generic.py"]
    quick_cases = 4000
    thorough_cases = 40000
    rule = ("int_2_roman/roman_2_int on all of 1..3999 (exhaustive, every run); arg_sort on random key lists with ties in both "
            "directions; sub_seq/search_sub_seq/compare_pos_in_iterables on sequences over a 2-3 letter alphabet (thorough: all "
            "pairs up to length 4/5, exhaustive); Batcher/BatcherIter on all (length<=12, batch<=7) pairs plus range objects of "
            "length 2**53±1, 2**62, 2**63-1; tuple inputs in lock-step, BatcherIter on tuples of different lengths (model: batcherIterPair); non-trivial = every case (each has a distinct input)")
    trusted_base = ["Lean 4.33.0 kernel (roman theorems by `decide +kernel` over the whole domain 1..3999)",
                    "axioms: propext, Classical.choice, Quot.sound (audited per theorem)",
                    "hand-written model Model/Generic.lean tied to generic.py by this correspondence run",
                    "sorted() modelled as List.mergeSort (stable); list slicing as drop/take"]
    assumptions = ["sequence elements are compared with == only; sort keys are totally ordered numbers"]

    def corpus(self):
        big = [2 ** 53 + 1, 2 ** 53 - 1, 2 ** 62, 2 ** 63 - 1]
        ops = []
        for n in big:
            for b in (1, 2, 3, 7, 2 ** 31):
                ops.append(f"batchlen {n} {b}")
                ln = -(-n // b)
                ops.append(f"batchrange {n} {b} {ln - 1}")
                ops.append(f"batchrange {n} {b} {ln}")
        return [Case(ops, {}, "D8: float ceiling on huge lengths"),
                Case([f"i2r {n}" for n in range(1, 4000)], {}, "int_2_roman on the whole domain"),
                Case([f"r2i {ref_roman(n)}" for n in range(1, 4000)], {}, "roman_2_int on the whole domain")]

    def gen(self, rng, n, tier):
        for _ in range(n):
            ops = []
            for _ in range(rng.randint(3, 10)):
                k = rng.choice(["argsort", "subseq", "search", "cmp", "batch", "batchiter", "batchiter2", "batchnew", "batchlen",
                                "subseqE", "searchE", "batchlazy"])
                alpha = rng.choice([2, 3])
                seq = lambda m: [rng.randrange(alpha) for _ in range(rng.randint(0, m))]
                s = lambda xs: " ".join(map(str, xs))
                if k == "argsort":
                    keys = [rng.randint(-3, 3) for _ in range(rng.randint(0, 10))]
                    ops.append(f"argsort {rng.randint(0, 1)} {s(keys)}".rstrip())
                elif k in ("subseqE", "searchE"):
                    # elements whose equality is not reflexive (Model/GenericEq.lean): the numbers below n stand for NaN objects
                    # (equal to nothing, found only as the same object), the others for ints
                    n = rng.choice([1, 2])
                    a, b = seq(3), seq(8)
                    if rng.random() < 0.5 and len(b) >= 2:
                        i = rng.randrange(len(b)); a = b[i:i + rng.randint(1, 3)]
                    ops.append(f"{k} {n} | {s(a)} | {s(b)}".replace("  ", " ").replace("| |", "|  |").replace("|  |", "| |"))
                elif k in ("subseq", "search", "cmp"):
                    a, b = seq(4), seq(8)
                    if k == "cmp" and rng.random() < 0.5:
                        b = list(a); rng.shuffle(b)
                        if rng.random() < 0.3 and b:
                            b[0] = (b[0] + 1) % alpha
                    if k != "cmp" and rng.random() < 0.4 and len(b) >= 2:
                        i = rng.randrange(len(b)); a = b[i:i + rng.randint(1, 3)]
                    ops.append(f"{k} {s(a)} | {s(b)}".replace("  ", " "))
                elif k == "batch":
                    data = list(range(10, 10 + rng.randint(0, 12)))
                    b = rng.randint(1, 7)
                    ops.append(f"batch {b} {rng.randint(0, len(data) // b + 2)} {s(data)}".rstrip())
                elif k == "batchiter":
                    data = list(range(10, 10 + rng.randint(0, 12)))
                    ops.append(f"batchiter {rng.randint(1, 7)} {s(data)}".rstrip())
                elif k == "batchiter2":
                    # a tuple of iterables of different lengths: iteration stops with the shortest, in lock-step
                    xs = list(range(10, 10 + rng.randint(0, 9)))
                    ys = list(range(50, 50 + rng.choice([len(xs), rng.randint(0, 9)])))
                    ops.append(f"batchiter2 {rng.randint(1, 5)} {s(xs)} | {s(ys)}".replace("  ", " "))
                elif k == "batchlazy":
                    # the generator as a consumer of its source (Model/BatcherLazy.lean): k calls of next(), a source that may
                    # raise once it is used up; how many items were pulled and what each call gave
                    data = list(range(10, 10 + rng.randint(0, 9)))
                    ops.append(f"batchlazy {rng.randint(1, 4)} {rng.randint(0, 1)} {rng.randint(0, 6)} {s(data)}".rstrip())
                elif k == "batchnew":
                    lens = [rng.randint(0, 3) for _ in range(rng.randint(1, 3))]
                    if rng.random() < 0.6:
                        lens = [lens[0]] * len(lens)
                    ops.append(f"batchnew {rng.randint(-1, 2)} {s(lens)}")
                else:
                    ops.append(f"batchlen {rng.randint(0, 40)} {rng.randint(1, 9)}")
            yield Case(ops, {})

    def exhaustive(self, tier):
        ops = []
        s = lambda xs: " ".join(map(str, xs))
        for la in range(0, 4):
            for a in itertools.product(range(2), repeat=la):
                for lb in range(0, 5):
                    for b in itertools.product(range(2), repeat=lb):
                        for k in ("subseq", "search", "cmp"):
                            ops.append(f"{k} {s(a)} | {s(b)}".replace("  ", " "))
        for n in range(0, 13):
            for b in range(1, 8):
                ops.append(f"batchlen {n} {b}")
                ops.append(f"batchiter {b} {s(range(n))}".rstrip())
                if b <= 4 and n <= 6:
                    for m in range(0, 7):
                        ops.append(f"batchiter2 {b} {s(range(n))} | {s(range(50, 50 + m))}".replace("  ", " "))
                for i in range(0, n // b + 3):
                    ops.append(f"batch {b} {i} {s(range(n))}".rstrip())
        for keys in itertools.product(range(3), repeat=5):
            ops.append(f"argsort 0 {s(keys)}"); ops.append(f"argsort 1 {s(keys)}")
        return [Case(ops[i:i + 2000], {}) for i in range(0, len(ops), 2000)]

    def run_impl(self, case):
        from windpyutils import generic as g
        out = []
        s = lambda xs: ",".join(map(str, xs))
        for op in case.ops:
            w = op.split()
            try:
                k = w[0]
                if k == "i2r":
                    out.append("ret " + g.int_2_roman(int(w[1])))
                elif k == "r2i":
                    out.append(f"ret {g.roman_2_int(w[1])}")
                elif k == "argsort":
                    out.append("list " + s(g.arg_sort([int(x) for x in w[2:]], reverse=(w[1] == "1"))))
                elif k in ("subseqE", "searchE"):
                    parts = op.split("|")
                    n = int(parts[0].split()[1])
                    nans = {}
                    el = lambda x: nans.setdefault(x, float("nan")) if x < n else x
                    a, b = [el(int(x)) for x in parts[1].split()], [el(int(x)) for x in parts[2].split()]
                    if k == "subseqE":
                        r = g.sub_seq(a, b) if len(b) % 2 else g.sub_seq(tuple(a), tuple(b))
                        out.append(f"ret {1 if r else 0}")
                    else:
                        out.append("list " + ",".join(f"{x}:{y}" for x, y in g.search_sub_seq(a, b)))
                elif k in ("subseq", "search", "cmp"):
                    i = w.index("|")
                    a, b = [int(x) for x in w[1:i]], [int(x) for x in w[i + 1:]]
                    if k == "subseq":
                        # alternate between list and tuple operands
                        r = g.sub_seq(a, b) if len(a) % 2 else g.sub_seq(tuple(a), tuple(b))
                        out.append(f"ret {1 if r else 0}")
                    elif k == "search":
                        out.append("list " + ",".join(f"{x}:{y}" for x, y in g.search_sub_seq(a, b)))
                    else:
                        r = g.compare_pos_in_iterables(iter(a), iter(b))
                        out.append(f"ret {1 if r else 0}")
                elif k == "batch":
                    data = [int(x) for x in w[3:]]
                    out.append("list " + s(g.Batcher(data, int(w[1]))[int(w[2])]))
                    # tuple input must be batched in lock-step
                    t = g.Batcher((data, [x * 2 for x in data]), int(w[1]))[int(w[2])]
                    if list(t[1]) != [x * 2 for x in t[0]] or list(t[0]) != list(g.Batcher(data, int(w[1]))[int(w[2])]):
                        out[-1] += " tuple-mismatch"
                elif k == "batchlazy":
                    b, fails, calls = int(w[1]), w[2] == "1", int(w[3])
                    data = [int(x) for x in w[4:]]
                    pulled = [0]

                    class SourceFailed(Exception):
                        pass

                    def source():
                        for x in data:
                            pulled[0] += 1
                            yield x
                        if fails:
                            raise SourceFailed()

                    it = iter(g.BatcherIter(source(), b))
                    outs = []
                    for _ in range(calls):
                        try:
                            outs.append(s(next(it)).replace(" ", ","))
                        except StopIteration:
                            outs.append("S")
                        except SourceFailed:
                            outs.append("R")
                    out.append(f"pulled:{pulled[0]} out:{';'.join(outs)}")
                elif k == "batchlen":
                    out.append(f"ret {len(g.Batcher(range(int(w[1])), int(w[2])))}")
                elif k == "batchrange":
                    r = g.Batcher(range(int(w[1])), int(w[2]))[int(w[3])]
                    out.append(f"ret {r.start}:{r.stop}")
                elif k == "batchnew":
                    lens = [int(x) for x in w[2:]]
                    data = tuple(list(range(n)) for n in lens)
                    # BatcherIter accepts members of different length but rejects a non-positive batch size like Batcher does
                    try:
                        g.BatcherIter(data, int(w[1])); it_ok = True
                    except ValueError:
                        it_ok = False
                    if it_ok != (int(w[1]) > 0):
                        out.append("batcheriter-ctor-mismatch"); continue
                    g.Batcher(data, int(w[1]))
                    out.append("ok")
                elif k == "batchiter2":
                    j = w.index("|")
                    xs, ys = [int(x) for x in w[2:j]], [int(x) for x in w[j + 1:]]
                    t = list(g.BatcherIter((iter(xs), iter(ys)), int(w[1])))
                    line = "lists2 " + ";".join(s(p[0]) + "/" + s(p[1]) for p in t)
                    # a third member must stay in lock-step as well (lists this time)
                    t3 = list(g.BatcherIter((xs, ys, [x * 2 for x in xs]), int(w[1])))
                    if [(list(p[0]), list(p[1])) for p in t3] != [(list(p[0]), list(p[1])) for p in t] or \
                            any(len(p) != 3 or list(p[2]) != [x * 2 for x in p[0]] for p in t3) or any(len(p) != 2 for p in t):
                        line += " tuple-mismatch"
                    out.append(line)
                elif k == "batchiter":
                    data = [int(x) for x in w[2:]]
                    r = list(g.BatcherIter(iter(data), int(w[1])))
                    t = list(g.BatcherIter((iter(data), iter([x * 2 for x in data])), int(w[1])))
                    line = "lists " + ";".join(s(x) for x in r)
                    if [list(p[0]) for p in t] != r or any(list(p[1]) != [x * 2 for x in p[0]] for p in t):
                        line += " tuple-mismatch"
                    out.append(line)
                else:
                    out.append("bad-op")
            except BaseException as e:  # noqa
                if isinstance(e, (KeyboardInterrupt, SystemExit)):
                    raise
                out.append(f"err {err_name(e)}")
        return out

    def oracle(self, case, impl_out):
        s = lambda xs: ",".join(map(str, xs))
        for i, (op, line) in enumerate(zip(case.ops, impl_out)):
            w = op.split()
            k = w[0]
            if k == "i2r":
                exp = "ret " + ref_roman(int(w[1]))
            elif k == "r2i":
                vals = {"I": 1, "V": 5, "X": 10, "L": 50, "C": 100, "D": 500, "M": 1000}
                tot, prev = 0, 0
                for ch in reversed(w[1]):
                    v = vals[ch]
                    tot += -v if v < prev else v
                    prev = max(prev, v) if False else v
                exp = f"ret {tot}"
            elif k == "argsort":
                keys = [int(x) for x in w[2:]]
                rev = w[1] == "1"
                # stable in both directions: ties keep index order
                exp = "list " + s(sorted(range(len(keys)), key=lambda j: (-keys[j] if rev else keys[j], j)))
            elif k in ("subseqE", "searchE"):
                parts = op.split("|")
                a, b = [int(x) for x in parts[1].split()], [int(x) for x in parts[2].split()]
                # the same object is always "equal" for list comparison, so occurrences are those of the numbers
                occ = [(o, o + len(a)) for o in range(0, len(b) - len(a) + 1) if b[o:o + len(a)] == a]
                if k == "subseqE":
                    exp = f"ret {1 if occ else 0}"
                else:
                    exp = "err ValueError" if (not a or not b) else "list " + ",".join(f"{x}:{y}" for x, y in occ)
            elif k in ("subseq", "search", "cmp"):
                j = w.index("|")
                a, b = [int(x) for x in w[1:j]], [int(x) for x in w[j + 1:]]
                occ = [(o, o + len(a)) for o in range(0, len(b) - len(a) + 1) if b[o:o + len(a)] == a]
                if k == "subseq":
                    exp = f"ret {1 if occ else 0}"
                elif k == "search":
                    exp = "err ValueError" if (not a or not b) else "list " + ",".join(f"{x}:{y}" for x, y in occ)
                else:
                    exp = f"ret {1 if sorted(a) == sorted(b) else 0}"
            elif k == "batch":
                data = [int(x) for x in w[3:]]; b = int(w[1]); j = int(w[2])
                nb = -(-len(data) // b)
                exp = "err IndexError" if j >= nb else "list " + s(data[j * b:(j + 1) * b])
            elif k == "batchlen":
                exp = f"ret {-(-int(w[1]) // int(w[2]))}"
            elif k == "batchrange":
                n, b, j = int(w[1]), int(w[2]), int(w[3])
                exp = "err IndexError" if j >= -(-n // b) else f"ret {min(j * b, n)}:{min(j * b + b, n)}"
            elif k == "batchnew":
                lens = [int(x) for x in w[2:]]
                exp = "err ValueError" if (len(set(lens)) > 1 or int(w[1]) <= 0) else "ok"
            elif k == "batchiter2":
                j = w.index("|")
                xs, ys = [int(x) for x in w[2:j]], [int(x) for x in w[j + 1:]]
                b = int(w[1]); m = min(len(xs), len(ys))
                exp = "lists2 " + ";".join(s(xs[q:min(q + b, m)]) + "/" + s(ys[q:min(q + b, m)]) for q in range(0, m, b))
            elif k == "batchiter":
                data = [int(x) for x in w[2:]]; b = int(w[1])
                exp = "lists " + ";".join(s(data[j:j + b]) for j in range(0, len(data), b))
            else:
                continue
            if line != exp:
                return f"op {i} `{op[:120]}`: {line[:200]!r}, reference gives {exp[:200]!r}"
        return None

    def observable_kind(self, case, i, model_line, impl_line):
        # how far a BatcherIter has consumed its source when it hands a batch over, and what it does when the source raises, is
        # in the model (Model/BatcherLazy.lean) but not in the property's statement: a difference there breaks the
        # correspondence and starts the search for a failing input, it is not reported as a failure of the property by itself
        return "MO" if case.ops[i].startswith("batchlazy") else "PO"

    # the first calls a process makes to the numeral functions come from several threads at once (harness/threads.py), then
    # the whole domain is swept: a memo table filled on demand must not get out of step
    def extra_scenarios(self, rng, tier):
        out = [{"kind": "cold-threads-roman"}] * (1 if tier == "quick" else 4)
        # sub-sequence search over elements for which equality is not simply comparing values: an object that is not equal to
        # itself (a NaN), equal objects of different types (1, 1.0, True), None, nested tuples and lists
        for _ in range(150 if tier == "quick" else 1500):
            out.append({"kind": "odd-elements", "seed": rng.randrange(1 << 30)})
        # Batcher iterated (for / list / zip) and indexed, over sequences that are not lists: str, bytes, range, tuples of them
        for _ in range(60 if tier == "quick" else 600):
            out.append({"kind": "batcher-sequences", "n": rng.randint(0, 11), "b": rng.randint(1, 5), "type": rng.randrange(10)})
        return out

    def run_extra(self, desc):
        if desc["kind"] == "batcheriter-lazy":
            from windpyutils import generic as g
            n, b, take, tup = desc["n"], desc["b"], desc["take"], desc["tuple"]

            class Boom(Exception):
                pass

            def source(limit, fail):
                for i in range(limit):
                    yield i
                if fail:
                    raise Boom()

            wrap = (lambda it: (it, iter(range(100, 100 + 10 ** 6)))) if tup else (lambda it: it)
            unwrap = (lambda bat: list(bat[0])) if tup else list
            # (1) the source raises after n items: every complete batch before that point has been handed over
            got = []
            try:
                for bat in g.BatcherIter(wrap(source(n, True)), b):
                    got.append(unwrap(bat))
                return f"BatcherIter swallowed the exception of its source (n={n}, batch size {b})"
            except Boom:
                pass
            want = [list(range(j * b, (j + 1) * b)) for j in range(n // b)]
            if got != want:
                return (f"BatcherIter over a source that raises after {n} items, batch size {b}{' (tuple input)' if tup else ''}: "
                        f"batches handed over before the exception {got}, the complete batches are {want}")
            # (2) an iteration abandoned after `take` batches has consumed exactly take * b items of a one-shot source
            it = iter(range(n))
            bi = iter(g.BatcherIter(wrap(it), b))
            k = 0
            for _ in range(take):
                try:
                    next(bi); k += 1
                except StopIteration:
                    break
            if k == take and take * b < n:
                nxt = next(it, None)
                if nxt != take * b:
                    return (f"after {take} batches of size {b} were taken from BatcherIter over a one-shot iterator of {n} items"
                            f"{' (tuple input)' if tup else ''}, the iterator continues with {nxt!r}, not with item {take * b}")
            return None
        if desc["kind"] == "batcher-sequences":
            from windpyutils import generic as g
            n, b = desc["n"], desc["b"]
            data = ["abcdefghijk"[:n], bytes(range(65, 65 + n)), range(10, 10 + n), list(range(n)),
                    ("abcdefghijk"[:n], range(n)),
                    # a tuple with a single member, a tuple with three
                    (list(range(n)),), (list(range(n)), "abcdefghijk"[:n], [None] * n),
                    # members that are sequences by behaviour only (`__len__` and `__getitem__` with slices, like arrays of a
                    # numeric library): not registered with collections.abc.Sequence
                    (_Duck(list(range(n))), _Duck("abcdefghijk"[:n])), (list(range(n)), _Duck(list(range(n)))),
                    list(range(n))][desc["type"]]
            if desc["type"] == 9:
                # BatcherIter over objects that are iterable only through the old protocol (`__getitem__` from 0 until IndexError)
                try:
                    got_l = [list(x) for x in g.BatcherIter(_Duck(list(range(n))), b)]
                    got_t = [tuple(list(m) for m in x) for x in g.BatcherIter((_Duck(list(range(n))), iter(range(n))), b)]
                except Exception as e:  # noqa
                    return f"BatcherIter over an object iterable through __getitem__ only raised {type(e).__name__}: {e}"
                want_l = [list(range(n))[j * b:(j + 1) * b] for j in range(-(-n // b))]
                if got_l != want_l or got_t != [(x, x) for x in want_l]:
                    return f"BatcherIter over an object iterable through __getitem__ only (n={n}, batch {b}): {got_l} / {got_t}"
            try:
                if isinstance(data, tuple):
                    # the iterator flavour on the same tuple (its members consumed as iterables): batches of lists in lock-step
                    it_got = [tuple(list(m) for m in bat) for bat in g.BatcherIter(tuple(iter(m) for m in data), b)]
                    it_want = [tuple(list(m[j * b:(j + 1) * b]) for m in data) for j in range(-(-n // b))]
                    if it_got != it_want:
                        return f"BatcherIter over a tuple of {len(data)} iterables of {n} items, batch size {b}: {it_got}, expected {it_want}"
                bt = g.Batcher(data, b)
                nb = -(-n // b)
                if isinstance(data, tuple):
                    want = [tuple(m[j * b:(j + 1) * b] for m in data) for j in range(nb)]
                else:
                    want = [data[j * b:(j + 1) * b] for j in range(nb)]
                norm = lambda x: tuple(norm(y) for y in x) if isinstance(x, tuple) else (
                    x if isinstance(x, (str, bytes)) else norm(x.items) if isinstance(x, _Duck) else list(x))
                got_iter = [norm(x) for x in bt]
                got_idx = [norm(bt[j]) for j in range(len(bt))]
                want = [norm(x) for x in want]
            except Exception as e:  # noqa
                return f"Batcher({data!r}, {b}) raised {type(e).__name__}: {e}"
            if len(bt) != nb or got_idx != want:
                return f"Batcher({data!r}, {b}): len {len(bt)}, batches by index {got_idx}, the consecutive slices are {want}"
            if got_iter != want:
                return f"Batcher({data!r}, {b}) iterated gives {got_iter}, the consecutive slices are {want} (indexing gives them)"
            return None
        if desc["kind"] == "odd-elements":
            import random
            from windpyutils import generic as g
            r = random.Random(desc["seed"])
            nan = float("nan")
            alphabet = [nan, 0, 1, 1.0, True, None, "a", (1, 2), [3], nan]
            s2 = [r.choice(alphabet) for _ in range(r.randint(0, 9))]
            if s2 and r.random() < 0.7:
                i = r.randrange(len(s2)); j = r.randint(i + 1, min(len(s2), i + 3))
                s1 = s2[i:j]
            else:
                s1 = [r.choice(alphabet) for _ in range(r.randint(1, 3))]
            form = r.randrange(3)
            a1, a2 = ([s1, s2], [tuple(s1), tuple(s2)], [list(s1), tuple(s2)])[form]
            occ = [(i, i + len(s1)) for i in range(len(s2) - len(s1) + 1) if list(s2[i:i + len(s1)]) == list(s1)]
            try:
                got_sub = g.sub_seq(a1, a2)
                got_search = g.search_sub_seq(a1, a2) if s1 and s2 else None
            except ValueError:
                return None if (not s1 or not s2) else f"sub_seq / search_sub_seq raised ValueError for {s1!r} in {s2!r}"
            except Exception as e:  # noqa
                return f"sub_seq / search_sub_seq raised {type(e).__name__} for {s1!r} in {s2!r}"
            if form == 2:
                return None  # a list never equals a tuple: nothing is compared across the two sequence types
            if bool(got_sub) != bool(occ) and s1:
                return f"sub_seq({s1!r}, {s2!r}) = {got_sub!r}; slices of s2 equal to s1 start at {[o[0] for o in occ]}"
            if got_search is not None and [tuple(x) for x in got_search] != occ:
                return f"search_sub_seq({s1!r}, {s2!r}) = {got_search!r}; the occurrences are {occ}"
            return None
        import subprocess
        import sys
        from .. import core
        try:
            p = subprocess.run([sys.executable, "-m", "harness.threads", "roman"], cwd=core.VERIF, stdout=subprocess.PIPE,
                               stderr=subprocess.STDOUT, text=True, timeout=120, start_new_session=True)
        except subprocess.TimeoutExpired:
            return "int_2_roman / roman_2_int called from several threads did not finish within 120 s"
        if p.returncode == 0 and "DONE" in p.stdout:
            return None
        wrong = [l for l in p.stdout.split("\n") if l.startswith("WRONG")]
        return (wrong[0][6:] if wrong else "the threaded run failed: " + p.stdout[-300:])

    def key(self, case, impl_out):
        return hash(tuple(case.ops))

    def histogram(self, report, case, impl_out):
        for op, line in zip(case.ops, impl_out):
            report.count("op:" + op.split()[0])
            if line.startswith("err"):
                report.count("result:" + line)

    def main(self, tier, seed, replay=None):
        rc = SeqProp.main(self, tier, seed, replay)
        return rc
