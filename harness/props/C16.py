# -*- coding: UTF-8 -*-
"""C16 — ImmutIntervalMap: correspondence with Model/SpanSet.lean (imap); oracle = linear scan over the defining dict"""
from ..core import Case, err_name
from ..seqcheck import SeqProp
from .C10 import pyval
from ..core import dec_val, enc_val


class Prop(SeqProp):
    pid = "C16"
    model = "imap"
    allow_bad_op = True  # lookups after a rejected constructor are answered `bad-op` by both sides
    anchors = ["windpyutils/structures/maps.py", "windpyutils/structures/span_set.py"]
    quick_cases = 6000
    thorough_cases = 60000
    rule = ("interval sets (touching, nested, degenerate single-point, inverted, unsorted; ints and halves, int/float mixed; "
            "values including None, 0, '', (), False) "
            "and probes at every end, every midpoint and in every gap; constructor outcome, lookups, `in`, len and iteration "
            "compared with the Lean model and with a linear scan over the defining dict; non-trivial = at least two intervals")
    trusted_base = ["Lean 4.33.0 kernel", "axioms: propext, Classical.choice, Quot.sound (audited per theorem)",
                    "hand-written model Model/SpanSet.lean (imapInit/imapGet, reusing the bisect_left loop and the SpanSet "
                    "constructor) tied to maps.py by this correspondence run"]
    assumptions = ["interval bounds and keys are numbers (no NaN); values are arbitrary objects (naturals in the model)"]

    def corpus(self):
        return [self.mk([(2, 6), (8, 8), (10, 20), (-4, 0)], label="disjoint with a point interval"),
                self.mk([(2, 6), (6, 8)], label="touching intervals share a point"),
                self.mk([(6, 2)], label="inverted interval"),
                self.mk([], label="empty map")]

    def mk(self, intervals, label=""):
        # the defining dict cannot hold equal keys twice
        seen, ivs = set(), []
        for iv in intervals:
            if iv not in seen:
                seen.add(iv); ivs.append(iv)
        ops = ["mk" + "".join(f" {s} {e} {i + 1}" for i, (s, e) in enumerate(ivs))]
        impl = [["mk", [list(iv) for iv in ivs]]]
        pts = sorted({p for s, e in ivs for p in (s, e, s - 1, e + 1, (s + e) // 2)} | {0})
        for p in pts:
            ops.append(f"get {p}"); impl.append(["get", p])
            ops.append(f"has {p}"); impl.append(["has", p])
        # observations are repeatable: a second iteration, one after an abandoned iteration and a nested one see the same map
        ops += ["len", "iter", "iter", "iter", "iter", "len"]
        impl += [["len"], ["iter", 0], ["iter", 0], ["iter", 1], ["iter", 2], ["len"]]
        if pts:
            ops.append(f"get {pts[0]}"); impl.append(["get", pts[0]])
        return Case(ops, {"impl": impl}, label)

    def gen(self, rng, n, tier):
        for _ in range(n):
            m = rng.choice([0, 1, 2, 3, 4, 6, 9])
            universe = rng.choice([8, 20, 60])
            # the number line is centred on 0: ends that are exactly 0 / -0.0 and negative bounds are ordinary inputs
            shift = rng.choice([0, universe, universe, 2 * (universe // 2)])
            ivs = []
            if rng.random() < 0.6:
                # mostly valid: cut disjoint intervals from a shuffled partition
                cuts = sorted(rng.sample(range(universe * 2), min(2 * m, universe * 2)))
                for j in range(0, len(cuts) - 1, 2):
                    ivs.append((cuts[j], cuts[j + 1] if rng.random() < 0.8 else cuts[j]))
                if ivs and rng.random() < 0.25:
                    # make two touch or overlap
                    a = rng.choice(ivs); ivs.append((a[1], a[1] + rng.randint(0, 3)))
                rng.shuffle(ivs)
            else:
                for _ in range(m):
                    a, b = rng.randint(0, universe), rng.randint(0, universe)
                    if a > b and rng.random() < 0.8:
                        a, b = b, a
                    ivs.append((a, b))
            ivs = [(a - shift, b - shift) for a, b in ivs]
            big_case = rng.random() < 0.1
            if big_case:
                # integer bounds far beyond 2**53 (nanosecond time stamps): neighbouring ints are different keys; in these
                # cases the model's integers are the numbers themselves (no halves, no floats)
                big = rng.choice([2 ** 53, 1_700_000_000_000_000_000, 2 ** 64])
                ivs = [(a + big, b + big) for a, b in ivs]
            if ivs and rng.random() < 0.3:
                # a neighbour that shares exactly one point with an existing interval (touching), or sits inside it
                a = rng.choice(ivs)
                ivs.append(rng.choice([(a[1], a[1] + rng.randint(0, 4)), (a[0] - rng.randint(0, 4), a[0]), (a[0], a[0]),
                                       (a[1], a[1])]))
                rng.shuffle(ivs)
            c = self.mk(ivs)
            if big_case:
                c.meta["ints_only"] = True
            elif rng.random() < 0.12:
                c.meta["numeric"] = "decimal"
            yield c

    def run_impl(self, case):
        from windpyutils.structures.maps import ImmutIntervalMap
        m = None
        out = []
        ints_only = bool(case.meta.get("ints_only"))
        pv = (lambda n, as_float=False: n) if ints_only else pyval
        if case.meta.get("numeric") == "decimal" and not ints_only:
            # bounds and keys of other numeric types that order with ints and floats: decimal.Decimal (prices, fee tables),
            # fractions.Fraction
            import decimal
            import fractions
            pv = lambda n, as_float=False: (decimal.Decimal(n) / 2) if as_float or n % 4 == 1 else fractions.Fraction(n, 2)
        unit = 1 if ints_only else 2
        for st in case.meta["impl"]:
            try:
                if st[0] == "mk":
                    d = {}
                    for i, (s, e) in enumerate(st[1]):
                        d[(pv(s, i % 3 == 0), pv(e, i % 2 == 0))] = dec_val(i)  # the model calls it i + 1; small codes are falsy objects
                    m = None
                    m = ImmutIntervalMap(d)
                    # the caller goes on using its dict: the immutable map keeps what it was built from
                    d[(10 ** 6, 10 ** 6 + 1)] = "late"
                    if st[1]:
                        d.pop(next(iter(d)))
                    from .. import core as _core
                    cp = _core.clone_probe(m, lambda o: (list(o), len(o), [(k in o) and o[k] for k in (0, 1, -1, 5, 2.5, -3, 8, 12)]))
                    if cp is None:
                        # keys beyond every bound: the infinities (and numbers no float can hold) lie in no interval
                        for far in (float("inf"), float("-inf"), 10 ** 400, -10 ** 400):
                            try:
                                if far in m:
                                    cp = f"`{far!r} in map` is True, every bound is finite"; break
                            except BaseException as e:  # noqa
                                cp = f"`{far!r} in map` raised {err_name(e)}"; break
                            try:
                                cp = f"map[{far!r}] returned {m[far]!r}, every bound is finite"; break
                            except KeyError:
                                pass
                            except BaseException as e:  # noqa
                                cp = f"map[{far!r}] raised {err_name(e)} (KeyError: the key lies in no interval)"; break
                    out.append("ok" if cp is None else "ok clone-problem: " + cp)
                elif m is None:
                    out.append("bad-op")
                elif st[0] == "get":
                    out.append(f"ret {enc_val(m[pv(st[1], st[1] % 4 == 0)]) + 1}")
                elif st[0] == "has":
                    out.append(f"ret {1 if pv(st[1]) in m else 0}")
                elif st[0] == "len":
                    out.append(f"ret {len(m)}")
                elif st[0] == "iter":
                    mode = st[1] if len(st) > 1 else 0
                    if mode == 1:
                        for _ in m:  # an abandoned iteration before this one
                            break
                        items = list(m)
                    elif mode == 2:
                        items = []
                        for x in m:  # nested: the inner iteration neither disturbs nor is disturbed by the outer one
                            inner = list(m)
                            items.append(x if inner == list(m) and len(inner) == len(m) else ("inner", "differs"))
                    else:
                        items = list(m)
                    out.append("ret " + ",".join(f"{round(s * unit)}:{round(e * unit)}:{enc_val(v) + 1}" for (s, e), v in items))
                else:
                    out.append("bad-op")
            except BaseException as e:  # noqa
                if isinstance(e, (KeyboardInterrupt, SystemExit)):
                    raise
                out.append(f"err {err_name(e)}")
        return out

    def valid(self, case, model_out, impl_out):
        return True

    def oracle(self, case, impl_out):
        for i, line in enumerate(impl_out):
            if "clone-problem: " in line:
                return f"op {i}: copies of the map / keys beyond every bound: {line.split('clone-problem: ')[1][:600]}"
        ivs = None
        for i, (st, line) in enumerate(zip(case.meta["impl"], impl_out)):
            if st[0] == "mk":
                cand = [tuple(x) for x in st[1]]
                ok = all(s <= e for s, e in cand) and all(not (a[0] <= b[1] and b[0] <= a[1])
                                                          for j, a in enumerate(cand) for b in cand[j + 1:])
                if ok != (line == "ok") or (not ok and line != "err KeyError"):
                    return f"op {i}: constructor gave {line!r} for {cand}; valid-and-pairwise-disjoint is {ok}"
                ivs = cand if ok else None
            elif ivs is None:
                if line != "bad-op":
                    return f"op {i}: {line!r} on a map that was not constructed"
            elif st[0] in ("get", "has"):
                hit = [j + 1 for j, (s, e) in enumerate(ivs) if s <= st[1] <= e]
                if st[0] == "get":
                    exp = f"ret {hit[0]}" if hit else "err KeyError"
                else:
                    exp = f"ret {1 if hit else 0}"
                if line != exp:
                    return f"op {i} {st}: {line!r}, linear scan gives {exp!r} over {ivs}"
            elif st[0] == "len":
                if line != f"ret {len(ivs)}":
                    return f"op {i}: len {line!r}, expected {len(ivs)}"
            elif st[0] == "iter":
                exp = "ret " + ",".join(f"{s}:{e}:{v}" for (s, e), v in sorted(((iv, j + 1) for j, iv in enumerate(ivs))))
                if line != exp:
                    return f"op {i}: iteration {line!r}, expected ascending {exp!r}"
        return None

    # lookups in one (immutable) map from several threads at once, keys whose comparisons run Python code (harness/threads.py)
    def extra_scenarios(self, rng, tier):
        out = []
        for _ in range(6 if tier == "quick" else 40):
            cuts = sorted(rng.sample(range(-40, 60), 12))
            out.append({"kind": "threads", "intervals": [(cuts[j], cuts[j + 1] - (1 if rng.random() < 0.5 else 0)) for j in range(0, 12, 2)]})
        return out

    def run_extra(self, desc):
        from fractions import Fraction
        from windpyutils.structures.maps import ImmutIntervalMap
        from .. import threads
        ivs = [tuple(iv) for iv in desc["intervals"] if iv[0] <= iv[1]]
        m = ImmutIntervalMap({iv: f"v{j}" for j, iv in enumerate(ivs)})
        jobs = []
        pts = sorted({p for s, e in ivs for p in (s, e, s - 1, e + 1)} | {Fraction(s + e, 2) for s, e in ivs})
        for p in pts:
            hit = [f"v{j}" for j, (s, e) in enumerate(ivs) if s <= p <= e]
            k = Fraction(p)
            jobs.append((f"m[{p}]", lambda k=k: m[k], ("ret", hit[0]) if hit else ("err", "KeyError")))
            jobs.append((f"{p} in m", lambda k=k: k in m, ("ret", bool(hit))))
        return threads.hammer(jobs, 4, 2)

    def key(self, case, impl_out):
        return hash(tuple(case.ops)) if len(case.meta["impl"][0][1]) >= 2 else None

    def histogram(self, report, case, impl_out):
        report.count("ctor:" + impl_out[0])
        for st, line in zip(case.meta["impl"], impl_out):
            if st[0] == "get":
                report.count("get:" + ("hit" if line.startswith("ret") else line))

    def shrink(self, case, pred):
        return case
