# -*- coding: UTF-8 -*-
"""C05 — FunctorMap / mul_p_map under the controlled scheduler; step-by-step correspondence with Model/FMap.lean"""
import random

from .poolbase import PoolProp, chooser_uniform, chooser_pct, chooser_starve, chooser_roles
from ..fmapsim import FCfg, FSimEnv


def order_key(name):
    return (0, 0) if name == "P" else (1, int(name[1:]))


def chooser_prio_workers(rng, late):
    """strict priorities: P first or last; workers in a random fixed order"""
    order = {}

    def choose(en, sched):
        for t in en:
            if t not in order:
                order[t] = rng.random()
        ws = [t for t in en if t != "P"]
        if "P" in en and (not late or not ws):
            return "P"
        return min(ws, key=lambda t: order[t]) if ws else "P"

    return choose


class Prop(PoolProp):
    pid = "C05"
    focus = "fmap"
    model_name = "fmap"
    anchors = ["windpyutils/parallel/pools.py", "windpyutils/parallel/maps.py", "windpyutils/parallel/workers.py",
               "windpyutils/buffers.py"]
    quick_runs = 600
    real_module = "harness.realfmap"
    real_scenarios = ("fmap_one_cpu_default_workers", "fmap_detached_generator", "fmap_small", "fmap_big_results", "fmap_none_and_falsy", "fmap_falsy_results", "fmap_exception_values", "fmap_equal_items",
                      "mulp_small", "mulp_big_results", "mulp_exception_values")
    real_scenarios_quick = real_scenarios  # a fraction of a second each
    thorough_runs = 3000
    rule = ("FunctorMap: 1-4 workers, 1-3 consecutive calls on one instance with 0-10 items and chunk sizes 1-3 (incl. fewer "
            "items than workers, empty inputs, lazily produced input, every third result a falsy object; 40 % of the FunctorMap "
            "runs take exactly n results and close the generator — `Cfg.exact` in the model); mul_p_map: 1-4 workers, 0-10 items, 1-2 calls; schedules "
            "from uniform random walks, PCT-style priorities, caller-first / caller-last priorities and starvation of one "
            "worker; every step (operation, result, queue digest, enabled set) compared with the Lean model; oracle: returned "
            "sequence = [f(x) for x in data], the call terminates, no worker left running; non-trivial = at least 15 steps "
            "with a non-empty call")
    trusted_base = ["Lean 4.33.0 kernel", "axioms: propext, Classical.choice, Quot.sound (audited per theorem)",
                    "hand-written interleaving model Model/FMap.lean tied to pools.py / maps.py / workers.py by step-by-step "
                    "correspondence under the controlled scheduler",
                    "modelled, not verified: multiprocessing.Queue as an atomic FIFO (its asynchronous feeder can only make a "
                    "non-blocking get miss an item on its way), process start/join, thread-local code between two visible "
                    "operations commutes with other threads' steps"]
    assumptions = ["the function returns normally", "workers >= 1, chunk_size >= 1"]

    def kind_of(self, cfg):
        return "mul_p_map" if cfg.mulp else "FunctorMap"

    def cfg_from_json(self, d):
        return FCfg(**d)

    def cover_cfgs(self, tier):
        # every reachable transition of the model: two workers, one and two calls, fewer items than workers, exact consumption,
        # mul_p_map (more stop orders than workers started... never: cap = cpu count)
        cfgs = [FCfg(2, False, [(2, 1)]), FCfg(2, False, [(1, 1), (4, 2)]), FCfg(2, False, [(2, 1), (1, 1)], exact=True),
                FCfg(2, True, [(3, 1)]), FCfg(3, False, [(3, 1)], none_inputs=True)]
        if tier == "thorough":
            cfgs += [FCfg(3, False, [(4, 1), (0, 1), (2, 2)]), FCfg(3, True, [(4, 1), (1, 1)]), FCfg(4, False, [(5, 1)], exact=True)]
        return cfgs

    def corpus(self):
        return [(FCfg(3, False, [(2, 1), (0, 1), (7, 3)]), ("prio", 1, True), chooser_prio_workers(random.Random(1), True),
                 "fewer items than workers, an empty call, caller last"),
                (FCfg(2, True, [(5, 1), (0, 1)]), ("prio", 2, False), chooser_prio_workers(random.Random(2), False),
                 "mul_p_map caller first")]

    def gen_cfg(self, rng, tier):
        mulp = rng.random() < 0.4
        ncalls = rng.choice([1, 1, 2] if mulp else [1, 2, 3])
        calls = [(rng.choice([0, 1, 2, 3, 4, 6, 10]), 1 if mulp else rng.choice([1, 1, 2, 3])) for _ in range(ncalls)]
        return FCfg(rng.choice([1, 2, 2, 3, 4]), mulp, calls, exact=(not mulp and rng.random() < 0.4), input_kind=rng.randrange(5),
                    idle_gen=(not mulp and rng.random() < 0.2), body_raises=(not mulp and rng.random() < 0.2),
                    none_inputs=rng.random() < 0.25, impatient=(tier != "cover" and rng.random() < 0.15))

    def gen_chooser(self, rng):
        r = rng.random()
        seed = rng.randrange(1 << 30)
        if r < 0.4:
            return ("uniform", seed), chooser_uniform(random.Random(seed))
        if r < 0.6:
            d = rng.randint(1, 3)
            return ("pct", seed, d), chooser_pct(random.Random(seed), d)
        if r < 0.85:
            late = rng.random() < 0.5
            return ("prio", seed, late), chooser_prio_workers(random.Random(seed), late)
        victim = rng.choice("PW")
        return ("starve", seed, victim), chooser_starve(random.Random(seed), victim)

    def systematic(self):
        return []

    def run_sim(self, cfg, chooser):
        env = FSimEnv(cfg)
        steps = []

        def wrapped(en, sched):
            if sched.log and len(steps) < len(sched.log):
                t, l, r = sched.log[-1]
                steps.append([t, l, r, env.digest(), sorted(en, key=order_key)])
            return chooser(en, sched)

        status, schedule, log = env.run(wrapped)
        if len(steps) < len(log):
            t, l, r = log[-1]
            steps.append([t, l, r, env.digest(), []])
        return env, status, schedule, steps

    def impl_final(self, cfg, env, status):
        outs = []
        for k, ((n, cs), res) in enumerate(zip(cfg.calls, env.results)):
            seen = []
            for v in res:
                if v is None:
                    continue
                item = (v - 1) // 3 - k * 1000
                ch = item // cs
                if not seen or seen[-1] != ch:
                    seen.append(ch)
            outs += [f"{k + 1}:{c}" for c in seen]
        running = sorted(int(n[1:]) for n, fin in env.final_finished.items() if n.startswith("W") and not fin)
        return f"out:{','.join(outs)} final:{1 if status == 'done' else 0} running:{','.join(map(str, running))}"

    def oracle(self, cfg, env, status, steps):
        if status.startswith(("stuck:", "scheduler:")):
            return None  # the run could not be controlled: nothing observed about the property (compare() reports it)
        exp = env.expected()
        for k, got in enumerate(env.results):
            complete = status == "done" or k < len(env.results) - 1
            if got != exp[k][:len(got)] or (complete and got != exp[k]):
                return (f"call {k + 1} of {self.kind_of(cfg)} returned {got}, expected {exp[k]}", "wrong-result")
        if status != "done":
            return (f"the call does not terminate: {status}", "deadlock:" + status)
        if len(env.results) != len(cfg.calls):
            return ("not every call was made", "incomplete")
        running = [n for n, fin in env.final_finished.items() if n.startswith("W") and not fin]
        if running:
            return (f"workers still running after the call / context: {running}", "left-running")
        return None
