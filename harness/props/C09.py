# -*- coding: UTF-8 -*-
"""C09 — SortedSet / SortedMap: correspondence with Model/Sorted.lean; oracle = builtin set / dict"""
import math
from fractions import Fraction

import random
from ..core import Case, err_name, HarnessError
from ..seqcheck import SeqProp

POOL = [-math.inf, -10, -3.5, -1, -0.0, 0, 0.5, 1, 1.0, 2, 2.5, 3, 7, 2 ** 53 - 1, 2 ** 53, float(2 ** 53), 2 ** 53 + 1,
        float(2 ** 53 + 2), 10 ** 30, 1e300, math.inf,
        # ints beyond the range of a float (any conversion to float raises OverflowError; comparison with floats is exact)
        2 ** 1024, -(2 ** 1024), 10 ** 400, -(10 ** 400)]


def frac(x):
    if isinstance(x, float) and math.isinf(x):
        return (1 if x > 0 else -1, 0)
    return (0, Fraction(x))


def ranks_of(values):
    keys = sorted({frac(v) for v in values})
    idx = {k: i for i, k in enumerate(keys)}
    return idx


RANK = ranks_of(POOL)

# map values: the model stores naturals; 0..3 stand for falsy / None-like Python objects (a value is any object)
SPECIAL = {0: None, 1: 0, 2: "", 3: False}


def pyv(code):
    return SPECIAL.get(code, code)


def codev(obj):
    if obj is None:
        return 0
    if obj is False:
        return 3
    if obj == "" and isinstance(obj, str):
        return 2
    if obj == 0 and isinstance(obj, int):
        return 1
    return obj
FOREIGN = ["a", None, (1, 2), "1"]


def rk(x):
    return RANK[frac(x)]


class Prop(SeqProp):
    pid = "C09"
    anchors = ["windpyutils/structures/sorted.py", "windpyutils/generic.py"]
    quick_cases = 6000
    thorough_cases = 60000
    rule = ("initialisers {empty, unsorted, with repeats, mapping, pairs} and random op sequences (set: add/discard/remove/"
            "pop/clear/in; map: store/delete/pop/popitem/setdefault/update/lookup/in) over a pool of 25 ints and floats "
            "(incl. -0.0/0, 1/1.0, 2**53±1, ±inf, ints beyond the float range) sent to the model as exact order ranks, plus foreign-typed probes; "
            "state dumped after every op; oracle = builtin set/dict; non-trivial = an initialiser or >=3 mutating ops")
    trusted_base = ["Lean 4.33.0 kernel", "axioms: propext, Classical.choice, Quot.sound (audited per theorem)",
                    "hand-written model Model/Sorted.lean (incl. the bisect_left loop, sorted, dict(pairs)) tied to sorted.py "
                    "by this correspondence run", "exact int/float comparison of CPython embeds in a linear order (ranks via Fraction)"]
    assumptions = ["numeric keys without NaN", "foreign probes only through `in` / lookup / delete / pop (the property's probing)"]

    def model_for(self, case):
        return case.meta["kind"]

    # two machines: run_model is overridden to split by kind
    def run_model(self, cases):
        res = [None] * len(cases)
        for kind in ("sset", "smap"):
            idx = [i for i, c in enumerate(cases) if c.meta["kind"] == kind]
            if not idx:
                continue
            self.model = kind
            outs = SeqProp.run_model(self, [cases[i] for i in idx])
            for i, o in zip(idx, outs):
                res[i] = o
        return res

    # ---- generation ----------------------------------------------------------------------------------------------------
    def corpus(self):
        mk = self.mk
        return [
            mk("sset", [("init", []), ("add", [5]), ("has", [5]), ("pop", []), ("pop", [])], "D6: empty initialiser"),
            mk("smap", [("init", []), ("set", [5, 1]), ("get", [5]), ("popitem", []), ("popitem", [])], "D7: empty pairs"),
            mk("smap", [("init", [7, 1, 9, 2, 8, 3, 9, 4]), ("get", [9]), ("get", [7]), ("len", []), ("items", [])],
               "D7: repeated initial keys, later wins (1 and 1.0 are one key)"),
            mk("sset", [("init", [3, 7, 8, 3, 9, 5, 4]), ("has", ["f0"]), ("has", ["f1"]), ("remove", [20]), ("discard", [20]),
                        ("add", [15]), ("add", [14]), ("add", [16]), ("len", [])], "foreign probes and 2**53 neighbours"),
            mk("smap", [("init", [3, 1]), ("get", ["f0"]), ("has", ["f1"]), ("del", ["f0"]), ("pop", ["f2"]), ("set", ["f0", 1]),
                        ("items", [])], "foreign probes on a map"),
        ]

    def mk(self, kind, steps, label=""):
        """steps: (op, args) with numeric args as pool indices (ints), 'fN' foreign probes, map values as ints"""
        ops, impl = [], []
        SETOPS = ("le", "eq", "disjoint", "and", "or", "sub", "xor", "ior", "iand", "isub", "ixor")
        for op, args in steps:
            if kind == "sset" and op in SETOPS:
                # the other operand is a builtin set: equal values (1 and 1.0) are one element
                seen, la = set(), []
                for a in args:
                    r = rk(POOL[a])
                    if r not in seen:
                        seen.add(r); la.append(str(r))
                ops.append(" ".join([op] + la))
            elif kind == "smap" and op in ("getd", "popd"):
                ops.append(f"{op} {'f' if isinstance(args[0], str) else rk(POOL[args[0]])} {args[1]}")
            elif kind == "smap" and op == "haskey":
                ops.append(f"haskey {'f' if isinstance(args[0], str) else rk(POOL[args[0]])}")
            elif kind == "smap" and op == "hasitem":
                ops.append(f"hasitem {'f' if isinstance(args[0], str) else rk(POOL[args[0]])} {args[1]}")
            elif kind == "smap" and op == "hasvalue":
                ops.append(f"hasvalue {args[0]}")
            elif kind == "smap" and op == "eq":
                d = {}
                for j in range(0, len(args), 2):
                    d[rk(POOL[args[j]])] = args[j + 1]
                ops.append(" ".join(["eq"] + [f"{k} {v}" for k, v in d.items()]))
            elif kind == "smap" and op == "clear":
                ops.append("clear")
            elif kind == "smap" and op == "updre":
                prev = steps[len(impl) - 1]
                assert prev[0] == "init"
                d = {}
                for j in range(0, len(prev[1]), 2):
                    d[rk(POOL[prev[1][j]])] = prev[1][j + 1]
                la = []
                for a in args:
                    k = rk(POOL[a])
                    d[k] = d.get(k, 100) + 1
                    la += [str(k), str(d[k])]
                ops.append(" ".join(["update"] + la))
            elif kind == "sset" or op in ("get", "has", "del", "pop"):
                la = []
                for a in args:
                    la.append("f" if isinstance(a, str) else str(rk(POOL[a])))
                ops.append(" ".join([op] + la))
            elif op in ("init", "update"):
                la = []
                for j, a in enumerate(args):
                    la.append(str(rk(POOL[a])) if j % 2 == 0 else str(a))
                ops.append(" ".join([op] + la))
            elif op in ("set", "setdefault"):
                k = args[0]
                ops.append(f"{op} {'f' if isinstance(k, str) else rk(POOL[k])} {args[1]}")
            else:
                ops.append(op)
            impl.append([op, list(args)])
        return Case(ops, {"kind": kind, "impl": impl}, label)

    def gen(self, rng, n, tier):
        for _ in range(n):
            kind = rng.choice(["sset", "smap"])
            npool = rng.choice([4, 8, len(POOL)])
            pool = rng.sample(range(len(POOL)), npool)
            pick = lambda: rng.choice(pool)
            steps = []
            length = rng.randint(1, rng.choice([6, 15, 40]))
            if rng.random() < 0.8:
                m = rng.choice([0, 0, 1, 3, 6, 12])
                if kind == "sset":
                    steps.append(("init", [pick() for _ in range(m)]))
                else:
                    args = []
                    reent = rng.random() < 0.15
                    for j in range(m):
                        args += [pick(), (j + 10) if reent else rng.choice([0, 1, 2, 3, j + 10])]
                    steps.append(("init", args))
                    if reent:
                        # update() fed by a generator that reads the very map while it is consumed (a counting idiom): like a
                        # dict, the map stores every pair as it is pulled
                        steps.append(("updre", [pick() for _ in range(rng.randint(1, 6))]))
            vc = 100
            for _ in range(length):
                vc += 1
                if kind == "smap" and rng.random() < 0.25:
                    vc_use = rng.choice([0, 1, 2, 3])   # None / 0 / '' / False as values
                else:
                    vc_use = vc
                r = rng.random()
                probe = (f"f{rng.randrange(len(FOREIGN))}" if rng.random() < 0.12 else pick())
                if kind == "sset":
                    if r < 0.35:
                        steps.append(("add", [pick()]))
                    elif r < 0.5:
                        steps.append(("discard", [pick()]))
                    elif r < 0.6:
                        steps.append(("remove", [pick()]))
                    elif r < 0.68:
                        steps.append(("pop", []))
                    elif r < 0.9:
                        steps.append(("has", [probe]))
                    elif r < 0.94:
                        steps.append(("len", []))
                    elif r < 0.985:
                        # the inherited Set / MutableSet interface (Model/SortedMixins.lean)
                        other = [pick() for _ in range(rng.randint(0, 5))]
                        steps.append((rng.choice(["le", "eq", "disjoint", "and", "or", "sub", "xor", "ior", "iand", "isub", "ixor"]), other))
                    else:
                        steps.append(("clear", []))
                else:
                    if r < 0.3:
                        steps.append(("set", [pick(), vc_use]))
                    elif r < 0.33:
                        steps.append(("set", [f"f{rng.randrange(len(FOREIGN))}", vc]))
                    elif r < 0.45:
                        steps.append(("del", [probe]))
                    elif r < 0.52:
                        steps.append(("pop", [probe]))
                    elif r < 0.57:
                        steps.append(("popitem", []))
                    elif r < 0.65:
                        steps.append(("setdefault", [pick(), vc_use if rng.random() < 0.5 else vc]))
                    elif r < 0.72:
                        args = []
                        for j in range(rng.randint(0, 3)):
                            args += [pick(), vc * 10 + j]
                        steps.append(("update", args))
                    elif r < 0.84:
                        steps.append(("get", [probe]))
                    elif r < 0.93:
                        steps.append(("has", [probe]))
                    elif r < 0.94:
                        steps.append(("items", []))
                    elif r < 0.99:
                        # the inherited Mapping / MutableMapping interface (Model/SortedMixins.lean); values that are compared
                        # are never code 1 (the int 0) or code 3 (False): these two are equal in Python but different values of the model
                        val = lambda: rng.choice([0, 2, vc, vc - 1, 100 + rng.randint(1, 8)])
                        q = rng.random()
                        if q < 0.2:
                            steps.append(("getd", [probe, val()]))
                        elif q < 0.4:
                            steps.append(("popd", [probe, val()]))
                        elif q < 0.5:
                            steps.append(("haskey", [probe]))
                        elif q < 0.65:
                            steps.append(("hasitem", [probe, val()]))
                        elif q < 0.8:
                            steps.append(("hasvalue", [val()]))
                        elif q < 0.95:
                            pairs = []
                            for j in range(rng.randint(0, 4)):
                                pairs += [pick(), val()]
                            steps.append(("eq", pairs))
                        else:
                            steps.append(("clear", []))
                    else:
                        steps.append(("len", []))
            rng_init = None
            if kind == "sset" and rng.random() < 0.06:
                # the initial values are a `range` object (ascending, descending, stepped, empty) over the ints 0..3 of the pool
                a, b = rng.randint(-1, 4), rng.randint(-1, 4)
                st = rng.choice([1, -1, 2, -2, -1])
                vals = [v for v in range(a, b, st) if 0 <= v <= 3]
                if list(range(a, b, st)) == vals:
                    rng_init = [a, b, st]
                    INT_IDX = {0: 5, 1: 7, 2: 9, 3: 11}
                    steps = [("init", [INT_IDX[v] for v in vals])] + [s_ for s_ in steps if s_[0] != "init"]
            c = self.mk(kind, steps)
            if rng_init is not None:
                c.meta["range_init"] = rng_init
            # how the initial collection is handed over (list / tuple / one-shot iterator / builtin set or dict / an object
            # of the class itself that lives on and is changed behind the new object's back)
            c.meta["form"] = rng.randrange(6)
            c.meta["donor_seed"] = rng.randrange(1 << 30)
            yield c

    # ---- implementation ------------------------------------------------------------------------------------------------
    @staticmethod
    def val(a):
        if isinstance(a, str):
            return FOREIGN[int(a[1:])]
        return POOL[a]

    def run_impl(self, case):
        from windpyutils.structures.sorted import SortedSet, SortedMap
        kind = case.meta["kind"]
        obj = SortedSet() if kind == "sset" else SortedMap()
        out = []
        form = case.meta.get("form", 0)
        donor = [None, None]  # the object the initial collection came from, and what it must still contain
        drng = random.Random(case.meta.get("donor_seed", 0))

        def poke_donor():
            """the source object of a copy-construction goes on living: it is changed here, which must not show in `obj`"""
            d, ref = donor
            if d is None:
                return
            k = POOL[drng.randrange(len(POOL))]
            r = drng.random()
            if kind == "sset":
                if r < 0.5:
                    d.add(k); ref.add(frac(k))
                elif r < 0.8:
                    d.discard(k); ref.discard(frac(k))
                elif r < 0.9 and len(d):
                    ref.discard(frac(d.pop()))
                else:
                    d.clear(); ref.clear()
            else:
                if r < 0.5:
                    d[k] = ("donor", r); ref[frac(k)] = ("donor", r)
                elif r < 0.8:
                    d.pop(k, None); ref.pop(frac(k), None)
                elif r < 0.9 and len(d):
                    kk, _ = d.popitem(); ref.pop(frac(kk), None)
                else:
                    d.clear(); ref.clear()

        def donor_ok():
            d, ref = donor
            if d is None:
                return True
            if kind == "sset":
                return [frac(x) for x in d] == sorted(ref)
            return [(frac(k), v) for k, v in d.items()] == sorted(ref.items())

        def r_of(x):
            try:
                return str(rk(x))
            except Exception:
                return "?" + repr(x)

        def dump():
            if kind == "sset":
                return "L:" + ",".join(r_of(x) for x in obj.values)
            return "K:" + ",".join(r_of(x) for x in obj.keys_storage) + " V:" + ",".join(str(codev(v)) for v in obj.values_storage)

        from .. import mixins
        shadow = set() if kind == "sset" else {}
        brng = random.Random(case.meta.get("donor_seed", 0) ^ 0xB177)

        def shadow_apply(op, args, r):
            """the builtin set / dict driven by the same operation (only when the operation did not raise)"""
            nonlocal shadow
            if r.startswith("err"):
                return
            v = [self.val(a) for a in args if not isinstance(a, str)] if kind == "sset" else None
            if kind == "sset":
                if op == "init":
                    shadow = set(v)
                elif op == "add":
                    shadow.add(v[0])
                elif op in ("discard", "remove"):
                    if v:
                        shadow.discard(v[0])
                elif op == "pop":
                    shadow.discard(next((x for x in shadow if r_of(x) == r[4:]), None))
                elif op == "clear":
                    shadow = set()
                elif op in ("ior", "iand", "isub", "ixor"):
                    other = set(v)
                    shadow = {"ior": shadow | other, "iand": shadow & other, "isub": shadow - other, "ixor": shadow ^ other}[op]
            else:
                key = lambda j: self.val(args[j])
                if op == "init":
                    shadow = {}
                    for j in range(0, len(args), 2):
                        shadow[key(j)] = pyv(args[j + 1])
                elif op == "set" and not isinstance(args[0], str):
                    shadow[key(0)] = pyv(args[1])
                elif op in ("del", "pop", "popd") and not isinstance(args[0], str):
                    shadow.pop(key(0), None)
                elif op == "clear":
                    shadow = {}
                elif op == "updre":
                    for a_ in args:
                        shadow[self.val(a_)] = shadow.get(self.val(a_), 100) + 1
                elif op == "popitem":
                    kk = next((x for x in shadow if r_of(x) == r[4:].split(":")[0]), None)
                    shadow.pop(kk, None)
                elif op == "setdefault":
                    shadow.setdefault(key(0), pyv(args[1]))
                elif op == "update":
                    for j in range(0, len(args), 2):
                        shadow[key(j)] = pyv(args[j + 1])

        def battery():
            """the inherited (mixin) interface beside the builtin container with the same content"""
            probes = [POOL[brng.randrange(len(POOL))] for _ in range(3)] + list(shadow)[:2]
            # the same numbers as other numeric types (equal and hash-equal to the int / float that is stored)
            import fractions
            import decimal
            for x_ in list(shadow)[:2] + probes[:1]:
                if isinstance(x_, (int, float)) and not isinstance(x_, bool) and x_ == x_ and abs(x_) < 2 ** 60:
                    probes.append(fractions.Fraction(x_))
                    if float(x_).is_integer():
                        probes.append(decimal.Decimal(int(x_)))
            if kind == "sset":
                others = [set(list(shadow)[:2]) | {POOL[brng.randrange(len(POOL))]}, set(shadow), set()]
                return mixins.set_battery(obj, shadow, probes, ordered=sorted(shadow), others=others)
            return mixins.mapping_battery(obj, shadow, probes, foreign=[FOREIGN[brng.randrange(len(FOREIGN))]],
                                          ordered_keys=sorted(shadow))

        for op, args in case.meta["impl"]:
            try:
                if kind == "sset":
                    if op == "init":
                        vals = [self.val(a) for a in args]
                        if case.meta.get("range_init") is not None:
                            obj = SortedSet(range(*case.meta["range_init"]))
                        elif form == 1:
                            obj = SortedSet(tuple(vals))
                        elif form == 2:
                            obj = SortedSet(iter(vals))
                        elif form == 3:
                            obj = SortedSet(x for x in vals)
                        elif form == 4:
                            obj = SortedSet(vals)
                            if vals:
                                src = set()
                                for x in vals:
                                    if not any(frac(x) == frac(y) for y in src):
                                        src.add(x)
                                obj = SortedSet(src)
                        elif form == 5:
                            d = SortedSet(vals)
                            obj = SortedSet(d)
                            donor[0], donor[1] = d, {frac(x) for x in vals}
                        else:
                            obj = SortedSet(vals)
                        r = "ok"
                    elif op == "add":
                        obj.add(self.val(args[0])); r = "ok"
                    elif op == "discard":
                        obj.discard(self.val(args[0])); r = "ok"
                    elif op == "remove":
                        obj.remove(self.val(args[0])); r = "ok"
                    elif op == "pop":
                        r = "ret " + r_of(obj.pop())
                    elif op == "has":
                        r = f"ret {1 if self.val(args[0]) in obj else 0}"
                    elif op == "len":
                        r = f"ret {len(obj)}"
                    elif op == "clear":
                        obj.clear(); r = "ok"
                    elif op in ("le", "eq", "disjoint", "and", "or", "sub", "xor", "ior", "iand", "isub", "ixor"):
                        other = set()
                        for a in args:
                            x = self.val(a)
                            if not any(frac(x) == frac(y) for y in other):
                                other.add(x)
                        if op == "le":
                            r = f"ret {1 if obj <= other else 0}"
                        elif op == "eq":
                            r = f"ret {1 if obj == other else 0}"
                        elif op == "disjoint":
                            r = f"ret {1 if obj.isdisjoint(other) else 0}"
                        elif op in ("and", "or", "sub", "xor"):
                            res = {"and": lambda: obj & other, "or": lambda: obj | other, "sub": lambda: obj - other,
                                   "xor": lambda: obj ^ other}[op]()
                            r = "list " + ",".join(r_of(x) for x in res)
                            if type(res) is not type(obj):
                                r += " result-is-not-a-SortedSet"
                        else:
                            if op == "ior":
                                obj |= other
                            elif op == "iand":
                                obj &= other
                            elif op == "isub":
                                obj -= other
                            else:
                                obj ^= other
                            r = "ok"
                    else:
                        r = "bad-op"
                else:
                    if op == "init":
                        pairs = [(self.val(args[i]), pyv(args[i + 1])) for i in range(0, len(args), 2)]
                        # alternate between the two initialiser forms the constructor accepts
                        if form == 5:
                            d = SortedMap(pairs)
                            obj = SortedMap(d)
                            donor[0], donor[1] = d, {frac(k): v for k, v in dict(pairs).items()}
                        elif form == 4:
                            obj = SortedMap(iter(pairs))
                        elif form == 3:
                            obj = SortedMap(tuple(pairs))
                        else:
                            obj = SortedMap(dict(pairs)) if len(pairs) % 2 == 1 else SortedMap(pairs)
                        r = "ok"
                    elif op == "get":
                        r = f"ret {codev(obj[self.val(args[0])])}"
                    elif op == "has":
                        r = f"ret {1 if self.val(args[0]) in obj else 0}"
                    elif op == "set":
                        obj[self.val(args[0])] = pyv(args[1]); r = "ok"
                    elif op == "del":
                        del obj[self.val(args[0])]; r = "ok"
                    elif op == "pop":
                        r = f"ret {codev(obj.pop(self.val(args[0])))}"
                    elif op == "popitem":
                        k, v = obj.popitem(); r = f"ret {r_of(k)}:{codev(v)}"
                    elif op == "setdefault":
                        r = f"ret {codev(obj.setdefault(self.val(args[0]), pyv(args[1])))}"
                    elif op == "update":
                        obj.update([(self.val(args[i]), pyv(args[i + 1])) for i in range(0, len(args), 2)]); r = "ok"
                    elif op == "len":
                        r = f"ret {len(obj)}"
                    elif op == "items":
                        r = "ret " + ",".join(f"{r_of(k)}:{codev(v)}" for k, v in obj.items())
                    elif op == "updre":
                        obj.update((self.val(a), obj.get(self.val(a), 100) + 1) for a in args); r = "ok"
                    elif op == "getd":
                        r = f"ret {codev(obj.get(self.val(args[0]), pyv(args[1])))}"
                    elif op == "popd":
                        r = f"ret {codev(obj.pop(self.val(args[0]), pyv(args[1])))}"
                    elif op == "haskey":
                        r = f"ret {1 if self.val(args[0]) in obj.keys() else 0}"
                    elif op == "hasitem":
                        r = f"ret {1 if (self.val(args[0]), pyv(args[1])) in obj.items() else 0}"
                    elif op == "hasvalue":
                        r = f"ret {1 if pyv(args[0]) in obj.values() else 0}"
                    elif op == "eq":
                        other = {}
                        for j in range(0, len(args), 2):
                            k = self.val(args[j])
                            kk = next((y for y in other if frac(y) == frac(k)), k)
                            other[kk] = pyv(args[j + 1])
                        r = f"ret {1 if obj == other else 0}"
                    elif op == "clear":
                        obj.clear(); r = "ok"
                    else:
                        r = "bad-op"
            except BaseException as e:  # noqa
                if isinstance(e, (KeyboardInterrupt, SystemExit)):
                    raise
                r = f"err {err_name(e)}"
            mix = None
            if r != "bad-op" and len(out) == 2:
                from .. import core as _core
                mix = _core.clone_probe(obj, (lambda o: [r_of(x) for x in o.values]) if kind == "sset" else
                                        (lambda o: ([r_of(x) for x in o.keys_storage], [codev(v) for v in o.values_storage])))
                if mix is not None:
                    mix = "copies of the object: " + mix
            if r != "bad-op" and mix is None:
                try:
                    shadow_apply(op, args, r)
                    if brng.random() < 0.2 or op == "init":
                        mix = battery()
                except Exception as e:  # noqa
                    mix = f"the battery itself failed: {err_name(e)}: {e}"
            if r != "bad-op" and mix is None and len(out) in (3, 6) and op != "init":
                # a bulk operation fed by a source that raises in the middle, with values the container already holds: whatever was
                # taken before the failure, the content is what it was (and still sorted, without duplicates)
                class _SourceFailed(Exception):
                    pass

                def _failing(items):
                    for it_ in items:
                        yield it_
                    raise _SourceFailed()

                try:
                    if kind == "sset":
                        have = list(obj)
                        try:
                            obj |= _failing(have[::-1] + have[:1])
                        except _SourceFailed:
                            pass
                    else:
                        have = list(obj.items())
                        try:
                            obj.update(_failing(have[::-1] + have[:1]))
                        except _SourceFailed:
                            pass
                except Exception as e:  # noqa
                    mix = f"a bulk update from a source that raises in the middle raised {err_name(e)} instead of the source's exception"
            donor_err = None
            if op != "init" and donor[0] is not None and drng.random() < 0.5:
                try:
                    poke_donor()
                except Exception as e:  # noqa: an ordinary operation on a numeric key never raises
                    donor_err = err_name(e)
            out.append(r if r == "bad-op" else r + " " + dump())
            if mix is not None:
                out[-1] = "mixin-mismatch " + mix + " ;; " + out[-1]
            elif donor_err is not None:
                out[-1] = f"source-object-of-the-copy-construction raised {donor_err} on an ordinary operation; " + out[-1]
            elif not donor_ok():
                out[-1] = "source-object-of-the-copy-construction-changed " + out[-1]
        return out

    # ---- oracle: builtin set / dict over ranks ----------------------------------------------------------------------------
    def oracle(self, case, impl_out):
        kind = case.meta["kind"]
        ref = set() if kind == "sset" else {}
        for i, ((op, args), line) in enumerate(zip(case.meta["impl"], impl_out)):
            a = [("f" if isinstance(x, str) else rk(POOL[x])) for x in args] if kind == "sset" or op in ("get", "has", "del", "pop") \
                else ([("f" if isinstance(args[0], str) else rk(POOL[args[0]]))] if op in ("getd", "popd", "haskey", "hasitem") else None)
            exp = "ok"
            if line.startswith("mixin-mismatch "):
                return f"op {i} {op}: inherited interface: {line[15:].split(' ;; ')[0][:600]}"
            if line.startswith("source-object-of"):
                return (f"op {i} {op}: the object the initial values were copied from no longer behaves like its own "
                        f"set / dict after the copy was used: {line[:200]!r}")
            if kind == "sset":
                if op == "init":
                    ref = set(a)
                elif op == "add":
                    ref.add(a[0])
                elif op == "discard":
                    ref.discard(a[0])
                elif op == "remove":
                    if a[0] in ref:
                        ref.remove(a[0])
                    else:
                        exp = "err KeyError"
                elif op == "pop":
                    if ref:
                        m = min(ref); exp = None  # any element may be popped by a set; SortedSet pops some element
                    else:
                        exp = "err KeyError"
                elif op == "has":
                    exp = f"ret {1 if (a[0] != 'f' and a[0] in ref) else 0}"
                elif op == "len":
                    exp = f"ret {len(ref)}"
                elif op == "clear":
                    ref = set()
                elif op in ("le", "eq", "disjoint", "and", "or", "sub", "xor", "ior", "iand", "isub", "ixor"):
                    other = set(a)
                    if op == "le":
                        exp = f"ret {1 if ref <= other else 0}"
                    elif op == "eq":
                        exp = f"ret {1 if ref == other else 0}"
                    elif op == "disjoint":
                        exp = f"ret {1 if ref.isdisjoint(other) else 0}"
                    elif op in ("and", "or", "sub", "xor"):
                        rs = {"and": ref & other, "or": ref | other, "sub": ref - other, "xor": ref ^ other}[op]
                        exp = "list " + ",".join(map(str, sorted(rs)))
                    else:
                        ref = {"ior": ref | other, "iand": ref & other, "isub": ref - other, "ixor": ref ^ other}[op]
                res, _, dump = line.rpartition(" L:")
                try:
                    got = [int(x) for x in dump.split(",")] if dump else []
                except ValueError:
                    return f"op {i} {op} {a}: content {dump[:200]!r} holds values that were never added to this set"
                if exp is None:
                    if not res.startswith("ret ") or int(res[4:]) not in ref:
                        return f"op {i} {op}: pop returned {res!r}, not an element of {sorted(ref)}"
                    ref.discard(int(res[4:]))
                elif res != exp:
                    return f"op {i} {op} {a}: result {res!r}, builtin set gives {exp!r}"
                if got != sorted(ref):
                    return f"op {i} {op} {a}: content {got}, builtin set gives {sorted(ref)} (strictly ascending)"
            else:
                def kv(j):
                    return rk(POOL[args[j]])
                if op == "init":
                    ref = {}
                    for j in range(0, len(args), 2):
                        ref[kv(j)] = args[j + 1]
                elif op == "get":
                    exp = f"ret {ref[a[0]]}" if (a[0] != "f" and a[0] in ref) else "err KeyError"
                elif op == "has":
                    exp = f"ret {1 if (a[0] != 'f' and a[0] in ref) else 0}"
                elif op == "set":
                    if isinstance(args[0], str):
                        exp = "err TypeError"
                    else:
                        ref[kv(0)] = args[1]
                elif op == "del":
                    if a[0] != "f" and a[0] in ref:
                        del ref[a[0]]
                    else:
                        exp = "err KeyError"
                elif op == "pop":
                    if a[0] != "f" and a[0] in ref:
                        exp = f"ret {ref.pop(a[0])}"
                    else:
                        exp = "err KeyError"
                elif op == "popitem":
                    exp = None if ref else "err KeyError"
                elif op == "setdefault":
                    exp = f"ret {ref.setdefault(kv(0), args[1])}"
                elif op == "update":
                    for j in range(0, len(args), 2):
                        ref[kv(j)] = args[j + 1]
                elif op == "len":
                    exp = f"ret {len(ref)}"
                elif op == "items":
                    exp = "ret " + ",".join(f"{k}:{v}" for k, v in sorted(ref.items()))
                elif op == "getd":
                    exp = f"ret {ref[a[0]] if (a[0] != 'f' and a[0] in ref) else args[1]}"
                elif op == "popd":
                    exp = f"ret {ref.pop(a[0]) if (a[0] != 'f' and a[0] in ref) else args[1]}"
                elif op == "haskey":
                    exp = f"ret {1 if (a[0] != 'f' and a[0] in ref) else 0}"
                elif op == "hasitem":
                    exp = f"ret {1 if (a[0] != 'f' and ref.get(a[0], object()) == args[1]) else 0}"
                elif op == "hasvalue":
                    exp = f"ret {1 if args[0] in ref.values() else 0}"
                elif op == "eq":
                    other = {}
                    for j in range(0, len(args), 2):
                        other[kv(j)] = args[j + 1]
                    exp = f"ret {1 if ref == other else 0}"
                elif op == "clear":
                    ref = {}
                elif op == "updre":
                    for j in range(len(args)):
                        ref[kv(j)] = ref.get(kv(j), 100) + 1
                res, _, dump = line.partition(" K:")
                ks, _, vs = dump.partition(" V:")
                try:
                    gotk = [int(x) for x in ks.split(",")] if ks else []
                    gotv = [int(x) for x in vs.split(",")] if vs else []
                except ValueError:
                    return f"op {i} {op} {args}: content {dump[:200]!r} holds keys or values that were never stored in this map"
                if exp is None:
                    try:
                        k, v = (int(x) for x in res[4:].split(":"))
                    except Exception:
                        return f"op {i} popitem: result {res!r}"
                    if ref.get(k) != v:
                        return f"op {i} popitem returned {res!r}, not an item of {ref}"
                    del ref[k]
                elif res != exp:
                    return f"op {i} {op} {args}: result {res!r}, builtin dict gives {exp!r}"
                if list(zip(gotk, gotv)) != sorted(ref.items()):
                    return f"op {i} {op} {args}: content {list(zip(gotk, gotv))}, builtin dict gives {sorted(ref.items())}"
        return None

    def key(self, case, impl_out):
        ops = [o for o, _ in case.meta["impl"]]
        if "init" in ops or sum(o in ("add", "discard", "remove", "pop", "set", "del", "popitem", "setdefault", "update")
                                for o in ops) >= 3:
            return hash(tuple(case.ops))
        return None

    def histogram(self, report, case, impl_out):
        for o, _ in case.meta["impl"]:
            report.count(f"{case.meta['kind']}:{o}")
        for line in impl_out:
            if line.startswith("err "):
                report.count("result:" + line.split()[1])

    def shrink(self, case, pred):
        # ops and impl steps are parallel lists: shrink them together
        from .. import core
        pairs = list(zip(case.ops, case.meta["impl"]))

        def fails(ps):
            c = Case([p[0] for p in ps], dict(case.meta, impl=[p[1] for p in ps]), case.label)
            impl = self.safe_impl(c)
            model = self.run_model([c])[0]
            if not self.valid(c, model, impl):
                return False
            return pred(c, model, impl)

        ps = core.ddmin(pairs, fails)
        return Case([p[0] for p in ps], dict(case.meta, impl=[p[1] for p in ps]), case.label + " (shrunk)")
