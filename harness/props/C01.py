from .poolbase import PoolProp, chooser_roles, chooser_starve
from ..poolsim import Cfg
import random


class Prop(PoolProp):
    real_scenarios = ("big_results", "factory_big_results", "none_inputs", "late_items_flow_control", "equal_items", "exception_values",
                      "two_pools_interleaved", "from_thread", "long_reorder")
    real_scenarios_quick = ("big_results", "none_inputs", "equal_items", "exception_values", "two_pools_interleaved", "from_thread", "long_reorder")
    pid = "C01"
    focus = "result"
    rule = ("configurations drawn from workers 1-4, 1-2 calls of 0-8 items, chunk size 1-3, ordered/unordered, plain/factory "
            "pools, work_queue_maxsize in {None, int, float}, results_queue_maxsize in {None,1,2,3}, lazily produced input; "
            "schedules from uniform random walks, PCT-style priority schedules, strict role priorities with worker demotion and "
            "starvation of one role (thorough: the whole role-priority family on five configurations); every step compared with "
            "the Lean model; oracle: yielded values = map(f, data) (unordered: concatenation of the mapped chunks in some order), "
            "no result chunk left in the queue; non-trivial = at least 20 steps with a non-empty call")

    def cover_cfgs(self, tier):
        cfgs = [Cfg(n_workers=1, calls=[(1, 1, True)]), Cfg(n_workers=1, calls=[(2, 2, False)], none_inputs=True)]
        if tier == "thorough":
            cfgs += [Cfg(n_workers=2, calls=[(2, 1, True)]), Cfg(n_workers=1, res_cap=1, calls=[(3, 1, True)])]
        return cfgs

    def corpus(self):
        c = Cfg(n_workers=2, calls=[(3, 1, True), (0, 1, True), (2, 1, False)])
        return [(c, ("roles", "CWRF", "never", True), chooser_roles("CWRF", "never", True), "D15: consumer tests the flags first"),
                (c, ("roles", "CFWR", "never", True), chooser_roles("CFWR", "never", True), "consumer first, feeder second"),
                (Cfg(n_workers=2, res_cap=1, calls=[(5, 2, True)]), ("roles", "WFCR", "after_put", False),
                 chooser_roles("WFCR", "after_put", False), "flow control with a full reorder buffer")]
