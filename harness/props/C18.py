# -*- coding: UTF-8 -*-
"""C18 — one opened line / map file read from many really forked processes; correspondence with Model/ForkFile.lean"""
import os

from .. import core
from ..core import Case, err_name
from ..seqcheck import SeqProp
from ..forkctl import ForkTree

VARIANTS = ["RandomLineAccessFile", "MemoryMappedRandomLineAccessFile", "MapAccessFile"]
NLINES = 12


class Prop(SeqProp):
    pid = "C18"
    model = "forkfile"
    anchors = ["windpyutils/files.py"]
    case_timeout = 120.0
    quick_cases = 150
    thorough_cases = 900
    rule = ("a file of 12 lines opened in a parent, then a tree of up to 6 really forked processes (children and "
            "grandchildren); every access is split into its seek and its read by wrappers around the handle inside the forked "
            "processes, and the orchestrator interleaves them: seeks and reads of other processes and forks are placed between "
            "the seek and the read of a process; all three variants (buffered, memory-mapped, MapAccessFile), accesses by "
            "index and by steps of a process's own `for line in f` iteration (also as its first access after the fork), plus "
            "sequential `next line` reads for the line files; every line read is compared with the Lean model and with the requested line; "
            "non-trivial = at least two processes with an access overlapping another one")
    trusted_base = ["Lean 4.33.0 kernel", "axioms: propext, Classical.choice, Quot.sound (audited per theorem)",
                    "hand-written model Model/ForkFile.lean tied to files.py by this correspondence run on real forks and real "
                    "file descriptors",
                    "modelled, not verified: POSIX fork/open/lseek/read (a description's offset is shared by parent and child, "
                    "a new open gives a new description, closing in the child does not affect the parent), pids are not reused "
                    "while a handle recorded under them is alive; mmap position is process memory"]
    assumptions = ["the file was opened in the parent before the first fork", "the wrappers around the handles add no behaviour "
                   "besides stopping after a seek"]
    scratch = None

    def main(self, tier, seed, replay=None):
        try:
            return SeqProp.main(self, tier, seed, replay)
        finally:
            if self.scratch is not None:
                core.cleanup_dir(self.scratch)
                self.scratch = None

    # a multi-threaded parent (harness/forkthread.py): a child is forked while another thread of the parent stands between the seek
    # and the read of an access; oracle only (the model's processes are single-threaded)
    def extra_scenarios(self, rng, tier):
        out = [{"kind": "threaded-parent", "variant": v, "seed": rng.randrange(1 << 30)}
               for _ in range(1 if tier == "quick" else 6) for v in VARIANTS]
        # a forked child without a file descriptor to spare (harness/forklimit.py): it must give up the inherited handle before
        # it opens its own
        out += [{"kind": "no-spare-descriptor", "variant": v, "seed": rng.randrange(1 << 30)}
                for _ in range(1 if tier == "quick" else 4) for v in VARIANTS]
        return out

    def run_extra(self, desc):
        import signal
        import subprocess
        import sys as _sys
        outcomes = []
        for attempt in range(2):
            module = "harness.forklimit" if desc["kind"] == "no-spare-descriptor" else "harness.forkthread"
            p = subprocess.Popen([_sys.executable, "-W", "ignore", "-m", module, desc["variant"], str(desc["seed"])],
                                 cwd=core.VERIF, stdout=subprocess.PIPE, stderr=subprocess.STDOUT, text=True,
                                 start_new_session=True)
            try:
                out, _ = p.communicate(timeout=60)
                outcomes.append(None if (p.returncode == 0 and "DONE" in out) else out.strip()[-400:])
            except subprocess.TimeoutExpired:
                outcomes.append("the scenario did not finish within 60 s")
            finally:
                try:
                    os.killpg(p.pid, signal.SIGKILL)
                except Exception:
                    pass
                try:
                    p.communicate(timeout=5)
                except Exception:
                    pass
            if outcomes[-1] is None:
                return None
        return f"{desc['variant']}, twice out of two runs: {outcomes[-1]}"

    def corpus(self):
        cs = [Case(["fork 0", "seek 0 3", "seek 1 7", "read 0", "read 1", "fork 1", "seek 2 5", "seek 1 1", "seek 0 9",
                    "read 1", "read 2", "read 0"], {"variant": v}, "parent, child and grandchild interleaved") for v in VARIANTS]
        # a child whose first access after the fork is iteration, interleaved with the parent's random access
        for v in VARIANTS[:2]:
            cs.append(Case(["fork 0", "seek 1 0", "seek 0 8", "read 1", "read 0", "seek 1 1", "seek 0 5", "read 0", "read 1"],
                           {"variant": v, "iter_ops": [1, 5]}, "child iterates first"))
        for v in VARIANTS:
            cs.append(Case(["fork 0", "seek 1 3", "seek 0 8", "read 0", "read 1", "seek 0 2", "seek 1 6", "read 1", "read 0"],
                           {"variant": v, "noops": {"1": [[1, 0]]}}, "child calls open() on the inherited object first"))
        return cs

    def gen(self, rng, n, tier):
        for _ in range(n):
            variant = rng.choice(VARIANTS)
            ops = []
            nprocs = 1
            paused = {}   # proc -> line
            last = {}     # proc -> last line read (for `next`)
            itpos = {}    # proc -> position of its own `for line in f` iteration (line files only)
            iter_ops = []
            noops = {}
            # an iteration (`it = iter(f)`) that was started before a fork is continued by the parent and by the child, each from
            # where it stood at the fork; the file is larger than the handle's buffer then
            inherit = variant != "MapAccessFile" and rng.random() < 0.3
            for _ in range(rng.randint(4, 30)):
                r = rng.random()
                idle = [p for p in range(nprocs) if p not in paused]
                if idle and rng.random() < 0.12:
                    # open() on an opened object (documented as an empty operation), len(), .closed — by any process,
                    # also as a forked child's very first call on the inherited object
                    noops.setdefault(str(len(ops)), []).append([rng.choice(idle), rng.choice([0, 0, 1, 2])])
                if r < 0.15 and nprocs < 6 and idle:
                    par = rng.choice(idle)
                    ops.append(f"fork {par}"); nprocs += 1
                    if inherit and par in itpos:
                        itpos[nprocs - 1] = itpos[par]  # the child goes on with the iteration its parent had started
                    if rng.random() < 0.3:
                        noops.setdefault(str(len(ops)), []).append([nprocs - 1, 0])
                elif r < 0.25 and idle and variant != "MapAccessFile" and any(itpos.get(p, 0) < NLINES for p in idle):
                    # a step of the process's own iteration (possibly its very first access after the fork)
                    p = rng.choice([q for q in idle if itpos.get(q, 0) < NLINES])
                    line = itpos.get(p, 0)
                    iter_ops.append(len(ops))
                    ops.append(f"seek {p} {line}"); paused[p] = line; itpos[p] = line + 1
                elif r < 0.55 and idle:
                    p = rng.choice(idle); line = rng.randrange(NLINES)
                    ops.append(f"seek {p} {line}"); paused[p] = line
                elif r < 0.9 and paused:
                    p = rng.choice(sorted(paused))
                    ops.append(f"read {p}"); last[p] = paused.pop(p)
                elif variant != "MapAccessFile" and idle:
                    cand = [p for p in idle if p in last and last[p] + 1 < NLINES and p not in itpos]
                    if cand:
                        p = rng.choice(cand)
                        ops.append(f"read {p}"); last[p] += 1
            for p in sorted(paused):
                ops.append(f"read {p}")
            meta = {"variant": variant, "iter_ops": iter_ops, "noops": noops}
            if inherit:
                meta["inherit_iter"] = True
            yield Case(ops, meta)

    def run_impl(self, case):
        if self.scratch is None:
            self.scratch = core.scratch_dir()
        path = os.path.join(self.scratch, "forkfile.txt")
        # carriage returns (CRLF-style endings and a lone one inside a line) and multi-byte characters are ordinary content
        # (MapAccessFile reads through universal newlines in a single process too: its file has no carriage returns)
        sfx = ["", " \u00e9", "", " \u00e9\u6f22"] if case.meta["variant"] == "MapAccessFile" else ["", "\r", "\rx", " \u00e9\u6f22"]
        lines = [f"L{i}" + sfx[i % 4] for i in range(NLINES)]
        if case.meta.get("inherit_iter"):
            lines = [f"L{i} " + "xyz\u00e9"[i % 4] * (1500 + 37 * i) + sfx[i % 4] for i in range(NLINES)]  # about 20 KiB
        with open(path, "wb") as fh:
            fh.write("".join(l + "\n" for l in lines).encode("utf-8"))
        form = len(case.ops) % 4 if len(case.ops) > 4 else 0
        if form in (1, 2):
            # the same file under another spelling of its path: through a symbolic link to a directory and `..` (what the
            # kernel resolves differs from what collapsing `dir/..` textually gives — a file with other lines lives there),
            # or relative to the working directory of the process tree's root
            real = os.path.join(self.scratch, "store", "v3", "out")
            os.makedirs(real, exist_ok=True)
            os.makedirs(os.path.join(self.scratch, "data"), exist_ok=True)
            link = os.path.join(self.scratch, "data", "current")
            if not os.path.islink(link):
                os.symlink(real, link)
            target = os.path.join(self.scratch, "store", "v3", "forkfile.txt")
            os.replace(path, target)
            with open(os.path.join(self.scratch, "data", "forkfile.txt"), "wb") as fh:
                fh.write("".join(f"decoy {i}\n" for i in range(NLINES)).encode("utf-8"))
            path = os.path.join(link, "..", "forkfile.txt")
            if form == 2:
                # (os.path.relpath of the whole path would collapse `current/..` textually)
                path = os.path.join(os.path.relpath(link, os.getcwd()), "..", "forkfile.txt")
        tree = ForkTree(case.meta["variant"], path, lines)
        tree.keep_iter = bool(case.meta.get("inherit_iter"))
        iter_ops = set(case.meta.get("iter_ops", []))
        out = []
        paused = set()
        try:
            tree.start()
            noops = case.meta.get("noops", {})
            for op in case.ops:
                w = op.split()
                try:
                    for k, kind in noops.get(str(len(out)), []):
                        if k not in paused:
                            r = tree.noop(k, kind)
                            if r[0] != "ok":
                                raise RuntimeError(f"open()/len()/closed on the opened object failed in process {k}: {r}")
                    if w[0] == "fork":
                        tree.fork(int(w[1])); out.append("ok")
                    elif w[0] == "seek":
                        if len(out) in iter_ops:
                            r = tree.seek_iter(int(w[1]))
                        else:
                            r = tree.seek(int(w[1]), int(w[2]))
                        if r[0] == "ok":
                            paused.add(int(w[1])); out.append("ok")
                        else:
                            out.append(f"err {r}")
                    elif w[0] == "read":
                        k = int(w[1])
                        if k in paused:
                            r = tree.read(k); paused.discard(k)
                        else:
                            r = tree.next(k)
                        if r[0] == "ret":
                            text = r[1][:-1] if r[1].endswith("\n") else r[1]
                            out.append("ret " + (str(lines.index(text)) if text in lines else "?" + repr(r[1])))
                        else:
                            out.append(f"err {r}")
                    else:
                        out.append("bad-op")
                except TimeoutError as e:
                    out.append(f"timeout {e}")
                except RuntimeError as e:
                    out.append(f"err {e}")
        finally:
            tree.stop()
        while len(out) < len(case.ops):
            out.append("aborted")
        return out

    def oracle(self, case, impl_out):
        pending, last = {}, {}
        for i, (op, line) in enumerate(zip(case.ops, impl_out)):
            w = op.split()
            if w[0] == "seek":
                pending[int(w[1])] = int(w[2])
                exp = "ok"
            elif w[0] == "read":
                k = int(w[1])
                if k in pending:
                    want = pending.pop(k)
                else:
                    want = last[k] + 1
                last[k] = want
                exp = f"ret {want}"
            else:
                exp = "ok"
            if line != exp:
                return (f"op {i} `{op}` ({case.meta['variant']}): process got {line!r}, alone it would get {exp!r}")
        return None

    def key(self, case, impl_out):
        return hash((case.meta["variant"],) + tuple(case.ops)) if sum(o.startswith("fork") for o in case.ops) >= 1 else None

    def histogram(self, report, case, impl_out):
        report.count("variant:" + case.meta["variant"])
        report.count(f"procs:{1 + sum(o.startswith('fork') for o in case.ops)}")

    def shrink(self, case, pred):
        return case
