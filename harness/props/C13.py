# -*- coding: UTF-8 -*-
"""C13 — records: correspondence of CSVRecord/TSVRecord/JsonRecord and the record files with Model/Records.lean"""
import math
import os
import random
from dataclasses import dataclass
from typing import Any

from .. import core
from ..core import Case, err_name, enc_str, dec_str
from ..seqcheck import SeqProp

ALPHA = [",", "\t", '"', "\\", " ", "a", "b", "é", "漢", "'", ";", "|", "0", "-", "𝄞", "\x0b", "\x1c", " ", "\x85"]
_CLS = {}


def classes(fresh=False):
    """fresh=True: new classes (the Record helpers keep per-class state; every case starts from unused classes, so both orders
    of first use — base class first, derived class first — occur)"""
    if fresh:
        _CLS.clear()
    if not _CLS:
        from windpyutils.files import CSVRecord, TSVRecord, JsonRecord

        @dataclass
        class C2(CSVRecord):
            a: str
            b: str

        @dataclass
        class T3(TSVRecord):
            a: str
            b: str
            c: str

        @dataclass
        class C1(CSVRecord):
            a: str

        @dataclass
        class CT(CSVRecord):
            i: int
            x: float
            s: str

        @dataclass
        class TT(TSVRecord):
            s: str
            i: int
            x: float

        @dataclass
        class CO(CSVRecord):
            # annotations given as strings (as under `from __future__ import annotations`); the class says itself how the
            # columns are converted, through the public classmethod meant for it
            i: "int"
            x: "float"
            s: "str"

            @classmethod
            def field_types(cls):
                return [int, float, str]

        @dataclass(slots=True)
        class CS(CSVRecord):
            # a record class with slots (`@dataclass(slots=True)`): its fields are not in the instance dictionary
            i: int
            x: float
            s: str

        @dataclass(slots=True)
        class JS(JsonRecord):
            i: Any
            x: Any
            s: Any

        @dataclass
        class J(JsonRecord):
            a: Any
            b: Any
            c: Any

        # record classes derived from concrete record classes (extra fields need defaults)
        @dataclass
        class C3D(C2):
            c: str = "dflt"

        @dataclass
        class T4D(T3):
            d: str = ""

        @dataclass
        class CTD(CT):
            t: str = "t"

        @dataclass
        class JD(J):
            d: Any = None

        _CLS.update(C2=C2, T3=T3, C1=C1, CT=CT, TT=TT, CO=CO, CS=CS, JS=JS, J=J, C3D=C3D, T4D=T4D, CTD=CTD, JD=JD)
    return _CLS


STRCLS = {"C2": ("c", 2), "T3": ("t", 3), "C1": ("c", 1), "C3D": ("c", 3), "T4D": ("t", 4)}
BYARITY = {v: k for k, v in STRCLS.items()}


def gen_str(rng, maxlen=6):
    return "".join(rng.choice(ALPHA) for _ in range(rng.choice([0, 0, 1, 2, 3, maxlen])))


def gen_float(rng):
    return rng.choice([0.0, -0.0, 1.5, 1e-300, 1e300, math.inf, -math.inf, 0.1, 1 / 3, 2 ** 53 + 2.0, -123456.789e-20,
                       rng.random() * 10 ** rng.randint(-5, 5)])


def gen_json(rng, depth=0):
    r = rng.random()
    if depth > 2 or r < 0.5:
        return rng.choice([gen_str(rng), rng.randint(-10 ** 6, 10 ** 6), 2 ** 70, gen_float_finite(rng), True, False, None,
                           "line\nbreak\r ", ""])
    if r < 0.75:
        return [gen_json(rng, depth + 1) for _ in range(rng.randint(0, 3))]
    return {gen_str(rng, 3): gen_json(rng, depth + 1) for _ in range(rng.randint(0, 3))}


# ---- the JSON library model (Model/Json.lean) against CPython's json ---------------------------------------------------
FTAG = "\x00\x01F"  # marks a float lexeme while it travels through Python as a string (never generated inside real strings)


def json_text_variants(rng, v):
    """texts that denote the value v: compact, indented, non-ASCII kept raw, random whitespace at the legal places"""
    import json
    r = rng.random()
    if r < 0.3:
        return json.dumps(v, separators=(",", ":"))
    if r < 0.5:
        return json.dumps(v, ensure_ascii=False, indent=rng.choice([None, 0, 1, 3]))
    if r < 0.7:
        return json.dumps(v, ensure_ascii=False, separators=(rng.choice([",", " , ", ",\n"]), rng.choice([":", ": ", " :\t"])))
    t = json.dumps(v, ensure_ascii=rng.random() < 0.5)
    return rng.choice(["", " ", "\n\t"]) + t + rng.choice(["", " ", "\r\n"])


JSON_EDGE_TEXTS = ["01", "1.", ".5", "-", "-0", "0", "-0.0", "1e5", "1E+5", "1e-05", "1.0e1", "[1,]", '{"a":1,}', "[,1]", "{}", "[]",
                   '{"a":1,"b":2,"a":3}', '"\\u00e9"', '"\\u00E9\\/"', '"\\ud83d\\ude00"', '"\\x"', '"a\tb"', '"\\u12"', "nul",
                   "true false", "[1 2]", '{"a" 1}', '{1:2}', "[[[[]]]]", '{"":{"":{}}}', ' [ 1 , 2 ] ', '"\u007f"', '"\u00e9"',
                   '"\U0001F600"', "1e400", "123456789012345678901234567890", "-1.5E-7", "[1.0,2.50,3e0]", "", " ", '"', '"abc',
                   "[", "{", '{"a":', "tru", "truee", "null,", "0x10", "+1", "1e", "1e+", "--1", "0.0.0", '"\\"', '"\\\\"']


def py_json_canonical(text):
    """what CPython's json makes of a text, as the compact dump with every float kept as the lexeme it had in the text;
    None when json.loads rejects the text or the result is outside the modelled domain (NaN/Infinity literals, lone
    surrogates)"""
    import json
    import re

    def no_const(s):
        raise ValueError("constant " + s)

    try:
        obj = json.loads(text, parse_float=lambda s: FTAG + s, parse_constant=no_const)
        dump = json.dumps(obj, separators=(",", ":"))
    except (ValueError, RecursionError):
        return None
    if re.search(r"\\ud[89ab][0-9a-f]{2}(?!\\ud[c-f][0-9a-f]{2})", dump) or re.search(r"(?<!\\ud[89ab][0-9a-f]{2})\\ud[c-f][0-9a-f]{2}", dump):
        return None  # a lone surrogate: not a Unicode scalar value, outside the model's `Char`
    return re.sub(r'"\\u0000\\u0001F([-+0-9.eE]+)"', r"\1", dump)


def gen_float_finite(rng):
    x = gen_float(rng)
    return x if math.isfinite(x) else 2.5


class Prop(SeqProp):
    pid = "C13"
    model = "records"
    anchors = ["windpyutils/files.py"]
    quick_cases = 1500
    thorough_cases = 12000
    rule = ("string records over an alphabet of delimiter, tab, quote, backslash, blank, non-ASCII, unicode line separators "
            "and empty strings: Lean csv writer vs CSVRecord/TSVRecord.save and Lean reader vs load on every generated row (with "
            "terminator, with the trailing \\r a saved record file leaves, and bare); runs of consecutive saves across three "
            "classes sharing the class-level buffer; typed records (int, float incl. 1e-300/-0.0/inf, str); JSON records "
            "(strings incl. raw line breaks, big ints, finite floats, bools, None, nested lists/dicts); record files edited, saved "
            "and reopened in both flavours; record classes derived from concrete record classes (fresh classes per case, both "
            "orders of first use); the JSON model: texts denoting random values (compact, indented, raw non-ASCII, legal "
            "whitespace) encoded by the model vs json.dumps resp. JsonRecord.save for record-shaped values, and the model's parser vs "
            "json.loads on valid texts, texts with one character damaged and 57 edge cases; non-trivial = a row with a special "
            "character or a typed/json/file round trip")
    trusted_base = ["Lean 4.33.0 kernel", "axioms: propext, Classical.choice, Quot.sound (audited per theorem)",
                    "hand-written model Model/Records.lean (csv QUOTE_MINIMAL writer, csv reader state machine, StringIO) tied to "
                    "files.py and to the csv module by this correspondence run",
                    "hand-written model Model/Json.lean of json.dumps(separators=(',',':')) / json.loads (round trip and "
                    "single-line proved in Lean) tied to CPython's json module and to JsonRecord.save by this run (ops jenc / jdec)",
                    "assumed library behaviour: int(str(i)) == i; float(repr(x)) == x for non-NaN floats; a float travels through "
                    "JSON as its repr (checked by the run, not proved)"]
    assumptions = ["CSV/TSV string fields contain no \\r or \\n", "floats are not NaN (JSON: finite)"]
    scratch = None

    def main(self, tier, seed, replay=None):
        try:
            return SeqProp.main(self, tier, seed, replay)
        finally:
            if self.scratch is not None:
                core.cleanup_dir(self.scratch)
                self.scratch = None

    def corpus(self):
        e = enc_str
        return [Case([f"save c {e('a,b')} {e('')}", f"save t {e('x')} {e(chr(9))} {e('q' + chr(34))}", f"save c {e('')}",
                      f"save c {e(' lead')} {e('trail ')}", f"write c {e('')}", f"parse c {e(chr(34) * 2 + chr(13))}",
                      f"parse c {e('a,' + chr(34) + 'b' + chr(34) * 2 + ',' + chr(34) + ',c')}", "typed 1", "json 1", "recfile 1"],
                     {}, "quoting, lone empty field, shared buffer")]

    # ---- mutable record files of CSV records with k string fields: the Lean machine `recfile` (Model/RecFile.lean) ----------
    def gen_recfile_case(self, rng):
        e = enc_str
        k = rng.choice([1, 2, 2, 3])

        def fields(n=None):
            return [gen_str(rng).replace("\r", "").replace("\n", "") for _ in range(k if n is None else n)]

        def line_of(fs):
            q = rng.random()
            if q < 0.5:
                import csv, io
                b = io.StringIO()
                csv.writer(b, delimiter=",").writerow(fs)
                return b.getvalue().rstrip("\r\n")
            return ",".join('"' + f.replace('"', '""') + '"' for f in fs)  # every field quoted, needed or not

        lines = []
        known = []  # field lists that occur in the file: later records and probes are often equal to one of them
        _fields = fields

        def fields(n=None):
            if n is None and known and rng.random() < 0.4:
                return list(rng.choice(known))
            return _fields(n)

        for _ in range(rng.choice([0, 1, 2, 3, 5])):
            q = rng.random()
            n = k if q < 0.8 else (k + 1 if q < 0.9 else max(0, k - 1))  # a surplus field is dropped, a missing one raises
            fl = _fields(n) if (n != k or not known or rng.random() < 0.7) else list(rng.choice(known))
            if n == k:
                known.append(fl)
            lines.append(line_of(fl))
        lines = [l for l in lines if "\n" not in l and "\r" not in l]
        content = "".join(l + "\n" for l in lines)
        if lines and rng.random() < 0.2:
            content = content[:-1]  # unterminated last line
        ops = [f"fields {k}", "open " + e(content), "recs"]
        cur = len(lines)
        for _ in range(rng.randint(2, 14)):
            q = rng.random()
            ri = lambda: rng.randint(-cur - 1, cur + 1)
            fs = " ".join(e(f) for f in fields())
            if q < 0.14:
                ops.append(f"set {ri()} {fs}")
            elif q < 0.28:
                ops.append(f"insert {ri()} {fs}"); cur += 1
            elif q < 0.4:
                ops.append(f"append {fs}"); cur += 1
            elif q < 0.5:
                ops.append(f"del {ri()}"); cur = max(0, cur - 1)
            elif q < 0.58:
                ops.append(rng.choice(["pop", f"pop {ri()}"])); cur = max(0, cur - 1)
            elif q < 0.68:
                ops.append("reverse")
            elif q < 0.78:
                ops.append(f"get {ri()}")
            elif q < 0.82:
                ops.append("recs")
            elif q < 0.88:
                # the inherited Sequence / MutableSequence interface (Model/RecFileSeq.lean): the comparison is on records,
                # so a needlessly quoted source line equals the plainly written record
                probe = fs
                b = lambda: rng.choice(["-", str(ri())])
                ops.append(rng.choice([f"index {probe}", f"index {probe} @ {b()}", f"index {probe} @ {b()} {b()}", f"count {probe}",
                                       f"has {probe}", f"remove {probe}", f"remove {probe}"]))
            elif q < 0.9:
                ops.append("len")
            elif q < 0.94:
                ops.append("slots")
            else:
                ops.append("save " + e(rng.choice(["\n", "\n", "\r\n", "\t", ""])))
        ops += ["recs", "slots", "save " + e("\n")]
        return Case(ops, {"machine": "recfile", "variant": rng.choice(["MutableRecordFile", "MutableMemoryMappedRecordFile"])
                          if content else "MutableRecordFile"})

    def run_recfile_impl(self, case):
        """the real mutable record file classes, line by line against the machine `recfile`"""
        import csv
        from dataclasses import make_dataclass
        from windpyutils import files
        e = enc_str
        out = []
        f = None
        R = None
        k = 2
        offs = {}
        src = self.path("recm_src.txt")
        dst = self.path("recm_dst.txt")

        def mkclass(k):
            return make_dataclass(f"RecM{k}", [(f"f{j}", str) for j in range(k)], bases=(files.CSVRecord,))

        def show(r):
            return ",".join(e(getattr(r, f"f{j}")) for j in range(k))

        def mk(ws):
            fs = [dec_str(w) for w in ws]
            return R(*fs) if len(fs) == k else None

        def errname(ex):
            if isinstance(ex, csv.Error):
                return "Error"
            return err_name(ex)

        try:
            for op in case.ops:
                w = op.split()
                try:
                    if w[0] == "fields":
                        k = int(w[1]); R = mkclass(k); out.append("ok")
                    elif w[0] == "open":
                        if f is not None:
                            f.close()
                        text = dec_str(w[1])
                        with open(src, "w", newline="", encoding="utf-8") as fh:
                            fh.write(text)
                        # byte offset of every line of the source -> its number (an untouched position holds the offset)
                        offs, o = {}, 0
                        for ln in text.split("\n")[:(-1 if text.endswith("\n") or text == "" else None)]:
                            offs[o] = len(offs)
                            o += len((ln + "\n").encode("utf-8"))
                        f = getattr(files, case.meta.get("variant", "MutableRecordFile"))(src, R)
                        f.open(); out.append("ok")
                    elif w[0] == "len":
                        out.append(f"ret {len(f)}")
                    elif w[0] == "get":
                        out.append("ret " + show(f[int(w[1])]))
                    elif w[0] == "set":
                        f[int(w[1])] = mk(w[2:]); out.append("ok")
                    elif w[0] == "insert":
                        f.insert(int(w[1]), mk(w[2:])); out.append("ok")
                    elif w[0] == "append":
                        f.append(mk(w[1:])); out.append("ok")
                    elif w[0] == "del":
                        del f[int(w[1])]; out.append("ok")
                    elif w[0] == "pop":
                        out.append("ret " + show(f.pop(int(w[1])) if len(w) > 1 else f.pop()))
                    elif w[0] == "reverse":
                        f.reverse(); out.append("ok")
                    elif w[0] == "index":
                        fw = w[1:w.index("@")] if "@" in w else w[1:]
                        bounds = w[w.index("@") + 1:] if "@" in w else []
                        args = [mk(fw)]
                        if len(bounds) >= 1:
                            args.append(0 if bounds[0] == "-" else int(bounds[0]))
                        if len(bounds) >= 2 and bounds[1] != "-":
                            args.append(int(bounds[1]))
                        out.append(f"ret {f.index(*args)}")
                    elif w[0] == "count":
                        out.append(f"ret {f.count(mk(w[1:]))}")
                    elif w[0] == "has":
                        out.append(f"ret {1 if mk(w[1:]) in f else 0}")
                    elif w[0] == "remove":
                        f.remove(mk(w[1:])); out.append("ok")
                    elif w[0] == "clear":
                        f.clear(); out.append("ok")
                    elif w[0] == "recs":
                        items = []
                        for i in range(len(f)):
                            try:
                                items.append(show(f[i]))
                            except (csv.Error, TypeError):
                                items.append("?")
                        out.append("list " + "|".join(items))
                    elif w[0] == "slots":
                        ls = getattr(f, "_lines", None)
                        if not isinstance(ls, list):
                            out.append("wf:absent")
                        else:
                            out.append("list " + ",".join((f"s{offs[x]}" if x in offs else f"s?{x}") if isinstance(x, int)
                                                          else "t" + e(x) for x in ls))
                    elif w[0] == "save":
                        le = dec_str(w[1])
                        if os.path.exists(dst):
                            os.remove(dst)
                        f.save(dst, le) if le != "\n" else f.save(dst)
                        with open(dst, "r", newline="", encoding="utf-8") as fh:
                            out.append("ret " + e(fh.read()))
                    else:
                        out.append("bad-op")
                except BaseException as ex:  # noqa
                    if isinstance(ex, (KeyboardInterrupt, SystemExit)):
                        raise
                    out.append(f"err {errname(ex)}")
        finally:
            if f is not None:
                try:
                    f.close()
                except Exception:
                    pass
        return out

    def first_diff(self, model_out, impl_out):
        # `slots` looks at a private attribute (which positions still point into the source file): when it is not there any
        # more nothing is compared — what `save` writes for those positions is compared in any case
        for i, (a, b) in enumerate(zip(model_out, impl_out)):
            if a != b and b != "wf:absent":
                return i
        return None

    def observable_kind(self, case, i, model_line, impl_line):
        if case.meta.get("machine") == "recfile" and case.ops[i].startswith("slots"):
            return "MO"
        return "PO"

    def oracle_recfile(self, case, impl_out):
        """the property on the implementation's run: the file presents the list of records a Python list would hold after the
        same edits (records read from a source line = what the csv module reads from it), IndexError where a list raises, and
        the file saved with '\n' reopens to the same records"""
        import csv
        k = 2
        ref = None  # list of field lists; None inside = a line that does not load

        def load(line):
            try:
                row = next(iter(csv.reader([line], delimiter=",")), [])
            except csv.Error:
                return None
            return list(row[:k]) if len(row) >= k else None

        def show(r):
            return "?" if r is None else ",".join(enc_str(x) for x in r)

        def idx(i, n):
            return i + n if i < 0 else i

        for i, (op, line) in enumerate(zip(case.ops, impl_out)):
            w = op.split()
            if w[0] == "fields":
                k = int(w[1])
            elif w[0] == "open":
                text = dec_str(w[1])
                lines = text.split("\n")
                if lines and lines[-1] == "":
                    lines.pop()
                ref = [load(l) for l in lines]
            elif ref is None:
                continue
            elif w[0] == "len":
                if line != f"ret {len(ref)}":
                    return f"op {i} len: {line!r}, a list holds {len(ref)}"
            elif w[0] == "recs":
                exp = "list " + "|".join(show(r) for r in ref)
                if line != exp:
                    return f"op {i} recs: the file presents {line!r}, the list of records is {exp!r}"
            elif w[0] in ("get", "pop"):
                j = int(w[1]) if len(w) > 1 else -1
                p = idx(j, len(ref))
                if not 0 <= p < len(ref):
                    if line != "err IndexError":
                        return f"op {i} `{op}`: {line!r}, a list raises IndexError"
                elif ref[p] is None:
                    if not line.startswith("err "):
                        return f"op {i} `{op}`: {line!r} for a line that does not load"
                else:
                    if line != "ret " + show(ref[p]):
                        return f"op {i} `{op}`: {line!r}, the list holds {show(ref[p])!r} there"
                    if w[0] == "pop":
                        del ref[p]
            elif w[0] == "set":
                p = idx(int(w[1]), len(ref))
                if 0 <= p < len(ref):
                    if line != "ok":
                        return f"op {i} `{op}`: {line!r}"
                    ref[p] = [dec_str(x) for x in w[2:]]
                elif line != "err IndexError":
                    return f"op {i} `{op}`: {line!r}, a list raises IndexError"
            elif w[0] == "insert":
                if line != "ok":
                    return f"op {i} `{op}`: {line!r}"
                ref.insert(int(w[1]), [dec_str(x) for x in w[2:]])
            elif w[0] == "append":
                if line != "ok":
                    return f"op {i} `{op}`: {line!r}"
                ref.append([dec_str(x) for x in w[1:]])
            elif w[0] == "del":
                p = idx(int(w[1]), len(ref))
                if 0 <= p < len(ref):
                    if line != "ok":
                        return f"op {i} `{op}`: {line!r}"
                    del ref[p]
                elif line != "err IndexError":
                    return f"op {i} `{op}`: {line!r}, a list raises IndexError"
            elif w[0] in ("index", "count", "has", "remove"):
                if any(r is None for r in ref):
                    # a line that does not load may raise its load error first: which call meets it is the model's business
                    if w[0] == "remove" and line == "ok":
                        ref = None
                    continue
                fw = w[1:w.index("@")] if "@" in w else w[1:]
                bounds = w[w.index("@") + 1:] if "@" in w else []
                rec = [dec_str(x) for x in fw]
                if w[0] == "index":
                    args = [rec]
                    if len(bounds) >= 1:
                        args.append(0 if bounds[0] == "-" else int(bounds[0]))
                    if len(bounds) >= 2 and bounds[1] != "-":
                        args.append(int(bounds[1]))
                    try:
                        exp = f"ret {ref.index(*args)}"
                    except ValueError:
                        exp = "err ValueError"
                elif w[0] == "count":
                    exp = f"ret {ref.count(rec)}"
                elif w[0] == "has":
                    exp = f"ret {1 if rec in ref else 0}"
                else:
                    if rec in ref:
                        ref.remove(rec); exp = "ok"
                    else:
                        exp = "err ValueError"
                if line != exp:
                    return f"op {i} `{op}`: {line!r}, the list of records gives {exp!r}"
            elif w[0] == "clear":
                if line == "ok":
                    ref = []
                else:
                    ref = None
            elif w[0] == "reverse":
                if line == "ok":
                    ref.reverse()
                elif all(r is not None for r in ref):
                    return f"op {i} reverse: {line!r} although every line loads"
                else:
                    ref = None  # an exception half-way leaves a partially reversed file: what follows is the model's business
            elif w[0] == "save" and dec_str(w[1]) == "\n" and line.startswith("ret ") and all(r is not None for r in ref):
                text = dec_str(line[4:])
                lines = text.split("\n")
                if lines and lines[-1] == "":
                    lines.pop()
                back = [load(l) for l in lines]
                if back != ref:
                    return (f"op {i} save: the saved file {text!r} reopens to {back}, the file held {ref}")
        return None

    def gen(self, rng, n, tier):
        e = enc_str
        for k in range(n):
            if rng.random() < 0.18:
                yield self.gen_recfile_case(rng)
                continue
            ops = []
            for _ in range(rng.randint(4, 14)):
                r = rng.random()
                if r < 0.45:
                    name = rng.choice(list(STRCLS))
                    d, m = STRCLS[name]
                    ops.append(f"save {d} " + " ".join(e(gen_str(rng)) for _ in range(m)))
                elif r < 0.6:
                    # reader on rows as they come back from files: bare, with \r, with \r\n; also hand-written quoted rows
                    d = rng.choice(["c", "t"])
                    dc = "," if d == "c" else "\t"
                    fields = [gen_str(rng) for _ in range(rng.randint(1, 3))]
                    row = dc.join(('"' + f.replace('"', '""') + '"') if (rng.random() < 0.5 or dc in f or '"' in f) else f
                                  for f in fields)
                    if row == "":
                        row = '""'
                    ops.append(f"parse {d} {e(row + rng.choice(['', chr(13), chr(13) + chr(10)]))}")
                elif r < 0.75:
                    ops.append(f"typed {rng.randrange(10 ** 9)}")
                elif r < 0.8:
                    ops.append(f"json {rng.randrange(10 ** 9)}")
                elif r < 0.86:
                    # the JSON model: encode . decode on a text that denotes a random value; every second value has the shape of
                    # a JsonRecord of the harness (fields a, b, c [, d]) — then the real `save()` is what is compared
                    v = gen_json(rng)
                    if rng.random() < 0.5:
                        v = {k: gen_json(rng, 1) for k in (["a", "b", "c"] + (["d"] if rng.random() < 0.4 else []))}
                    ops.append("jenc " + e(json_text_variants(rng, v)))
                elif r < 0.92:
                    # the JSON library model as a parser: valid texts, texts with one character damaged, edge cases
                    q = rng.random()
                    if q < 0.4:
                        t = json_text_variants(rng, gen_json(rng))
                    elif q < 0.7:
                        t = json_text_variants(rng, gen_json(rng))
                        if t:
                            k = rng.randrange(len(t))
                            t = t[:k] + rng.choice(["", ",", "]", "}", '"', "\\", "0", "e", " ", "-", ".", "\n", "a"]) + t[k + rng.choice([0, 1]):]
                    else:
                        t = rng.choice(JSON_EDGE_TEXTS)
                    ops.append("jdec " + e(t))
                else:
                    ops.append(f"recfile {rng.randrange(10 ** 9)}")
            yield Case(ops, {})

    # ---- implementation ------------------------------------------------------------------------------------------------
    def path(self, name):
        if self.scratch is None:
            self.scratch = core.scratch_dir()
        return os.path.join(self.scratch, name)

    def run_impl(self, case):
        if case.meta.get("machine") == "recfile":
            return self.run_recfile_impl(case)
        cl = classes(fresh=True)
        out = []

        def out_of_domain(k):
            """calls with values outside the property's domain, between the operations: whatever they return or raise, the
            operations that follow are not affected (the record classes share a class-level buffer)"""
            pokes = [lambda: cl["C2"]("two\nlines", "x").save(), lambda: cl["T3"]("a", "cr\rinside", "b").save(),
                     lambda: cl["C2"](None, 5).save(), lambda: cl["C1"].load('"unterminated'), lambda: cl["T3"].load("too\tfew"),
                     lambda: cl["J"].load("{not json"), lambda: cl["J"](float("nan"), {1, 2}, object()).save()]
            try:
                pokes[k % len(pokes)]()
            except Exception:  # noqa
                pass

        for op in case.ops:
            w = op.split()
            if len(out) % 3 == 1:
                out_of_domain(len(out))
            try:
                if w[0] in ("save", "write"):
                    fields = [dec_str(x) for x in w[2:]]
                    name = BYARITY.get((w[1], len(fields)))
                    if name is None:
                        out.append("bad-op"); continue
                    rec = cl[name](*fields)
                    s = rec.save()
                    line = "ret " + enc_str(s)
                    # the record itself must survive, also as a saved record file holds the line (trailing \r) and bare
                    for variant in (s, s.rstrip("\n"), s.rstrip("\r\n")):
                        if cl[name].load(variant) != rec:
                            line += " load-mismatch"
                    out.append(line)
                elif w[0] == "parse":
                    d = "," if w[1] == "c" else "\t"
                    s = dec_str(w[2])
                    import csv
                    row = next(iter(csv.reader([s], delimiter=d)))
                    # load goes through the same reader: check with a class of matching arity when there is one
                    name = BYARITY.get((w[1], len(row)))
                    line = "list " + ",".join(enc_str(f) for f in row)
                    if name is not None:
                        rec = cl[name].load(s)
                        if [getattr(rec, f) for f in cl[name].field_names()] != row:
                            line += " load-mismatch"
                    out.append(line)
                elif w[0] == "typed":
                    out.append(self.typed(random.Random(int(w[1]))))
                elif w[0] == "json":
                    out.append(self.json_rt(random.Random(int(w[1]))))
                elif w[0] == "jenc":
                    import json
                    t = dec_str(w[1])
                    c = py_json_canonical(t)
                    if c is None:
                        out.append("err")
                    else:
                        # floats: Python re-emits repr(float(lexeme)); texts for jenc come from dumps, so lexeme == repr already
                        v = json.loads(t)
                        JC = cl["J"] if isinstance(v, dict) and list(v) == ["a", "b", "c"] else \
                            cl["JD"] if isinstance(v, dict) and list(v) == ["a", "b", "c", "d"] else None
                        if JC is None:
                            out.append("ret " + enc_str(json.dumps(v, separators=(",", ":"))))
                        else:
                            rec = JC(**v)
                            saved = rec.save()
                            out.append("ret " + enc_str(saved) + ("" if JC.load(saved) == rec else " load-mismatch"))
                elif w[0] == "jdec":
                    c = py_json_canonical(dec_str(w[1]))
                    out.append("err" if c is None else "ret " + enc_str(c))
                elif w[0] == "recfile":
                    out.append(self.recfile(random.Random(int(w[1]))))
                else:
                    out.append("bad-op")
            except BaseException as e:  # noqa
                if isinstance(e, (KeyboardInterrupt, SystemExit, core.Timeout)):
                    raise
                out.append(f"err {err_name(e)}")
        return out

    def typed(self, rng):
        cl = classes()
        for _ in range(5):
            i = rng.choice([0, -1, 7, 10 ** 30, -2 ** 63, rng.randint(-10 ** 9, 10 ** 9)])
            x = gen_float(rng)
            s = gen_str(rng)
            recs = [cl["CT"](i, x, s), cl["TT"](s, i, x), cl["CTD"](i, x, s, gen_str(rng)), cl["CO"](i, x, s), cl["CS"](i, x, s)]
            js = cl["JS"](i if abs(i) < 2 ** 62 else 1, x if math.isfinite(x) else 0.5, s)
            jback = type(js).load(js.save())
            if jback != js or "\n" in js.save():
                return f"fail typed (json record with slots) {js!r} -> {js.save()!r} -> {jback!r}"
            rng.shuffle(recs)
            for rec in recs:
                line = rec.save()
                back = type(rec).load(line)
                same = (back == rec and back.i == rec.i and back.s == rec.s and
                        (back.x == rec.x and math.copysign(1, back.x) == math.copysign(1, rec.x)))
                if not same or type(back.i) is not int or type(back.x) is not float:
                    return f"fail typed {rec!r} -> {line!r} -> {back!r}"
                if "\n" in line[:-2] or "\r" in line[:-2] or not line.endswith("\r\n"):
                    return f"fail typed single-line {line!r}"
        return "ok"

    def json_rt(self, rng):
        cl = classes()
        for _ in range(5):
            JC = cl[rng.choice(["J", "JD"])]
            rec = JC(*[gen_json(rng) for _ in range(3 if JC is cl["J"] else 4)])
            line = rec.save()
            if "\n" in line or "\r" in line:
                return f"fail json single-line {line!r}"
            back = JC.load(line)
            if back != rec:
                return f"fail json {rec!r} -> {line!r} -> {back!r}"
            # extra keys in the line are filtered out
            import json
            d = json.loads(line); d["zzz"] = 1
            if JC.load(json.dumps(d)) != rec:
                return "fail json extra key"
        return "ok"

    def recfile(self, rng):
        """a mutable record file edited, saved and reopened — oracle-only.  The source file holds lines that load to the
        records but are not what `save()` would write (needless quotes, other separators / key order / spaces in JSON):
        lines that were not edited are written by `save()` as they stand in the source, edited ones as the record's `save()`
        text; record objects are re-used and changed by the caller after they were handed over (the file keeps the record as
        it was at that moment) and records read from the file are changed by the caller (the file is not affected)."""
        import copy
        import json
        from windpyutils import files
        cl = classes()
        name = rng.choice(["C2", "T3", "CT", "C3D", "CTD", "J", "JD"])
        R = cl[name]
        is_json = name in ("J", "JD")

        def mkrec():
            if name == "CT":
                return R(rng.randint(-99, 99), gen_float(rng), gen_str(rng))
            if name == "CTD":
                return R(rng.randint(-99, 99), gen_float(rng), gen_str(rng), gen_str(rng))
            if name == "J":
                return R(gen_json(rng, 1), gen_json(rng, 2), gen_str(rng))
            if name == "JD":
                return R(gen_json(rng, 1), gen_json(rng, 2), gen_str(rng), gen_json(rng, 2))
            return R(*[gen_str(rng) for _ in range(STRCLS[name][1])])

        def change(r):
            """the caller goes on using a record object it handed over / got back"""
            fld = list(r.__dataclass_fields__)[0]
            v = getattr(r, fld)
            setattr(r, fld, (v + "~") if isinstance(v, str) else (v + 1) if isinstance(v, int) and not isinstance(v, bool) else "~")

        def source_line(r):
            """a line that loads to r; often not the text r.save() gives"""
            canon = r.save().rstrip("\r\n")
            q = rng.random()
            if is_json:
                d = json.loads(canon)
                if q < 0.3:
                    return canon
                if q < 0.5:
                    return json.dumps(d, ensure_ascii=False)  # spaces after separators, raw non-ASCII
                if q < 0.7:
                    return json.dumps(dict(reversed(list(d.items()))), separators=(",", ":"))  # other key order
                if q < 0.85:
                    return json.dumps(dict(d, zz_unknown=1), separators=(", ", ": "))  # a key the record class does not have
                return " " + canon + " "
            if q < 0.4 or name in ("CT", "CTD"):
                return canon
            delim = "\t" if name.startswith("T") else ","
            fields = [getattr(r, f) for f in r.__dataclass_fields__]
            return delim.join('"' + f.replace('"', '""') + '"' for f in fields)  # every field quoted, needed or not

        ref = [mkrec() for _ in range(rng.randint(0, 5))]
        raws = [source_line(r) for r in ref]
        if any("\n" in x or "\r" in x for x in raws):
            raws = [r.save().rstrip("\r\n") for r in ref]
        src = self.path("rec_src.txt")
        with open(src, "w", newline="", encoding="utf-8") as fh:
            for x in raws:
                fh.write(x + "\n")
        src_bytes = open(src, "rb").read()
        for cls in (files.MutableRecordFile, files.MutableMemoryMappedRecordFile):
            if not ref and "MemoryMapped" in cls.__name__:
                continue
            cur = [(copy.deepcopy(r), raw) for r, raw in zip(ref, raws)]  # (record, source text or None when edited)
            recs = lambda: [c[0] for c in cur]
            ending = rng.choice(["\n", "\n", "\r\n"])
            with cls(src, R) as f:
                if list(f) != recs() or [f[i] for i in range(len(cur))] != recs() or f[0:len(cur):2] != recs()[0::2]:
                    return f"fail recfile read {cls.__name__}: {list(f)!r} != {recs()!r} (source lines {raws!r})"
                handed = None
                for _ in range(rng.randint(1, 8)):
                    q = rng.random()
                    if handed is not None and rng.random() < 0.4:
                        r = handed  # the same object again, changed in between
                        change(r)
                    elif cur and rng.random() < 0.3:
                        r = copy.deepcopy(rng.choice(cur)[0])  # an equal record: duplicates in the file
                    else:
                        r = mkrec()
                    snap = (copy.deepcopy(r), None)
                    if q < 0.3 and cur:
                        i = rng.randrange(len(cur)); f[i] = r; cur[i] = snap; handed = r
                    elif q < 0.5:
                        i = rng.randint(0, len(cur)); f.insert(i, r); cur.insert(i, snap); handed = r
                    elif q < 0.7:
                        f.append(r); cur.append(snap); handed = r
                    elif q < 0.76 and cur:
                        i = rng.randrange(len(cur)); del f[i]; del cur[i]
                    elif q < 0.8 and cur:
                        # list.remove: the first position holding an equal record
                        victim = copy.deepcopy(rng.choice(cur)[0])
                        f.remove(victim)
                        del cur[recs().index(victim)]
                    elif q < 0.9 and cur:
                        i = rng.randrange(len(cur))
                        got = f[i]
                        if got != cur[i][0]:
                            return f"fail recfile item {cls.__name__}: f[{i}] is {got!r}, expected {cur[i][0]!r}"
                        change(got)  # the caller's copy of a record it read: the file keeps its own
                    elif cur:
                        # MutableSequence.reverse swaps through __getitem__ / __setitem__: every position is written with the
                        # record it holds, so from here on every line is the save() text of its record
                        f.reverse(); cur.reverse()
                        if len(cur) > 1:
                            cur = [(r_, None) if (len(cur) % 2 == 0 or k != len(cur) // 2) else (r_, raw_)
                                   for k, (r_, raw_) in enumerate(cur)]
                    if list(f) != recs():
                        return f"fail recfile edit {cls.__name__}: {list(f)!r} != {recs()!r}"
                # the inherited Sequence interface (index with bounds, count, in, reversed) beside the list of records
                from .. import mixins
                probes = [copy.deepcopy(x) for x in recs()[:2] + recs()[-1:]] + [mkrec()]
                mix = mixins.sequence_battery(f, recs(), probes)
                if mix is not None:
                    return f"fail recfile inherited interface {cls.__name__}: {mix} (source lines {raws!r})"
                dst = self.path("rec_dst.txt")
                f.save(dst, ending) if ending != "\n" else f.save(dst)
            want = "".join((raw if raw is not None else r.save().rstrip("\n")) + ending for r, raw in cur)
            with open(dst, "r", newline="", encoding="utf-8") as fh:
                got_text = fh.read()
            if got_text != want:
                return (f"fail recfile saved bytes {cls.__name__}: save() wrote {got_text!r}, the lines are {want!r} "
                        f"(source lines kept as they are, edited lines as their save() text)")
            if open(src, "rb").read() != src_bytes:
                return f"fail recfile source changed {cls.__name__}"
            if ending == "\n":
                for cls2 in (files.RecordFile, files.MemoryMappedRecordFile, files.MutableRecordFile):
                    if not cur and "MemoryMapped" in cls2.__name__:
                        continue
                    with cls2(dst, R) as g:
                        if list(g) != recs() or len(g) != len(cur):
                            return f"fail recfile reopen {cls.__name__}->{cls2.__name__}: {list(g)!r} != {recs()!r}"
        return "ok"

    # ---- oracle ------------------------------------------------------------------------------------------------------------
    def run_model(self, cases):
        res = [None] * len(cases)
        for machine in ("records", "recfile"):
            idx = [i for i, c in enumerate(cases) if c.meta.get("machine", "records") == machine]
            if not idx:
                continue
            old = self.model
            self.model = machine
            try:
                outs = SeqProp.run_model(self, [cases[i] for i in idx])
            finally:
                self.model = old
            for i, o in zip(idx, outs):
                res[i] = o
        for c, out in zip(cases, res):
            for i, op in enumerate(c.ops):
                if op.startswith("jdec ") and out[i].startswith("ret "):
                    # the model lists the float lexemes after the dump (they are already inside it as written)
                    out[i] = out[i].split(" floats")[0]
        return res

    def oracle(self, case, impl_out):
        import csv, io
        if case.meta.get("machine") == "recfile":
            return self.oracle_recfile(case, impl_out)
        for i, (op, line) in enumerate(zip(case.ops, impl_out)):
            w = op.split()
            if w[0] in ("typed", "json", "recfile"):
                if line != "ok":
                    return f"op {i} `{op}`: {line[:1500]}"
            elif w[0] in ("save", "write"):
                if "load-mismatch" in line:
                    return f"op {i} `{op}`: load(save(r)) != r"
                if not line.startswith("ret "):
                    return f"op {i} `{op}`: {line[:200]}"
                s = dec_str(line[4:])
                fields = [dec_str(x) for x in w[2:]]
                d = "," if w[1] == "c" else "\t"
                if not s.endswith("\r\n") or "\n" in s[:-2] or "\r" in s[:-2]:
                    if all("\n" not in f and "\r" not in f for f in fields):
                        return f"op {i} `{op}`: save is not a single line: {s!r}"
                if next(iter(csv.reader([s], delimiter=d)), []) != fields:
                    return f"op {i} `{op}`: {s!r} does not read back as {fields!r}"
            elif w[0] == "parse":
                if "load-mismatch" in line:
                    return f"op {i} `{op}`: load disagrees with the csv reader"
            elif w[0] == "jenc":
                # a JsonRecord saved by the real code (record-shaped values): one line, and it loads back to the same record
                if "load-mismatch" in line:
                    return f"op {i}: load(save(r)) != r for the JSON record {dec_str(w[1])[:200]!r}"
                if line.startswith("ret "):
                    import json
                    saved = dec_str(line[4:].split(" ")[0])
                    if "\n" in saved or "\r" in saved:
                        return f"op {i}: the saved JSON text is not a single line: {saved[:200]!r}"
                    try:
                        if json.loads(saved) != json.loads(dec_str(w[1])):
                            return f"op {i}: saved JSON text {saved[:200]!r} does not denote the value it was made from"
                    except ValueError:
                        return f"op {i}: saved JSON text {saved[:200]!r} is not valid JSON"
        return None

    def key(self, case, impl_out):
        return hash(tuple(case.ops))
