# -*- coding: UTF-8 -*-
"""C08 — DoublyLinkedList: correspondence of windpyutils.structures.lists with Model/Dll.lean"""
import random

from ..core import Case, err_name, dec_val
from ..seqcheck import SeqProp


class EqRaises:
    def __eq__(self, other):
        raise RuntimeError("payload compared")

    __hash__ = None


class Prop(SeqProp):
    pid = "C08"
    model = "dll"
    anchors = ["windpyutils/structures/lists.py"]
    quick_cases = 4000
    thorough_cases = 40000
    rule = ("random operation sequences (append/prepend/extend/pre_extend/remove/pop_back/pop_front/move_to_front/"
            "move_to_back/move_after/rotate) on member nodes chosen by identity, payload classes {distinct, all equal, "
            "__eq__ raises, falsy objects}, constructor with data and one-shot iterables for the extends, iterables that raise after k items or pop the list's own front while being consumed, payload returned by pops; after every op forward walk, backward walk, len, head, tail and every (prev,next) pair are "
            "compared with the Lean model; distinct = distinct op sequence, non-trivial = at least 3 ops and a move/rotate/remove")
    trusted_base = ["Lean 4.33.0 kernel", "axioms: propext, Classical.choice, Quot.sound (audited per theorem)",
                    "hand-written model Model/Dll.lean tied to lists.py by this correspondence run",
                    "node payloads are not modelled (identity only); checked with hostile payloads"]
    assumptions = ["operations are applied to nodes that belong to the list (the property's own restriction)",
                   "CPython attribute assignment semantics"]

    # ---- generation --------------------------------------------------------------------------------------------------
    def corpus(self):
        return [
            Case(["extend 3", "mtf 2", "mtb 2", "ma 0 1", "ma 1 1"], {"payload": "distinct"}, "D1: len after moves"),
            Case(["extend 3", "rot 1", "rot 0", "ma 0 2", "mtf 1"], {"payload": "eqraises"}, "D2: __eq__ raises"),
            Case(["quiet", "extend 1600", "ma 700 1400", "rot 1", "rot 0", "mtf 900", "dump"], {"payload": "equal"},
                 "D2: long run of equal payloads"),
            Case(["append", "rot 1", "rot 0", "mtf 0", "mtb 0", "pop_back", "pop_back", "pop_front", "mtf 0"],
                 {"payload": "equal"}, "singleton and empty list edge cases"),
            Case(["extend 2", "extendx 2", "append", "pre_extendx 1", "prepend", "extendx 0", "pop_back", "pop_front"],
                 {"payload": "distinct"}, "extends whose iterable raises after some items, then ordinary use"),
            Case(["append", "extendpf 1", "append", "extendpf 2", "pop_front", "pop_front", "extendpf 1", "extendx 1", "append"],
                 {"payload": "falsy"}, "extend with a generator that pops the list's own front"),
        ]

    def gen(self, rng, n, tier):
        for _ in range(n):
            yield self.gen_one(rng, tier)

    def gen_one(self, rng, tier):
        payload = rng.choice(["distinct", "equal", "eqraises", "falsy", "node"])
        max_len = rng.choice([6, 12, 40, 120 if tier != "quick" else 60])
        length = rng.randint(1, max_len)
        ops = []
        members = []  # reference forward order of node ids
        fresh = 0
        for _ in range(length):
            r = rng.random()
            if not members and rng.random() < 0.15:
                ops.append(rng.choice(["rot 1", "rot 0"]))  # rotating an empty list changes nothing
                continue
            if not members or r < 0.18:
                kind = rng.choice(["append", "prepend", "extend", "pre_extend", "append", "prepend", "extend", "pre_extend",
                                   "extendx", "pre_extendx", "extendpf"])
                if kind == "append":
                    ops.append("append"); members.append(fresh); fresh += 1
                elif kind == "prepend":
                    ops.append("prepend"); members.insert(0, fresh); fresh += 1
                elif kind == "extend":
                    k = rng.randint(0, 4)
                    ops.append(f"extend {k}")
                    for _ in range(k):
                        members.append(fresh); fresh += 1
                elif kind == "extendx":
                    k = rng.randint(0, 3)
                    ops.append(f"extendx {k}")
                    for _ in range(k):
                        members.append(fresh); fresh += 1
                elif kind == "pre_extendx":
                    k = rng.randint(0, 3)
                    ops.append(f"pre_extendx {k}")
                    for _ in range(k):
                        members.insert(0, fresh); fresh += 1
                elif kind == "extendpf":
                    k = rng.randint(1, 3)
                    ops.append(f"extendpf {k}")
                    for _ in range(k):
                        if not members:
                            break
                        members.pop(0); members.append(fresh); fresh += 1
                else:
                    k = rng.randint(0, 4)
                    ops.append(f"pre_extend {k}")
                    for _ in range(k):
                        members.insert(0, fresh); fresh += 1
                continue
            kind = rng.choice(["remove", "pop_back", "pop_front", "mtf", "mtb", "ma", "ma", "rot1", "rot0", "mtf", "mtb"])
            # bias towards boundary nodes
            def pick():
                q = rng.random()
                if q < 0.25:
                    return members[0]
                if q < 0.5:
                    return members[-1]
                return rng.choice(members)
            if kind == "remove":
                x = pick(); ops.append(f"remove {x}"); members.remove(x)
            elif kind == "pop_back":
                ops.append("pop_back"); members.pop()
            elif kind == "pop_front":
                ops.append("pop_front"); members.pop(0)
            elif kind == "mtf":
                x = pick(); ops.append(f"mtf {x}"); members.remove(x); members.insert(0, x)
            elif kind == "mtb":
                x = pick(); ops.append(f"mtb {x}"); members.remove(x); members.append(x)
            elif kind == "ma":
                x = pick(); a = pick(); ops.append(f"ma {x} {a}")
                if x != a:
                    members.remove(x); members.insert(members.index(a) + 1, x)
            elif kind == "rot1":
                ops.append("rot 1")
                if len(members) > 1:
                    members.append(members.pop(0))
            else:
                ops.append("rot 0")
                if len(members) > 1:
                    members.insert(0, members.pop())
        # empty-list error paths now and then
        if rng.random() < 0.1:
            ops = ["pop_back", "pop_front"] + ops
        return Case(ops, {"payload": payload})

    def exhaustive(self, tier):
        # all op sequences of length <= 4 after `extend 3` over member-independent ops and node args 0..2
        base = ["append", "prepend", "pop_back", "pop_front", "rot 1", "rot 0"] + \
               [f"{o} {i}" for o in ("mtf", "mtb") for i in range(3)] + \
               [f"ma {i} {j}" for i in range(3) for j in range(3)]
        cases = []

        def rec(prefix, depth):
            if depth == 0:
                return
            for o in base:
                seq = prefix + [o]
                # nodes 0..2 may have been popped: only keep sequences whose args are still members
                if self._members_ok(seq):
                    cases.append(Case(["extend 3"] + seq, {"payload": "equal"}))
                    rec(seq, depth - 1)

        rec([], 3)
        return cases

    @staticmethod
    def _members_ok(seq):
        members = [0, 1, 2]
        fresh = 3
        for o in seq:
            w = o.split()
            if w[0] == "append":
                members.append(fresh); fresh += 1
            elif w[0] == "prepend":
                members.insert(0, fresh); fresh += 1
            elif w[0] == "pop_back":
                if members:
                    members.pop()
            elif w[0] == "pop_front":
                if members:
                    members.pop(0)
            elif w[0] == "rot":
                if len(members) > 1:
                    if w[1] == "1":
                        members.append(members.pop(0))
                    else:
                        members.insert(0, members.pop())
            elif w[0] in ("mtf", "mtb"):
                x = int(w[1])
                if x not in members:
                    return False
                members.remove(x)
                members.insert(0, x) if w[0] == "mtf" else members.append(x)
            elif w[0] == "ma":
                x, a = int(w[1]), int(w[2])
                if x not in members or a not in members:
                    return False
                if x != a:
                    members.remove(x); members.insert(members.index(a) + 1, x)
        return True

    # ---- implementation ----------------------------------------------------------------------------------------------
    def run_impl(self, case):
        from windpyutils.structures.lists import DoublyLinkedList
        kind = case.meta.get("payload", "distinct")
        counter = [0]

        def payload():
            counter[0] += 1
            if kind == "distinct":
                return counter[0]
            if kind == "equal":
                return 7
            if kind == "falsy":
                return dec_val(counter[0] % 6)
            if kind == "node":
                # payloads that are node handles of another, living list (sometimes the same handle again): opaque values
                return donor_nodes[(counter[0] * 3) % len(donor_nodes)]
            return EqRaises()

        donor = DoublyLinkedList(["d0", "d1", "d2", "d3", "d4"])
        donor_nodes = []
        _n = donor.head
        while _n is not None and len(donor_nodes) < 5:
            donor_nodes.append(_n); _n = _n.next_node

        def donor_intact():
            seen, n = [], donor.head
            while n is not None and len(seen) < 7:
                seen.append(n); n = n.next_node
            back, n = [], donor.tail
            while n is not None and len(back) < 7:
                back.append(n); n = n.prev_node
            return (len(seen) == 5 and all(a is b for a, b in zip(seen, donor_nodes)) and len(donor) == 5
                    and all(a is b for a, b in zip(back, reversed(donor_nodes))) and [x.data for x in seen] == ["d0", "d1", "d2", "d3", "d4"])

        l = DoublyLinkedList()
        nodes = []  # id -> node object
        ident = {}  # id(node) -> id
        quiet = [False]

        def reg(node):
            ident[id(node)] = len(nodes)
            nodes.append(node)

        def name(node):
            if node is None:
                return "-"
            return str(ident.get(id(node), "?"))

        def dump():
            fuel = len(nodes) + 1
            f = []
            n = l.head
            while n is not None and len(f) < fuel:
                f.append(n); n = n.next_node
            b = []
            n = l.tail
            while n is not None and len(b) < fuel:
                b.append(n); n = n.prev_node
            try:
                size = len(l)
            except Exception as e:  # len() may raise for negative sizes
                size = "len-raises-" + err_name(e)
                size = l.size
            links = ";".join(f"{name(x)}({name(x.prev_node)},{name(x.next_node)})" for x in f)
            # the public traversals agree with the links: iter_nodes() yields the nodes, iteration their payloads (twice)
            extra = ""
            if len(f) <= 60:
                try:
                    import itertools
                    it_nodes = list(itertools.islice(l.iter_nodes(), fuel + 1))
                    it_data = list(itertools.islice(iter(l), fuel + 1))
                    it_data2 = list(itertools.islice(iter(l), fuel + 1))
                    if len(it_nodes) != len(f) or any(a is not b for a, b in zip(it_nodes, f)) or len(it_data) != len(f) or \
                            any(a is not b.data for a, b in zip(it_data, f)) or len(it_data2) != len(it_data) or \
                            any(a is not b for a, b in zip(it_data, it_data2)):
                        extra = " traversal-mismatch"
                except Exception as e:  # noqa
                    extra = " traversal-mismatch:" + err_name(e)
            return (f"F:{','.join(name(x) for x in f)} B:{','.join(name(x) for x in b)} S:{size} H:{name(l.head)} "
                    f"T:{name(l.tail)} L:{links}{extra}")

        def fin(r):
            return r if quiet[0] else r + " " + dump()

        out = []
        for op in case.ops:
            w = op.split()
            try:
                if w[0] == "append":
                    n = l.append(payload()); reg(n); out.append(fin(f"ret {name(n)}"))
                elif w[0] == "prepend":
                    n = l.prepend(payload()); reg(n); out.append(fin(f"ret {name(n)}"))
                elif w[0] == "extend":
                    k = int(w[1]); old_tail = l.tail
                    vals = [payload() for _ in range(k)]
                    if not out and old_tail is None and k % 2 == 1:
                        # a first extend on the fresh list is what the constructor does with its `data` argument
                        l = DoublyLinkedList(iter(vals))
                    else:
                        l.extend(vals if k % 3 else iter(vals))  # any iterable, one-shot ones included
                    n = l.head if old_tail is None else old_tail.next_node
                    cnt = 0
                    while n is not None and cnt < k:
                        reg(n); n = n.next_node; cnt += 1
                    out.append(fin("ok"))
                elif w[0] in ("extendx", "pre_extendx", "extendpf"):
                    # iterables that misbehave: one that raises after k items (the items consumed so far stay linked, as in
                    # a Python list), one that pops the front of this very list before each of its items
                    k = int(w[1]); old_tail, old_head = l.tail, l.head
                    popped = []

                    def gen():
                        for _ in range(k):
                            if w[0] == "extendpf":
                                # the node made for the previous item sits at the tail now: name it before it can be popped
                                if l.tail is not None and id(l.tail) not in ident:
                                    reg(l.tail)
                                popped.append(l.pop_front())
                            yield payload()
                        if w[0] != "extendpf":
                            raise RuntimeError("iterable failed")
                    try:
                        (l.pre_extend if w[0] == "pre_extendx" else l.extend)(gen())
                    finally:
                        if w[0] == "pre_extendx":
                            n = l.tail if old_head is None else old_head.prev_node
                            cnt = 0
                            while n is not None and cnt < k:
                                reg(n); n = n.prev_node; cnt += 1
                        else:
                            # nodes created by this call: those not registered yet, in creation (= forward) order
                            seen = set(id(x) for x in nodes)
                            n = l.head
                            fuel = len(nodes) + k + 1
                            new = []
                            while n is not None and fuel > 0:
                                if id(n) not in seen:
                                    new.append(n)
                                n = n.next_node; fuel -= 1
                            for x in new:
                                reg(x)
                    out.append(fin("ok"))
                elif w[0] == "pre_extend":
                    k = int(w[1]); old_head = l.head
                    vals = [payload() for _ in range(k)]
                    l.pre_extend(vals if k % 3 else iter(vals))
                    n = l.tail if old_head is None else old_head.prev_node
                    cnt = 0
                    while n is not None and cnt < k:
                        reg(n); n = n.prev_node; cnt += 1
                    out.append(fin("ok"))
                elif w[0] in ("remove", "mtf", "mtb"):
                    i = int(w[1])
                    if i >= len(nodes):
                        out.append("bad-op"); continue
                    {"remove": l.remove, "mtf": l.move_to_front, "mtb": l.move_to_back}[w[0]](nodes[i])
                    out.append(fin("ok"))
                elif w[0] == "ma":
                    i, j = int(w[1]), int(w[2])
                    if i >= len(nodes) or j >= len(nodes):
                        out.append("bad-op"); continue
                    l.move_after(nodes[i], nodes[j]); out.append(fin("ok"))
                elif w[0] == "pop_back":
                    t = l.tail; r = l.pop_back()
                    out.append(fin(f"ret {name(t)}") + ("" if r is t.data else " wrong-payload-returned"))
                elif w[0] == "pop_front":
                    h = l.head; r = l.pop_front()
                    out.append(fin(f"ret {name(h)}") + ("" if r is h.data else " wrong-payload-returned"))
                elif w[0] == "rot":
                    if w[1] == "1" and len(out) % 2:
                        l.rotate()  # the default direction is front to back
                    elif len(out) % 3 == 0:
                        l.rotate(w[1] == "1")
                    else:
                        l.rotate(front_to_back=(w[1] == "1"))
                    out.append(fin("ok"))
                elif w[0] == "quiet":
                    quiet[0] = True; out.append("ok")
                elif w[0] == "verbose":
                    quiet[0] = False; out.append("ok")
                elif w[0] == "dump":
                    out.append("ok " + dump())
                else:
                    out.append("bad-op")
            except BaseException as e:  # noqa
                if isinstance(e, (KeyboardInterrupt, SystemExit)):
                    raise
                out.append(fin(f"err {err_name(e)}"))
            if len(out) == 6 and kind in ("distinct", "falsy") and len(nodes) <= 40:
                prob = self.copy_with_handles(l, nodes)
                if prob is not None:
                    out[-1] = "copy-problem " + prob + " ;; " + out[-1]
            if kind == "node" and not donor_intact():
                out[-1] = "payload-list-damaged " + out[-1]
                break
        while len(out) < len(case.ops):
            out.append("aborted")
        return out

    @staticmethod
    def copy_with_handles(l, nodes):
        """the list is deep-copied / pickled together with node handles the caller holds (what the caches keep: a list and a dict of
        its nodes): in the copy the handles are the nodes of the copied list, position by position"""
        import copy
        import pickle

        def walk(lst):
            out_, n, fuel = [], lst.head, 200
            while n is not None and fuel > 0:
                out_.append(n); n = n.next_node; fuel -= 1
            return out_

        members = walk(l)
        pos = {id(n): i for i, n in enumerate(members)}
        handles = [n for n in nodes if id(n) in pos]
        for name, make in (("copy.deepcopy", lambda: copy.deepcopy((l, handles))),
                           ("pickle round trip", lambda: pickle.loads(pickle.dumps((l, handles))))):
            try:
                l2, h2 = make()
            except (RecursionError, TypeError, pickle.PicklingError, AttributeError):
                continue
            m2 = walk(l2)
            if len(m2) != len(members) or len(l2) != len(members):
                return f"the {name} of the list has {len(m2)} nodes / len {len(l2)}, the list has {len(members)}"
            if any(m2[pos[id(h)]] is not hc for h, hc in zip(handles, h2)):
                return f"in the {name} of (list, handles) the copied handles are not the nodes of the copied list"
            if walk(l) != members:
                return f"making a {name} changed the list"
        return None

    # ---- independent oracle: a Python list of node ids -------------------------------------------------------------
    def oracle(self, case, impl_out):
        for k, line in enumerate(impl_out):
            if line.startswith("copy-problem "):
                return f"op {k} `{case.ops[k]}`: {line[13:].split(' ;; ')[0][:400]}"
            if "traversal-mismatch" in line:
                return (f"op {k} `{case.ops[k]}`: iter_nodes() / iteration do not yield the nodes / payloads in link order: "
                        f"{line[:300]!r}")
            if line.startswith("payload-list-damaged"):
                return (f"op {k} `{case.ops[k]}`: the payloads are node handles of another list; that list is no longer intact "
                        f"(a payload is an opaque value, whatever its type)")
        ref = []
        fresh = 0
        quiet = False
        for k, (op, line) in enumerate(zip(case.ops, impl_out)):
            w = op.split()
            exp_res = "ok"
            if w[0] == "append":
                ref.append(fresh); exp_res = f"ret {fresh}"; fresh += 1
            elif w[0] == "prepend":
                ref.insert(0, fresh); exp_res = f"ret {fresh}"; fresh += 1
            elif w[0] == "extend":
                for _ in range(int(w[1])):
                    ref.append(fresh); fresh += 1
            elif w[0] == "pre_extend":
                for _ in range(int(w[1])):
                    ref.insert(0, fresh); fresh += 1
            elif w[0] == "extendx":
                for _ in range(int(w[1])):
                    ref.append(fresh); fresh += 1
                exp_res = "err RuntimeError"
            elif w[0] == "pre_extendx":
                for _ in range(int(w[1])):
                    ref.insert(0, fresh); fresh += 1
                exp_res = "err RuntimeError"
            elif w[0] == "extendpf":
                for _ in range(int(w[1])):
                    if not ref:
                        exp_res = "err IndexError"
                        break
                    ref.pop(0); ref.append(fresh); fresh += 1
            elif w[0] == "remove":
                x = int(w[1])
                if x not in ref:
                    return None  # outside the property (node not in the list)
                ref.remove(x)
            elif w[0] == "pop_back":
                exp_res = f"ret {ref.pop()}" if ref else "err IndexError"
            elif w[0] == "pop_front":
                exp_res = f"ret {ref.pop(0)}" if ref else "err IndexError"
            elif w[0] in ("mtf", "mtb"):
                x = int(w[1])
                if not ref:
                    exp_res = "err RuntimeError"
                else:
                    if x not in ref:
                        return None
                    ref.remove(x)
                    ref.insert(0, x) if w[0] == "mtf" else ref.append(x)
            elif w[0] == "ma":
                x, a = int(w[1]), int(w[2])
                if x not in ref or a not in ref:
                    return None
                if x != a:
                    ref.remove(x); ref.insert(ref.index(a) + 1, x)
            elif w[0] == "rot":
                if len(ref) > 1:
                    if w[1] == "1":
                        ref.append(ref.pop(0))
                    else:
                        ref.insert(0, ref.pop())
            elif w[0] == "quiet":
                quiet = True; continue
            elif w[0] == "verbose":
                quiet = False; continue
            elif w[0] == "dump":
                pass
            if quiet and w[0] != "dump":
                if line != exp_res:
                    return f"op {k} `{op}`: result {line!r}, expected {exp_res!r}"
                continue
            s = lambda xs: ",".join(map(str, xs))
            o = lambda xs, i: "-" if i < 0 or i >= len(xs) else str(xs[i])
            links = ";".join(f"{x}({o(ref, i - 1)},{o(ref, i + 1)})" for i, x in enumerate(ref))
            exp = (f"{exp_res} F:{s(ref)} B:{s(ref[::-1])} S:{len(ref)} H:{o(ref, 0)} T:{o(ref, len(ref) - 1)} L:{links}")
            if line != exp:
                return f"op {k} `{op}`: observed {line!r}, reference sequence gives {exp!r}"
        return None

    def key(self, case, impl_out):
        if len(case.ops) >= 3 and any(o.split()[0] in ("mtf", "mtb", "ma", "rot", "remove") for o in case.ops):
            return hash(tuple(case.ops))
        return None
