# -*- coding: UTF-8 -*-
"""
C01–C04 — FunctorPool / FactoryFunctorPool: the real own_proc_pools code under the controlled scheduler, driven by explicit
schedules; the same schedule drives the Lean interleaving model (Model/Pool.lean) and every step's operation label, result,
queue digest and enabled set are compared.  An independent oracle judges the property on the implementation's run.
"""
import json
import math
import os
import random
import time

from .. import core
from ..core import Report, Finding, Case, HarnessError
from ..poolsim import Cfg, SimEnv
from .. import cover


# ---- schedule sources ---------------------------------------------------------------------------------------------------

def order_key(name):
    if name == "C":
        return (0, 0)
    if name == "F":
        return (1, 0)
    if name == "R":
        return (2, 0)
    return (3, int(name[1:]))


def chooser_uniform(rng):
    return lambda en, sched: rng.choice(en)


def chooser_pct(rng, depth=3, horizon=400):
    """PCT-style: random priorities per thread, `depth` random change points that demote the running thread"""
    prio = {}
    changes = sorted(rng.randrange(horizon) for _ in range(depth))
    state = {"n": 0, "low": 0}

    def choose(en, sched):
        for t in en:
            if t not in prio:
                prio[t] = rng.random() + 1
        best = max(en, key=lambda t: prio[t])
        state["n"] += 1
        if changes and state["n"] >= changes[0]:
            changes.pop(0)
            state["low"] -= 1
            prio[best] = state["low"]
        return best

    return choose


def chooser_roles(order, demote, tie_low_first):
    """strict priority over roles (C, F, R, W) with a demotion rule for workers:
    demote = 'after_put': a worker drops to the lowest priority after it delivered a result;
             'after_get': after it took a chunk; 'never'"""
    demoted = set()

    def choose(en, sched):
        # demotion bookkeeping from the log of the last step
        if sched.log:
            t, label, res = sched.log[-1]
            if t.startswith("W"):
                if demote == "after_put" and label.startswith("resQ.put") and res != "Full":
                    demoted.add(t)
                elif demote == "after_get" and label == "workQ.get" and res != "None":
                    demoted.add(t)

        def rank(t):
            role = t[0]
            base = order.index(role)
            if t in demoted:
                base = len(order) + 1
            wid = int(t[1:]) if role == "W" else 0
            return (base, wid if tie_low_first else -wid)

        return min(en, key=rank)

    return choose


def chooser_starve(rng, victim_role):
    """run everything else first; the victim role only when nothing else can move"""

    def choose(en, sched):
        others = [t for t in en if t[0] != victim_role]
        return rng.choice(others) if others else rng.choice(en)

    return choose


def chooser_prefer(prefs):
    """follows a list of preferred threads where it can (an entry that is not enabled when its turn comes is dropped); when
    the list is used up the running thread continues while it can, else the first enabled one runs — used to shrink schedules"""
    state = {"i": 0, "last": None}

    def choose(en, sched):
        while state["i"] < len(prefs) and prefs[state["i"]] not in en:
            state["i"] += 1
        if state["i"] < len(prefs):
            t = prefs[state["i"]]
            state["i"] += 1
        elif state["last"] in en:
            t = state["last"]
        else:
            t = sorted(en, key=order_key)[0]
        state["last"] = t
        return t

    return choose


def chooser_replay(schedule):
    it = iter(schedule)

    def choose(en, sched):
        t = next(it)
        if t not in en:
            raise HarnessError(f"replayed schedule: {t} not enabled (enabled: {en})")
        return t

    return choose


ALL_ORDERS = ["CFRW", "CFWR", "CRFW", "CRWF", "CWFR", "CWRF", "FCRW", "FCWR", "FRCW", "FRWC", "FWCR", "FWRC",
              "RCFW", "RCWF", "RFCW", "RFWC", "RWCF", "RWFC", "WCFR", "WCRF", "WFCR", "WFRC", "WRCF", "WRFC"]


class PoolProp:
    pid = "C01"
    focus = "result"  # which oracle
    anchors = ["windpyutils/parallel/own_proc_pools.py", "windpyutils/buffers.py"]
    quick_runs = 450
    thorough_runs = 2500
    rule = ""
    trusted_base = ["Lean 4.33.0 kernel", "axioms: propext, Classical.choice, Quot.sound (audited per theorem)",
                    "hand-written interleaving model Model/Pool.lean tied to own_proc_pools.py by step-by-step correspondence "
                    "under the controlled scheduler (operation label, result, queue digest and enabled set of every step)",
                    "modelled, not verified: each manager-queue / event / lock operation is atomic; CPython's GIL gives "
                    "sequential consistency for the two progress flags; multiprocessing.Queue (replace queue) as an atomic "
                    "FIFO; a forked worker sees a copy of its Process object; thread-local code between two visible operations "
                    "commutes with other threads' steps"]
    assumptions = ["functors and input iterators return normally (except the injected faults of C04)",
                   "workers >= 1, chunk_size >= 1, results_queue_maxsize None or int >= 1",
                   "out of reach of the model: OS starvation, wall-clock timeouts, a killed manager process, fork-in-thread hazards"]

    model_name = "pool"

    def nontrivial(self, cfg, schedule):
        return len(schedule) >= 20 and any(c[0] > 0 for c in cfg.calls)

    def kind_of(self, cfg):
        return "factory" if cfg.factory else "plain"

    # ---- configurations ------------------------------------------------------------------------------------------------
    def corpus(self):
        """(cfg, chooser factory, label)"""
        return []

    def gen_cfg(self, rng, tier):
        n_workers = rng.choice([1, 2, 2, 3, 3, 4] if tier != "quick" else [1, 2, 2, 3])
        factory = rng.random() < self.p_factory
        calls = []
        for _ in range(rng.choice(self.n_calls)):
            calls.append((rng.choice([0, 1, 2, 3, 4, 5, 6, 8]), rng.choice([1, 1, 2, 3]), rng.random() < 0.6))
        return Cfg(n_workers=n_workers,
                   work_cap=rng.choice(["default", "default", None, 1.0, 0.5, 2.0]) if factory else
                   rng.choice(["default", "default", None, 1, 2, 0.5]),
                   res_cap=rng.choice([None, None, 1, 2, 3]), factory=factory,
                   quota=rng.choice([1, 1, 2, 3, 2.0, 2.5]) if factory else None, wait_ready=rng.random() < 0.3, calls=calls,
                   none_inputs=rng.random() < 0.25, body_raises=rng.random() < 0.2,
                   impatient=(tier != "cover" and rng.random() < 0.15), input_kind=rng.randrange(5),
                   end_fault=([rng.randrange(n_workers)] + ([n_workers] if factory else [])) if rng.random() < 0.12 else (),
                   float_chunks=rng.random() < 0.15, equal_workers=rng.random() < 0.15,
                   join_timeout=(tier != "cover" and rng.random() < 0.12))

    # ---- transition coverage: every reachable transition of the model for small configurations (harness/cover.py) -------
    cover_limit = 60000

    def cover_cfgs(self, tier):
        return []

    def cover_runs(self, tier, report):
        runs = []
        info = []
        for cfg in self.cover_cfgs(tier):
            n, complete, edges = cover.explore(self.model_name, cfg.model_line(), self.cover_limit)
            paths = cover.covering_paths(n, edges)
            info.append({"cfg": cfg.model_line(), "model_states": n, "model_transitions": len(edges), "complete": complete,
                         "schedules": len(paths), "steps": sum(map(len, paths))})
            for k, p in enumerate(paths):
                runs.append((cfg, ("cover", len(info) - 1, k), cover.chooser_cover(p), "transition cover"))
        report.extra["transition_cover"] = info
        return runs

    p_factory = 0.35
    n_calls = [1, 1, 2]

    def gen_chooser(self, rng):
        r = rng.random()
        if r < 0.35:
            seed = rng.randrange(1 << 30)
            return ("uniform", seed), chooser_uniform(random.Random(seed))
        if r < 0.6:
            seed = rng.randrange(1 << 30)
            d = rng.randint(1, 3)
            return ("pct", seed, d), chooser_pct(random.Random(seed), d)
        if r < 0.9:
            order = rng.choice(ALL_ORDERS)
            demote = rng.choice(["after_put", "after_get", "never"])
            tie = rng.random() < 0.5
            return ("roles", order, demote, tie), chooser_roles(order, demote, tie)
        seed = rng.randrange(1 << 30)
        victim = rng.choice("CFRW")
        return ("starve", seed, victim), chooser_starve(random.Random(seed), victim)

    # ---- one run ---------------------------------------------------------------------------------------------------------
    def run_sim(self, cfg, chooser):
        env = SimEnv(cfg)
        steps = []  # (thread, label, result, digest, enabled)

        def wrapped(en, sched):
            # record what the previous step left behind
            if sched.log and len(steps) < len(sched.log):
                t, l, r = sched.log[-1]
                steps.append([t, l, r, env.digest(), sorted(en, key=order_key)])
            return chooser(en, sched)

        status, schedule, log = env.run(wrapped)
        if len(steps) < len(log):
            t, l, r = log[-1]
            en = [] if status != "done" else []
            steps.append([t, l, r, env.digest(), en])
        return env, status, schedule, steps

    def model_lines(self, cfg, schedule):
        return [cfg.model_line()] + [f"step {t}" for t in schedule] + ["final"]

    def compare(self, cfg, status, schedule, steps, env):
        """returns None or (step index, model line, impl line)"""
        if status.startswith(("stuck:", "scheduler:")):
            return len(steps), "<the model's threads always reach their next visible operation>", status
        out = core.run_driver(self.model_name, ["reset"] + self.model_lines(cfg, schedule))[1:]
        if out[0] != "ok":
            raise HarnessError("pool model rejected the configuration: " + cfg.model_line())
        for i, (st, ml) in enumerate(zip(steps, out[1:-1])):
            t, l, r, dg, en = st
            impl = f"{t} {l} {r}".strip() + f" # {dg} # en:{','.join(en)}"
            if i == len(steps) - 1 and status == "done":
                impl = impl.rsplit(" # en:", 1)[0]
                ml = ml.rsplit(" # en:", 1)[0]
            if impl != ml:
                return i, ml, impl
        fin = self.impl_final(cfg, env, status)
        mfin = out[-1]
        if getattr(cfg, "none_inputs", False):
            fin, mfin = (" ".join(w for w in x.split(" ") if not w.startswith("out:")) for x in (fin, mfin))
        if fin != mfin:
            return len(steps), mfin, fin
        return None

    def impl_final(self, cfg, env, status):
        outs = []
        for k, ((n, cs, ordered), res) in enumerate(zip(cfg.calls, env.results)):
            seen = []
            for v in res:
                if v is None:
                    continue
                item = (v - 1) // 2 - k * 1000
                ch = item // cs
                if not seen or seen[-1] != ch:
                    seen.append(ch)
            outs += [f"{k + 1}:{c}" for c in seen]
        wids = sorted(set(env.final_logs) | {wid for wid, _ in env.final_procs})
        logs = []
        for wid in wids:
            exited = env.final_finished.get(f"W{wid}", False)
            logs.append(f"{wid}=" + ".".join(env.final_logs.get(wid, [])) + ("!" if (wid in env.crashed and exited) else "") +
                        ("" if exited else "~"))
        procs = ",".join(str(wid) for wid, _ in env.final_procs)
        return f"out:{','.join(outs)} logs:{';'.join(logs)} procs:{procs} final:{1 if status == 'done' else 0}"

    @staticmethod
    def all_workers(env):
        return list(env.pool.procs)

    # ---- oracles ---------------------------------------------------------------------------------------------------------
    def oracle(self, cfg, env, status, steps):
        """property judged on the implementation's run: None or (description, signature)"""
        if status.startswith(("stuck:", "scheduler:")):
            return None  # the run could not be controlled: nothing observed about the property (compare() reports it)
        faults = bool(cfg.begin_fault or cfg.item_fault)
        if status.startswith("error:"):
            return (f"a pool thread raised: {status}", "thread-error")
        if self.focus in ("result", "calls") and not faults:
            exp = env.expected()
            for k, (n, cs, ordered) in enumerate(cfg.calls):
                if k >= len(env.results):
                    break  # call never started (deadlock earlier): termination is C02's business
                got = env.results[k]
                complete = status == "done" or k < len(env.results) - 1
                if ordered:
                    if got != exp[k][:len(got)] or (complete and got != exp[k]):
                        return (f"call {k + 1} (imap, {n} items, chunk {cs}) yielded {got}, expected {exp[k]}", "wrong-result")
                else:
                    chunks = [exp[k][i:i + cs] for i in range(0, n, cs)]
                    ok = self.is_chunk_concat(got, chunks, complete)
                    if not ok:
                        return (f"call {k + 1} (imap_unordered, chunk {cs}) yielded {got}, expected the chunks {chunks} in some order",
                                "wrong-result")
            if status == "done" and any(x is not None for x in env.final_resq):
                return ("a result chunk is left in the results queue after the last call", "leftover-result")
            # leftovers between calls: a chunk of call k delivered in call k+1 shows up as a wrong result above
        if self.focus in ("termination", "calls") and not faults:
            if status != "done":
                return (f"no thread can move while the caller has not finished: {status}", self.deadlock_signature(cfg, env, status))
        if self.focus == "lifecycle":
            for wid, log in env.final_logs.items():
                s = ".".join(log)
                body = log[1:-1] if len(log) >= 2 else []
                exited = env.final_finished.get(f"W{wid}", False)
                if exited and (not log or log[0] != "b" or log[-1] != "e" or any(not x.startswith("i") for x in body)):
                    return (f"worker {wid} lifecycle log {s!r} is not begin·item*·end", "lifecycle")
                if not exited and (log[:1] != ["b"] and log != [] or log.count("b") > 1 or "e" in log):
                    return (f"running worker {wid} has lifecycle log {s!r}", "lifecycle")
                if cfg.quota is not None and sum(1 for x in log if x.startswith("i")) > math.ceil(cfg.quota):
                    return (f"worker {wid} processed more than its quota {cfg.quota}: {s}", "quota")
            if status == "done":
                running = [n for n, fin in env.final_finished.items() if n.startswith("W") and not fin]
                if running:
                    return (f"workers still running after the pool context was left: {running}", "left-running")
            if getattr(env, "ready_violations", None):
                return (f"until_all_ready() called during a call returned while begin() of listed workers {env.ready_violations[0]} "
                        f"had not completed", "ready")
            # until_all_ready returned => every listed worker completed begin()
            if cfg.wait_ready and not cfg.begin_fault:
                seen_b = set()
                for t, l, r, dg, en in steps:
                    if l.endswith("begin_finished.set"):
                        seen_b.add(t)
                    if t == "C" and (l.startswith("F.run_event") or l.startswith("R.run_event") or l == "workQ.put"):
                        missing = [f"W{i}" for i in range(cfg.n_workers) if f"W{i}" not in seen_b]
                        if missing:
                            return (f"until_all_ready returned before begin() of {missing} had completed", "ready")
                        break
            if status != "done" and not faults:
                return (f"pool context cannot be left: {status}", self.deadlock_signature(cfg, env, status))
        return None

    @staticmethod
    def is_chunk_concat(got, chunks, complete):
        rest = [c for c in chunks]
        pos = 0
        while pos < len(got):
            for c in rest:
                if c and got[pos:pos + len(c)] == c:
                    rest.remove(c); pos += len(c)
                    break
            else:
                # an incomplete run may end in the middle of a chunk
                if not complete and any(c[:len(got) - pos] == got[pos:] for c in rest):
                    return True
                return False
        return (not complete) or all(not c for c in rest)

    @staticmethod
    def deadlock_signature(cfg, env, status):
        # D19: __exit__ blocked on its stop orders with an effective work-queue bound (int, or int(workers*float)) below the
        # number of listed workers, some of which retired unreplaced; every other thread has finished
        blocked = status.split(":", 1)[1] if ":" in status else ""
        wc = cfg.work_cap_int()  # the effective bound: an int as given, or int(workers * float)
        if blocked == "C@workQ.put" and cfg.factory and wc is not None and 0 < wc < len(env.final_procs):
            exited = sum(1 for _, code in env.final_procs if code is not None)
            if exited > 0:
                return "exit-blocked-stop-order(work-queue-bound<workers,retired-unreplaced)"
        return "deadlock:" + blocked

    # ---- main ------------------------------------------------------------------------------------------------------------
    def main(self, tier, seed, replay=None):
        if replay is not None:
            return self.do_replay(replay)
        report = Report(self.pid, tier, seed)
        rng = random.Random(seed * 7919 + int(self.pid[1:]))
        known, _ = core.load_known_findings()
        known = {k["signature"]: k for k in known if k["property"] == self.pid}
        proofs = core.check_proofs(self.pid, leanchecker=(tier == "thorough"))
        n = self.quick_runs if tier == "quick" else self.thorough_runs
        n *= core.budget_scale(self.anchors, tier, report)
        n = core.budget_div(n)

        runs = [(cfg, desc, ch, label) for cfg, desc, ch, label in self.corpus()]
        for _ in range(n):
            cfg = self.gen_cfg(rng, tier)
            desc, ch = self.gen_chooser(rng)
            runs.append((cfg, desc, ch, ""))
        if tier == "thorough":
            runs += self.systematic()
        runs += self.cover_runs(tier, report)

        prop_fail = None
        corr_fail = None
        known_hits = {}
        total_steps = 0
        uncontrolled = 0
        for cfg, desc, ch, label in runs:
            if uncontrolled >= 2:
                break  # the code under test blocks outside the simulated primitives: further schedules tell nothing more
            env, status, schedule, steps = self.run_sim(cfg, ch)
            if status.startswith(("stuck:", "scheduler:")):
                uncontrolled += 1
            total_steps += len(steps)
            case = {"cfg": cfg.to_json(), "chooser": list(desc), "schedule": schedule, "label": label, "status": status}
            nontrivial = self.nontrivial(cfg, schedule)
            report.add_case({k: case[k] for k in ("cfg", "chooser", "label", "status")},
                            hash((cfg.model_line(), tuple(schedule))) if nontrivial else None)
            report.count("chooser:" + desc[0])
            report.count("pool:" + self.kind_of(cfg))
            report.count("status:" + status.split(":")[0])
            report.count(f"workers:{getattr(cfg, 'n_workers', len(getattr(cfg, 'scripts', [])))}")
            report.traces_validated += 1
            verdict = self.oracle(cfg, env, status, steps)
            if verdict is not None:
                detail, sig = verdict
                if sig in known:
                    known_hits[sig] = known[sig]
                elif prop_fail is None:
                    prop_fail = (case, detail, sig)
            if getattr(cfg, "oracle_only", False):
                # a use the model does not express (see the Cfg class): the implementation alone, judged by the oracle
                report.count("oracle-only")
            elif corr_fail is None:
                diff = self.compare(cfg, status, schedule, steps, env)
                if diff is not None:
                    corr_fail = (case, diff)
        report.extra["steps_compared"] = total_steps
        if prop_fail is None:
            # real processes and real multiprocessing primitives (what the controlled scheduler replaces): a few scenarios in
            # the quick tier, all of them in the thorough tier and whenever the correspondence or a proof no longer checks
            broken = corr_fail is not None or not proofs.ok
            soak = self.real_process_soak(report, self.real_scenarios if (tier == "thorough" or broken)
                                          else self.real_scenarios_quick)
            if soak is not None:
                prop_fail = soak

        violations = 0
        lines = []
        for sig, k in known_hits.items():
            lines.append(f"KNOWN-FINDING: property={self.pid} {k['what']}")
        if prop_fail is not None:
            case, detail, sig = prop_fail
            case = self.shrink_schedule(case)
            f = Finding("property", case, detail, signature=sig)
            path = report.write_replay(f)
            violations += 1
            lines.append(f"VIOLATION property={self.pid} replay={path}")
        elif corr_fail is not None or not proofs.ok:
            found = None
            srng = random.Random(seed ^ 0xA11CE)
            t_end = time.time() + (150 if tier == "quick" else 900)
            for _ in range(n * 10):
                cfg = self.gen_cfg(srng, "search")
                desc, ch = self.gen_chooser(srng)
                env, status, schedule, steps = self.run_sim(cfg, ch)
                report.evaluations += 1
                if status.startswith(("stuck:", "scheduler:")):
                    uncontrolled += 1
                    if uncontrolled >= 4:
                        break
                verdict = self.oracle(cfg, env, status, steps)
                if verdict is not None and verdict[1] not in known:
                    found = ({"cfg": cfg.to_json(), "chooser": list(desc), "schedule": schedule, "label": "search",
                              "status": status}, verdict[0], verdict[1])
                    break
                if time.time() > t_end:
                    break
            if found is not None:
                case, detail, sig = found
                path = report.write_replay(Finding("property", self.shrink_schedule(case), detail, signature=sig))
                violations += 1
                lines.append(f"VIOLATION property={self.pid} replay={path}")
            else:
                if corr_fail is not None:
                    case, (i, ml, il) = corr_fail
                    f = Finding("correspondence", case,
                                f"correspondence {self.pid}/{self.model_name} no longer checks at step {i}; no failing schedule found",
                                expected=ml, observed=il)
                else:
                    f = Finding("proof", {"label": "proof obligations"},
                                "proof obligations no longer check: " + " | ".join(proofs.problems))
                path = report.write_replay(f)
                violations += 1
                lines.append(f"VIOLATION property={self.pid} replay={path} no-failing-input-found")

        report.write_evidence(proofs, self.trusted_base, self.assumptions, violations, self.rule)
        for l in lines:
            print(l)
        if violations:
            return 1
        print(f"OK property={self.pid} tier={tier} seed={seed} schedules={report.evaluations} steps={total_steps} "
              f"theorems={len([t for t in proofs.theorems if not t.startswith('__')])} wall={time.time() - report.t0:.1f}s")
        return 0

    def systematic(self):
        """the whole role-priority family on a few small configurations (thorough tier)"""
        runs = []
        cfgs = [Cfg(n_workers=2, calls=[(3, 1, True)]), Cfg(n_workers=2, res_cap=1, calls=[(4, 1, True), (0, 1, True), (2, 1, False)]),
                Cfg(n_workers=2, factory=True, quota=1, calls=[(3, 1, True), (2, 1, False)]),
                Cfg(n_workers=1, factory=True, quota=1, calls=[(2, 1, True), (2, 1, True)], wait_ready=True),
                Cfg(n_workers=3, factory=True, quota=2, work_cap=None, res_cap=2, calls=[(6, 2, True)])]
        for cfg in cfgs:
            for order in ALL_ORDERS:
                for demote in ("after_put", "after_get", "never"):
                    for tie in (True, False):
                        runs.append((cfg, ("roles", order, demote, tie), chooser_roles(order, demote, tie), "systematic"))
        return runs

    def shrink_schedule(self, case):
        """delta debugging on the schedule: entries are removed as long as the oracle still reports a failure with the same
        signature; what is dropped is filled by 'the running thread goes on'.  The result is the schedule actually executed
        (so that `--replay` follows it exactly), with far fewer switches of thread than a random walk has."""
        try:
            if not case.get("schedule") or "real_scenario" in case.get("cfg", {}):
                return case
            cfg = self.cfg_from_json(case["cfg"])
            env, status, schedule, steps = self.run_sim(cfg, chooser_replay(list(case["schedule"])))
            v0 = self.oracle(cfg, env, status, steps)
            if v0 is None:
                return case  # not reproducible by its schedule alone: keep what was observed
            sig = v0[1]
            t_end = time.time() + 60

            def fails(prefs):
                if time.time() > t_end:
                    return False
                e, st, sch, stp = self.run_sim(cfg, chooser_prefer(list(prefs)))
                v = self.oracle(cfg, e, st, stp)
                return v is not None and v[1] == sig

            prefs = core.ddmin(list(case["schedule"]), fails, max_tests=250)
            e, st, sch, stp = self.run_sim(cfg, chooser_prefer(list(prefs)))
            v = self.oracle(cfg, e, st, stp)
            if v is None or v[1] != sig:
                return case
            switches = lambda xs: sum(1 for a, b in zip(xs, xs[1:]) if a != b)
            out = dict(case)
            out["schedule"] = sch
            out["status"] = st
            out["label"] = (case.get("label", "") + f" (schedule shrunk: {len(case['schedule'])} steps / "
                            f"{switches(case['schedule'])} switches -> {len(sch)} steps / {switches(sch)} switches)").strip()
            out["chooser"] = list(case.get("chooser", [])) + ["shrunk"]
            return out
        except Exception:  # noqa: shrinking is a convenience, the unshrunk case is a valid replay
            return case

    real_scenarios = ()
    real_scenarios_quick = ()
    real_module = "harness.realpool"

    def real_process_soak(self, report, scenarios):
        """real multiprocessing runs under a wall-clock watchdog (process group killed); a scenario is a failure only if it
        fails three times out of three"""
        import signal
        import subprocess
        import sys as _sys
        results = {}
        for name in scenarios:
            outcomes = []
            for attempt in range(3):
                p = subprocess.Popen([_sys.executable, "-m", self.real_module, name], cwd=core.VERIF,
                                     stdout=subprocess.PIPE, stderr=subprocess.STDOUT, text=True, start_new_session=True)
                try:
                    out, _ = p.communicate(timeout=40)
                    outcomes.append("ok" if (p.returncode == 0 and "DONE" in out) else "wrong:" + out.strip()[-200:])
                except subprocess.TimeoutExpired:
                    outcomes.append("hang")
                finally:
                    try:
                        os.killpg(p.pid, signal.SIGKILL)
                    except Exception:
                        pass
                    try:
                        p.communicate(timeout=5)
                    except Exception:
                        pass
                if outcomes[-1] == "ok":
                    break
            results[name] = outcomes
            report.count("real:" + outcomes[-1].split(":")[0])
            if outcomes[-1] != "ok":
                break  # failed three times out of three: reported below
        report.extra["real_process_runs"] = results
        for name, outcomes in results.items():
            if len(outcomes) == 3 and all(o != "ok" for o in outcomes):
                case = {"cfg": {"real_scenario": name}, "chooser": ["real-processes"], "schedule": [], "label": "real-process soak",
                        "status": outcomes[-1]}
                return (case, f"real-process scenario {name} failed three times out of three: {outcomes}", "real-process")
        return None

    def cfg_from_json(self, d):
        return Cfg(**d)

    def do_replay(self, path):
        r = json.load(open(path, encoding="utf-8"))
        c = r["case"]
        if "real_scenario" in c.get("cfg", {}):
            soak = self.real_process_soak(Report(self.pid, "replay", 0), [c["cfg"]["real_scenario"]])
            print("real-process scenario:", c["cfg"]["real_scenario"], "->", "failed" if soak is not None else "ok")
            return 1 if soak is not None else 0
        cfg = self.cfg_from_json(c["cfg"])
        try:
            env, status, schedule, steps = self.run_sim(cfg, chooser_replay(c["schedule"]))
        except HarnessError as e:
            # the recorded schedule is a schedule of the tree it was found on: on another tree a thread may not be able to
            # move where the schedule says so — then the recorded failure is not reproduced there
            print(f"the recorded schedule cannot be followed on this tree ({e}); following it as far as possible instead")
            env, status, schedule, steps = self.run_sim(cfg, chooser_prefer(list(c["schedule"])))
        print("status:", status)
        print("results:", env.results, "expected:", env.expected())
        print("logs:", env.logs)
        v = self.oracle(cfg, env, status, steps)
        print("oracle:", v)
        return 1 if v is not None else 0
