from .linefile import C11Prop as Prop
