# -*- coding: UTF-8 -*-
"""C06 / C07 — LRUCache and LFUCache: correspondence with Model/Cache.lean + independent stepwise oracle"""
import random

from ..core import Case, err_name, call_with_alarm, Timeout, dec_val, enc_val

_ABSENT = object()


_BIG = 10 ** 5000


def _raises_keyerror(fn):
    try:
        fn()
    except KeyError:
        return True
    return False


class _StrictKey:
    """a key whose `__eq__` works among its own kind only (`self.parts == other.parts`): a valid dict key — a dict compares keys
    only when their hashes are equal — that raises as soon as somebody compares it with a key of another kind"""
    __slots__ = ("v",)

    def __init__(self, v):
        self.v = v

    def __hash__(self):
        return hash((type(self).__name__, self.v))

    def __eq__(self, other):
        return self.v == other.v and type(other) is type(self)

    def __repr__(self):
        return str(self.v)


class KA(_StrictKey):
    __slots__ = ()


class KB(_StrictKey):
    __slots__ = ()


def kint(k):
    return k.v if isinstance(k, _StrictKey) else k


class FinVal(int):
    """a value with a finalizer that asks the cache about its own key: when the value is released because its entry is evicted,
    the key must already be gone from the cache (the lookups are misses and change nothing)"""
    watch = None  # (cache, log) while the harness performs a store that must evict an entry

    def __new__(cls, v, key):
        o = int.__new__(cls, v)
        o.key = key
        return o

    def __del__(self):
        w = FinVal.watch
        if w is not None:
            c, log = w
            try:
                log.append((self.key, self.key in c, c.get(self.key, _ABSENT) is not _ABSENT))
            except BaseException as e:  # noqa
                log.append((self.key, "raised", type(e).__name__))

    def __reduce__(self):
        return (int, (int(self),))

    def __copy__(self):
        return int(self)

    def __deepcopy__(self, memo):
        return int(self)
from ..seqcheck import SeqProp

VIEW_OPS = ("values", "items", "eq", "popitem", "clear", "has")


def parse_digest(line):
    """'... K:1,2 V:.. [C:..] N:2 D:1,2 A:1' -> dict"""
    d = {}
    for w in line.split(" "):
        if len(w) >= 2 and w[1] == ":" and w[0] in "KVCNDA":
            body = w[2:]
            d[w[0]] = [int(x) for x in body.split(",")] if body else []
    return d


def result_of(line):
    """the part before the digest"""
    i = line.find(" K:")
    return line if i < 0 else line[:i]


def core_clone_probe(c, digest):
    from .. import core
    return core.clone_probe(c, digest)


class CacheProp(SeqProp):
    kind = "lru"
    anchors = ["windpyutils/structures/caches.py", "windpyutils/structures/lists.py"]
    quick_cases = 5000
    thorough_cases = 50000
    trusted_base = ["Lean 4.33.0 kernel", "axioms: propext, Classical.choice, Quot.sound (audited per theorem)",
                    "hand-written model Model/Cache.lean (dict + linked list + MutableMapping mixins written out) tied "
                    "to caches.py by this correspondence run",
                    "collections.abc mixin definitions of CPython 3.12 (modelled, compared on every run)"]
    assumptions = ["max_size >= 1", "keys are hashable values compared by ==; the model uses natural numbers"]

    @property
    def model(self):
        return self.kind

    # ---- generation --------------------------------------------------------------------------------------------------
    def gen(self, rng, n, tier):
        for _ in range(n):
            yield self.gen_one(rng, tier)

    def gen_one(self, rng, tier):
        cap = rng.choice([1, 1, 2, 2, 3, 3, 4, 5])
        nkeys = rng.randint(2, 6)
        length = rng.randint(1, rng.choice([8, 20, 60]))
        ops = [f"new {cap}"]
        vcount = 0
        for _ in range(length):
            r = rng.random()
            k = rng.randrange(nkeys)
            vcount += 1
            if r < 0.32:
                # values are re-used on purpose: storing the identical object again must still count as a use
                ops.append(f"set {k} {rng.choice([0, 1, 2, 5 + vcount]) if rng.random() < 0.6 else 5 + vcount}")
            elif r < 0.52:
                ops.append(f"get {k}")
            elif r < 0.60:
                ops.append(f"del {k}")
            elif r < 0.68:
                ops.append(f"has {k}")
            else:
                o = rng.choice(["len", "iter", "keys", "values", "items", "getd", "pop", "popitem", "clear", "update",
                                "setdefault", "eq", "values", "items"])
                if o in ("getd", "pop"):
                    ops.append(f"{o} {k}")
                elif o == "setdefault":
                    ops.append(f"setdefault {k} {rng.choice([0, 5 + vcount])}")
                elif o == "update":
                    m = rng.choice([0, 1, 2, 3, 3, 5])
                    ops.append("update" + "".join(f" {rng.randrange(nkeys)} {rng.choice([0, vcount * 10 + j])}" for j in range(m)))
                elif o == "eq":
                    # often an equal dict: filled in at run time is impossible (ops are fixed), so random small dicts
                    m = rng.randint(0, 3)
                    ks = rng.sample(range(nkeys), min(m, nkeys))
                    ops.append("eq" + "".join(f" {kk} {rng.randint(0, 2)}" for kk in ks))
                else:
                    ops.append(o)
        meta = {}
        if rng.random() < 0.2:
            meta["strict_keys"] = True  # keys of three kinds in one cache, two of them comparable among their own kind only
        if rng.random() < 0.2:
            meta["fin"] = True  # values with a finalizer that looks its own key up when the entry is evicted
        return Case(ops, meta)

    def exhaustive(self, tier):
        alphabet = [f"set {k} {v}" for k in range(3) for v in (1,)] + [f"get {k}" for k in range(3)] + \
                   ["del 0", "has 1", "values", "popitem"]
        cases = []

        def rec(prefix, depth):
            if depth == 0:
                return
            for o in alphabet:
                seq = prefix + [o]
                for cap in (1, 2):
                    cases.append(Case([f"new {cap}"] + seq, {}))
                rec(seq, depth - 1)

        rec([], 4)
        return cases

    # ---- implementation ----------------------------------------------------------------------------------------------
    def make(self, cap):
        from windpyutils.structures import caches
        return caches.LRUCache(cap) if self.kind == "lru" else caches.LFUCache(cap)

    def digest(self, c):
        nodes = []
        n = c.list.head
        fuel = 10000
        while n is not None and len(nodes) < fuel:
            nodes.append(n)
            n = n.next_node
        if self.kind == "lru":
            ks = [kint(x.data[0]) for x in nodes]
            vs = [x.data[1] for x in nodes]
            cs = None
        else:
            ks = [kint(x.data.key) for x in nodes]
            vs = [x.data.value for x in nodes]
            cs = [x.data.meta for x in nodes]
        dk = sorted(kint(k) for k in c.cache.keys())
        ids = {id(x) for x in nodes}

        def key_of(node):
            return node.data[0] if self.kind == "lru" else node.data.key

        agree = all(id(nd) in ids and key_of(nd) is k or (type(key_of(nd)) is type(k) and key_of(nd) == k) for k, nd in c.cache.items()) and len(c.cache) == len(nodes)
        s = lambda xs: ",".join(map(str, xs))
        vs = [enc_val(v) for v in vs]
        out = f"K:{s(ks)} V:{s(vs)} "
        if cs is not None:
            out += f"C:{s(cs)} "
        out += f"N:{len(c.cache)} D:{s(dk)} A:{1 if agree else 0}"
        return out

    def absent_probe(self, c):
        """inherited calls that never count as a use: an absent key with and without a default"""
        k = 10 ** 9 + 7
        sent = ("default",)
        checks = [("pop(absent, default)", lambda: c.pop(k, sent), sent), ("pop(absent, None)", lambda: c.pop(k, None), None),
                  ("get(absent)", lambda: c.get(k), None), ("get(absent, default)", lambda: c.get(k, sent), sent),
                  ("absent in cache", lambda: k in c, False), ("absent in keys()", lambda: k in c.keys(), False),
                  ("len(keys()) == len(cache)", lambda: len(c.keys()) == len(c), True)]
        # an absent key that cannot be printed (an int beyond the interpreter's limit for conversion to text): a miss all the same
        big = _BIG
        checks += [("pop(unprintable absent key, default)", lambda: c.pop(big, sent), sent),
                   ("get(unprintable absent key, default)", lambda: c.get(big, sent), sent),
                   ("unprintable absent key in cache", lambda: big in c, False),
                   ("cache[unprintable absent key] raises KeyError", lambda: _raises_keyerror(lambda: c[big]), True),
                   ("del cache[unprintable absent key] raises KeyError", lambda: _raises_keyerror(lambda: c.__delitem__(big)), True)]
        for name, fn, want in checks:
            try:
                got = fn()
            except BaseException as e:  # noqa
                if isinstance(e, (KeyboardInterrupt, SystemExit)):
                    raise
                return f"{name} raised {err_name(e)}"
            if got is not want and got != want:
                return f"{name} gave {got!r}, a mapping gives {want!r}"
        return None

    def K(self, i):
        if not self._strict:
            return i
        return (i, KA(i), KB(i))[i % 3]

    def run_impl(self, case):
        self._strict = bool(case.meta.get("strict_keys"))
        self._fin = bool(case.meta.get("fin"))
        cap_now = 1
        c = self.make(1)
        out = []
        # another cache of the same class is alive and in use all the time: caches are independent of each other
        other = self.make(2)
        other_ref = []
        # a shallow copy made half-way stays alive: whatever happens to the cache afterwards, the copy is either still the
        # same cache (an alias) or what the cache was when it was copied — never a third, inconsistent thing
        shallow = [None, None]
        for op in case.ops:
            w = op.split()
            n = len(out)
            try:
                other[f"b{n % 3}"] = n
                other_ref = [x for x in other_ref if x[0] != f"b{n % 3}"] + [(f"b{n % 3}", n)]
            except Exception:  # noqa
                other_ref = None
            fin_log = None
            if self._fin and w[0] == "set":
                try:
                    if len(c) == cap_now and int(w[1]) not in [kint(x) for x in c]:
                        fin_log = []
                        FinVal.watch = (c, fin_log)  # this store has to evict an entry
                except Exception:  # noqa
                    pass
            try:
                try:
                    r = call_with_alarm(lambda: self.do_op(c, w), 2.0)
                finally:
                    FinVal.watch = None
                if isinstance(r, tuple) and r[0] == "new":
                    c = r[1]
                    cap_now = int(w[1])
                    r = "ok"
                    shallow[0] = None  # the copy belonged to the cache that was just replaced
            except Timeout:
                out.append("timeout")
                c = self.make(1)  # the structure may be mid-operation; continue on a fresh one
                shallow[0] = None
                continue
            except BaseException as e:  # noqa
                if isinstance(e, (KeyboardInterrupt, SystemExit)):
                    raise
                r = f"err {err_name(e)}"
            if r == "bad-op":
                out.append(r)
            else:
                if n % 3 == 1:
                    # formatting the cache (logging, debugging output) is not a use of any entry
                    try:
                        repr(c); str(c); "{}".format(c)
                    except Exception:  # noqa: keys / values with a failing repr are the keys' business
                        pass
                out.append(r + " " + self.digest(c))
                mix = None
                bad = [x for x in (fin_log or []) if x[1] is not False or x[2] is not False]
                if bad:
                    mix = (f"during the store that evicted key {bad[0][0]} the finalizer of the evicted value looked its key up: "
                           f"`key in cache` gave {bad[0][1]!r}, `get(key)` found something: {bad[0][2]!r} (the key is gone: both are misses)")
                if n % 3 == 2:
                    mix = self.absent_probe(c)
                if n == 3:
                    try:
                        import copy as _copy
                        shallow[0], shallow[1] = _copy.copy(c), self.digest(c)
                    except Exception:  # noqa: not every object can be copied
                        shallow[0] = None
                elif n > 3 and n % 2 == 0 and shallow[0] is not None and mix is None:
                    try:
                        ds = self.digest(shallow[0])
                        if ds not in (self.digest(c), shallow[1]) or not ds.endswith("A:1"):
                            mix = (f"a shallow copy taken earlier now presents {ds[:200]!r}: neither the cache as it is "
                                   f"({self.digest(c)[:200]!r}) nor the cache as it was copied ({shallow[1][:200]!r})")
                    except Exception as e:  # noqa
                        mix = f"a shallow copy taken earlier cannot be read any more: {err_name(e)}"
                if mix is None and n in (3, 12):
                    # copies (shallow, deep, pickled) are made, read and dropped: the cache itself is left as it was
                    mix = core_clone_probe(c, self.digest)
                if mix is None and n % 4 == 3:
                    try:
                        if other_ref is None or len(other) > 2 or not set(other.keys()) <= {"b0", "b1", "b2"} or \
                                any(other.get(k, v) != v for k, v in other_ref if k in other.keys()):
                            mix = f"another cache of the same class, used in between, holds {dict(other.items())!r}"
                    except Exception as e:  # noqa
                        mix = f"another cache of the same class, used in between, raised {err_name(e)}"
                if mix is not None:
                    out[-1] = "mixin-mismatch " + mix + " ;; " + out[-1]
        return out

    def do_op(self, c, w):
        s = lambda xs: ",".join(map(str, xs))
        o = w[0]
        K = self.K

        def V(code, k):
            v = dec_val(code)
            return FinVal(v, K(k)) if self._fin and type(v) is int and v >= 5 else v

        if o == "new":
            return ("new", self.make(int(w[1])))
        if o == "set":
            c[K(int(w[1]))] = V(int(w[2]), int(w[1])); return "ok"
        if o == "get":
            return f"ret {enc_val(c[K(int(w[1]))])}"
        if o == "del":
            del c[K(int(w[1]))]; return "ok"
        if o == "has":
            return f"ret {1 if K(int(w[1])) in c else 0}"
        if o == "len":
            return f"ret {len(c)}"
        if o == "iter":
            return f"list {s(kint(k) for k in c)}"
        if o == "keys":
            return f"list {s(kint(k) for k in c.keys())}"
        if o == "values":
            return f"list {s(enc_val(v) for v in c.values())}"
        if o == "items":
            return "pairs " + ",".join(f"{kint(k)}:{enc_val(v)}" for k, v in c.items())
        if o == "getd":
            # a stored None must not be taken for "absent"
            v = c.get(K(int(w[1])), _ABSENT)
            return f"ret {'-' if v is _ABSENT else enc_val(v)}"
        if o == "pop":
            return f"ret {enc_val(c.pop(K(int(w[1]))))}"
        if o == "popitem":
            k, v = c.popitem(); return f"pairs {kint(k)}:{enc_val(v)}"
        if o == "clear":
            c.clear(); return "ok"
        if o == "update":
            a = [int(x) for x in w[1:]]
            pairs = [(K(k), V(v, k)) for k, v in zip(a[0::2], a[1::2])]
            if len({k for k in a[0::2]}) == len(pairs) and len(pairs) % 2:
                c.update(dict(pairs))  # a Mapping (possibly with more items than the cache holds) instead of pairs
            else:
                c.update(pairs)
            return "ok"
        if o == "setdefault":
            return f"ret {enc_val(c.setdefault(K(int(w[1])), V(int(w[2]), int(w[1]))))}"
        if o == "eq":
            a = [int(x) for x in w[1:]]
            other = dict(zip(map(K, a[0::2]), map(dec_val, a[1::2])))
            # one comparison only (a comparison is a use in the LFU cache): == and != alternate
            r = (c == other) if len(other) % 2 else not (c != other)
            return f"ret {1 if r else 0}"
        return "bad-op"

    # ---- oracle --------------------------------------------------------------------------------------------------------
    def key(self, case, impl_out):
        if len(case.ops) >= 4 and any(o.startswith("set") for o in case.ops):
            return hash(tuple(case.ops))
        return None

    def oracle(self, case, impl_out):
        cap = 1
        st = []  # list of (k, v) lru: MRU first | lfu: (k, v, c) in list order
        for i, (op, line) in enumerate(zip(case.ops, impl_out)):
            if line.startswith("mixin-mismatch "):
                return f"op {i} `{op}`: {line[15:].split(' ;; ')[0][:600]}"
            if line == "timeout":
                return f"op {i} `{op}` did not terminate within 2 s"
            w = op.split()
            d = parse_digest(line)
            res = result_of(line)
            if w[0] == "new":
                cap = int(w[1]); st = []
            if "K" not in d:
                return f"op {i} `{op}`: no state digest in {line[:200]!r}"
            ks, vs = d["K"], d["V"]
            new = list(zip(ks, vs, d["C"])) if self.kind == "lfu" else list(zip(ks, vs))
            # structural invariants
            if d["A"] != [1] or d["N"] != [len(ks)] or d["D"] != sorted(ks) or len(set(ks)) != len(ks):
                return f"op {i} `{op}`: dict and list disagree: {line[:300]!r}"
            if len(ks) > cap:
                return f"op {i} `{op}`: {len(ks)} entries exceed max_size {cap}"
            if self.kind == "lfu" and any(a > b for a, b in zip(d["C"], d["C"][1:])):
                return f"op {i} `{op}`: use counts not non-decreasing along the list: {d['C']}"
            msg = self.step_ok(cap, st, w, res, new)
            if msg is not None:
                return f"op {i} `{op}`: {msg}; before={st} after={new} result={res!r}"
            st = new
        return None

    def step_ok(self, cap, st, w, res, new):
        raise NotImplementedError


class LruProp(CacheProp):
    kind = "lru"
    pid = "C06"
    rule = ("random store/lookup/delete/membership/view/mixin sequences over 2-6 keys and capacities 1-5, values re-used and "
            "including None, 0, '', (), False, 0.0; == and != against dicts (thorough: all "
            "sequences to length 4 over a 13-op alphabet, capacities 1-2); after every op result, key order, values, len, "
            "dict keys and dict/list agreement are compared with the Lean model and judged by a stepwise LRU oracle; "
            "non-trivial = at least 4 ops with a store")

    def corpus(self):
        return [
            Case(["new 3", "set 0 10", "set 1 20", "set 2 30", "values", "items", "eq 0 10 1 20 2 30", "iter"], {},
                 "D3: views never terminated"),
            Case(["new 2", "set 0 1", "set 1 2", "get 0", "set 2 3", "iter", "has 1", "has 0", "set 3 4", "iter"], {},
                 "eviction after lookups and membership"),
            Case(["new 1", "set 0 1", "set 1 2", "set 1 3", "popitem", "popitem", "clear", "pop 0", "getd 0",
                  "setdefault 0 5", "setdefault 0 6", "update 0 1 1 2 0 3"], {}, "capacity one and mixins"),
        ]

    def step_ok(self, cap, st, w, res, new):
        o = w[0]
        d = dict(st)
        keys = [k for k, _ in st]

        def use(s, k):
            return [(kk, vv) for kk, vv in s if kk == k] + [(kk, vv) for kk, vv in s if kk != k]

        def store(s, k, v):
            if k in dict(s):
                return use([(kk, v if kk == k else vv) for kk, vv in s], k)
            if len(s) >= cap:
                s = s[:-1]
            return [(k, v)] + s

        same_content = sorted(new) == sorted(st)
        if o == "new":
            return None if (new == [] and res == "ok") else "fresh cache not empty"
        if o == "set":
            exp = store(st, int(w[1]), int(w[2]))
            return None if (new == exp and res == "ok") else f"expected {exp}"
        if o in ("get", "getd"):
            k = int(w[1])
            if k in d:
                exp = use(st, k)
                return None if (res == f"ret {d[k]}" and new == exp) else f"expected ret {d[k]} and {exp}"
            expres = "err KeyError" if o == "get" else "ret -"
            return None if (res == expres and new == st) else f"expected {expres}, unchanged"
        if o == "del":
            k = int(w[1])
            if k in d:
                exp = [(kk, vv) for kk, vv in st if kk != k]
                return None if (res == "ok" and new == exp) else f"expected {exp}"
            return None if (res == "err KeyError" and new == st) else "expected KeyError, unchanged"
        if o == "has":
            k = int(w[1])
            if k in d:
                return None if (res == "ret 1" and new in (st, use(st, k))) else "membership of a present key"
            return None if (res == "ret 0" and new == st) else "membership of an absent key"
        if o == "len":
            return None if (res == f"ret {len(st)}" and new == st) else "len"
        if o in ("iter", "keys"):
            return None if (res == "list " + ",".join(map(str, keys)) and new == st) else "iteration order"
        if o == "values":
            return None if (res == "list " + ",".join(str(v) for _, v in st) and same_content) else "values()"
        if o == "items":
            return None if (res == "pairs " + ",".join(f"{k}:{v}" for k, v in st) and same_content) else "items()"
        if o == "pop":
            k = int(w[1])
            if k in d:
                exp = [(kk, vv) for kk, vv in st if kk != k]
                return None if (res == f"ret {d[k]}" and new == exp) else f"expected ret {d[k]} and {exp}"
            return None if (res == "err KeyError" and new == st) else "expected KeyError, unchanged"
        if o == "popitem":
            if not st:
                return None if (res == "err KeyError" and new == []) else "popitem on empty"
            if not res.startswith("pairs "):
                return "popitem result"
            k, v = (int(x) for x in res[6:].split(":"))
            return None if ((k, v) in st and sorted(new) == sorted(p for p in st if p != (k, v))) else "popitem content"
        if o == "clear":
            return None if (res == "ok" and new == []) else "clear"
        if o == "update":
            a = [int(x) for x in w[1:]]
            exp = st
            for k, v in zip(a[0::2], a[1::2]):
                exp = store(exp, k, v)
            return None if (res == "ok" and new == exp) else f"expected {exp}"
        if o == "setdefault":
            k, v = int(w[1]), int(w[2])
            if k in d:
                return None if (res == f"ret {d[k]}" and new == use(st, k)) else "setdefault present"
            exp = store(st, k, v)
            return None if (res == f"ret {v}" and new == exp) else f"expected {exp}"
        if o == "eq":
            a = [int(x) for x in w[1:]]
            other = dict(zip(a[0::2], a[1::2]))
            return None if (res == f"ret {1 if d == other else 0}" and same_content) else "== against a dict"
        return None

    def observable_kind(self, case, i, model_line, impl_line):
        return "MO"  # a property failure is found by the oracle first; a remaining difference is model-only


class LfuProp(CacheProp):
    kind = "lfu"
    pid = "C07"
    rule = ("random store/lookup/delete/membership/view/mixin sequences over 2-6 keys and capacities 1-5, values re-used and "
            "including None, 0, '', (), False, 0.0; == and != against dicts (thorough: all "
            "sequences to length 4 over a 13-op alphabet, capacities 1-2); after every op result, list order, values, use "
            "counts, len, dict keys and dict/list agreement are compared with the Lean model and judged by a stepwise LFU "
            "oracle that leaves ties among equal counts free; non-trivial = at least 4 ops with a store")

    def corpus(self):
        return [
            Case(["new 3", "set 0 10", "set 1 20", "set 2 30", "values", "items", "eq 0 10 1 20 2 30", "iter"], {},
                 "D4: views skipped entries"),
            Case(["new 3", "set 0 1", "set 0 2", "get 0", "getd 0", "setdefault 0 9"], {}, "D5: overwrite keeps old value"),
            Case(["new 2", "set 0 1", "set 1 2", "get 0", "get 0", "get 1", "set 2 3", "iter", "set 3 4", "iter", "get 2",
                  "get 2", "get 2", "set 4 5", "iter"], {}, "victims by count"),
        ]

    def step_ok(self, cap, st, w, res, new):
        o = w[0]
        d = {k: (v, c) for k, v, c in st}
        content = sorted(st)
        newc = sorted(new)

        def bumped(k, v=None):
            return sorted((kk, (v if (kk == k and v is not None) else vv), cc + (1 if kk == k else 0)) for kk, vv, cc in st)

        def store_options(s, k, v):
            """list of allowed contents (sorted) after c[k]=v"""
            dd = {kk: (vv, cc) for kk, vv, cc in s}
            if k in dd:
                return [sorted((kk, (v if kk == k else vv), cc + (1 if kk == k else 0)) for kk, vv, cc in s)]
            if len(s) >= cap:
                m = min(cc for _, _, cc in s)
                return [sorted([p for p in s if p != victim] + [(k, v, 1)]) for victim in s if victim[2] == m]
            return [sorted(list(s) + [(k, v, 1)])]

        def lenient(keys_used):
            """views: every used key's count grew by 0 or 1, values untouched"""
            if [k for k, _, _ in newc] != [k for k, _, _ in content]:
                return False
            for (k, v, c), (k2, v2, c2) in zip(content, newc):
                if v != v2 or c2 not in ((c, c + 1) if k in keys_used else (c,)):
                    return False
            return True

        if o == "new":
            return None if (new == [] and res == "ok") else "fresh cache not empty"
        if o == "set":
            opts = store_options(st, int(w[1]), int(w[2]))
            return None if (res == "ok" and newc in opts) else f"expected one of {opts}"
        if o in ("get", "getd"):
            k = int(w[1])
            if k in d:
                return None if (res == f"ret {d[k][0]}" and newc == bumped(k)) else f"expected ret {d[k][0]} and count+1"
            expres = "err KeyError" if o == "get" else "ret -"
            return None if (res == expres and new == st) else f"expected {expres}, unchanged"
        if o in ("del", "pop"):
            k = int(w[1])
            if k in d:
                exp = sorted(p for p in st if p[0] != k)
                expres = "ok" if o == "del" else f"ret {d[k][0]}"
                return None if (res == expres and newc == exp) else f"expected {expres} and {exp}"
            return None if (res == "err KeyError" and new == st) else "expected KeyError, unchanged"
        if o == "has":
            k = int(w[1])
            if k in d:
                return None if (res == "ret 1" and newc in (content, bumped(k))) else "membership of a present key"
            return None if (res == "ret 0" and new == st) else "membership of an absent key"
        if o == "len":
            return None if (res == f"ret {len(st)}" and new == st) else "len"
        if o in ("iter", "keys"):
            return None if (res == "list " + ",".join(str(k) for k, _, _ in st) and new == st) else "iteration order"
        if o == "values":
            return None if (res == "list " + ",".join(str(v) for _, v, _ in st) and lenient(set(d))) else "values()"
        if o == "items":
            return None if (res == "pairs " + ",".join(f"{k}:{v}" for k, v, _ in st) and lenient(set(d))) else "items()"
        if o == "popitem":
            if not st:
                return None if (res == "err KeyError" and new == []) else "popitem on empty"
            if not res.startswith("pairs "):
                return "popitem result"
            k, v = (int(x) for x in res[6:].split(":"))
            if k not in d or d[k][0] != v:
                return "popitem returned a pair that was not stored"
            return None if sorted((a, b) for a, b, _ in new) == sorted((a, b) for a, b, _ in st if a != k) else "popitem content"
        if o == "clear":
            return None if (res == "ok" and new == []) else "clear"
        if o == "update":
            a = [int(x) for x in w[1:]]
            opts = [content]
            for k, v in zip(a[0::2], a[1::2]):
                nxt = []
                for s in opts:
                    for s2 in store_options(s, k, v):
                        if s2 not in nxt:
                            nxt.append(s2)
                opts = nxt
            return None if (res == "ok" and newc in opts) else f"expected one of {opts}"
        if o == "setdefault":
            k, v = int(w[1]), int(w[2])
            if k in d:
                return None if (res == f"ret {d[k][0]}" and newc == bumped(k)) else "setdefault present"
            opts = store_options(st, k, v)
            return None if (res == f"ret {v}" and newc in opts) else f"expected one of {opts}"
        if o == "eq":
            a = [int(x) for x in w[1:]]
            other = dict(zip(a[0::2], a[1::2]))
            mine = {k: v for k, v, _ in st}
            return None if (res == f"ret {1 if mine == other else 0}" and lenient(set(d))) else "== against a dict"
        return None

    def observable_kind(self, case, i, model_line, impl_line):
        return "MO"
