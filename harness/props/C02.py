from .poolbase import PoolProp, chooser_roles, chooser_starve
from ..poolsim import Cfg
import random


class Prop(PoolProp):
    pid = "C02"
    focus = "termination"
    real_scenarios_quick = ("d19_late_retirement", "late_exhaustion", "other_start_methods", "join_timeout_zero", "nested_children")
    real_scenarios = ("nested_children", "join_timeout_zero", "other_start_methods", "late_exhaustion", "late_items_flow_control", "factory_quota_two_calls", "factory_quota_bounded",
                      "d19_late_retirement")
    rule = ("as C01, with schedules biased to starve the feeding thread (late exhaustion of the input), the consumer or the "
            "workers, and bounded result queues that trigger flow control; oracle: the run ends with every thread finished (no "
            "state in which no thread can move while the caller has not finished), incl. leaving the pool context (the witness "
            "of the repaired D19 runs first every time); non-trivial = at least 20 steps with a non-empty call")

    def gen_chooser(self, rng):
        if rng.random() < 0.35:
            seed = rng.randrange(1 << 30)
            victim = rng.choice("FFFCW")
            return ("starve", seed, victim), chooser_starve(random.Random(seed), victim)
        return PoolProp.gen_chooser(self, rng)

    def cover_cfgs(self, tier):
        # flow control (result bound 1) and a bounded work queue with a single worker: every reachable transition
        cfgs = [Cfg(n_workers=1, res_cap=1, work_cap=1, calls=[(2, 1, True)])]
        if tier == "thorough":
            cfgs += [Cfg(n_workers=2, res_cap=1, calls=[(2, 1, True)]), Cfg(n_workers=2, factory=True, quota=1, work_cap=1, calls=[(2, 1, True)])]
        return cfgs

    def corpus(self):
        return [(Cfg(n_workers=2, calls=[(2, 1, True)]), ("starve", 1, "F"), chooser_starve(random.Random(1), "F"),
                 "D16: feeder clears the flag after the last result was consumed"),
                (Cfg(n_workers=2, calls=[(2, 1, False), (0, 1, True)]), ("starve", 2, "F"), chooser_starve(random.Random(2), "F"),
                 "D16 on imap_unordered and an empty call"),
                (Cfg(n_workers=2, factory=True, quota=1, work_cap=1, calls=[(2, 1, True)]), ("roles", "CRFW", "after_put", True),
                 chooser_roles("CRFW", "after_put", True), "D19 (repaired): unreplaced retirements at the end of the last call, work-queue bound below the worker count")]
