# -*- coding: UTF-8 -*-
"""C14 — TextFileStorage under the controlled scheduler; step-by-step correspondence with Model/Storage.lean"""
import random

from .poolbase import PoolProp, chooser_uniform, chooser_pct
from ..storagesim import SCfg, StorageEnv


def order_key(name):
    return int(name[1:])


def chooser_bursts(rng):
    """long bursts of one process, switching at random points: exposes reads between a writer's steps"""
    state = {"cur": None, "left": 0}

    def choose(en, sched):
        if state["cur"] in en and state["left"] > 0:
            state["left"] -= 1
            return state["cur"]
        state["cur"] = rng.choice(en)
        state["left"] = rng.choice([0, 1, 2, 3, 5, 8, 13])
        return state["cur"]

    return choose


def chooser_after_publish(rng):
    """right after a process published an index entry (or released the lock) the others get a long burst: the window in
    which a reader can follow a fresh index entry"""
    state = {"cur": None, "left": 0}

    def choose(en, sched):
        if sched.log:
            t, label, res = sched.log[-1]
            if label in ("index.setitem", "lock.release") and rng.random() < 0.6:
                others = [x for x in en if x != t]
                if others:
                    state["cur"] = rng.choice(others)
                    state["left"] = rng.choice([8, 10, 14, 20])
        if state["cur"] in en and state["left"] > 0:
            state["left"] -= 1
            return state["cur"]
        state["cur"] = rng.choice(en)
        state["left"] = rng.choice([0, 1, 2, 4])
        return state["cur"]

    return choose


class Prop(PoolProp):
    pid = "C14"
    focus = "storage"
    model_name = "storage"
    anchors = ["windpyutils/parallel/storage.py"]
    quick_runs = 400
    thorough_runs = 2500
    # real files, a real Manager, really forked writers and readers (what the simulation replaces); ~0.3 s each
    real_module = "harness.realstorage"
    real_scenarios = ("seq_model", "opened_before_fork", "writers_readers", "reversed_gapped", "presized_larger", "big_texts", "sessions", "ascii_locale")
    real_scenarios_quick = real_scenarios
    rule = ("2-4 simulated processes with their own fork-style copy of one storage: writers with disjoint, gapped, reversed "
            "or clashing identifiers (pre-sized index in a third of the runs; in half of the runs written data is invisible "
            "to readers until flush(), in the other half every write is visible at once), readers polling identifiers while they are being "
            "stored, len / is_contiguous / iteration during and after the writes, flush; a final process inspects the quiescent "
            "state; schedules from uniform random walks, PCT-style priorities and long bursts with random switches; every step "
            "(operation, result, index/counter/lock/file digest, enabled set) compared with the Lean model; oracle: every read "
            "raises IndexError or returns exactly the stored text, double stores raise ValueError once, final len / "
            "is_contiguous / iteration match the stored identifiers; a quarter of the runs add context-manager sessions (exit, "
            "re-open in append mode by the next store) and are judged by the oracle only; non-trivial = at least 30 steps with a store and a read")
    trusted_base = ["Lean 4.33.0 kernel", "axioms: propext, Classical.choice, Quot.sound (audited per theorem)",
                    "hand-written interleaving model Model/Storage.lean tied to storage.py by step-by-step correspondence under "
                    "the controlled scheduler",
                    "modelled, not verified: each manager-list / Value / RLock operation is atomic; a write is visible to "
                    "readers at once and print() issues text and terminator as two writes; POSIX append/seek/readline semantics; "
                    "processes open their own handles"]
    assumptions = ["single-line texts", "flush() only when no other process uses the storage (documented requirement)"]

    def kind_of(self, cfg):
        return f"procs:{len(cfg.scripts)}" + (":buffered" if cfg.buffered else ":write-through")

    def nontrivial(self, cfg, schedule):
        ops = [op[0] for sc in cfg.scripts for op in sc]
        return len(schedule) >= 30 and "store" in ops and "read" in ops

    def cfg_from_json(self, d):
        return SCfg(**d)

    def cover_cfgs(self, tier):
        # every reachable transition of the model: a writer, a concurrent reader and the final inspection; two writers storing
        # out of order next to a reader; a clash of two stores on one identifier with a pre-sized index
        fin = [["iter"], ["len"], ["contig"]]
        cfgs = [SCfg(0, [[["store", 0, 1]], [["read", 0]], fin]),
                SCfg(2, [[["store", 1, 1]], [["store", 1, 2]], [["contig"], ["read", 1]]]),
                # a session: store, close, store again (the file is re-opened in append mode) next to a reader that closes too
                SCfg(0, [[["store", 0, 1], ["close"], ["store", 1, 2]], [["read", 0], ["close"], ["read", 1]]])]
        if tier == "thorough":
            cfgs += [SCfg(0, [[["store", 0, 1], ["store", 1, 2]], [["read", 0], ["read", 1]], fin], buffered=True),
                     SCfg(0, [[["store", 1, 1]], [["store", 0, 2]], [["read", 1], ["len"]], fin + [["read", 0]]])]
        return cfgs

    def corpus(self):
        return [
            (SCfg(0, [[["store", 0, 1], ["store", 5, 2], ["store", 2, 3]], [["read", 5], ["read", 5], ["read", 2], ["read", 1]],
                      [["iter"], ["len"], ["contig"]]]), ("bursts", 1), chooser_bursts(random.Random(1)),
             "D13/D14: gaps and a concurrent reader"),
            (SCfg(4, [[["store", 3, 1], ["store", 1, 2]], [["store", 0, 3], ["store", 3, 4], ["store", 2, 5]],
                      [["iter"], ["len"], ["contig"]]]), ("uniform", 2), chooser_uniform(random.Random(2)),
             "pre-sized index, reversed arrival, a clash"),
            (SCfg(0, [[["store", 0, 1], ["store", 1, 2], ["iter"], ["flush"], ["len"], ["iter"], ["store", 0, 3], ["read", 0]],
                      [["len"]]]), ("uniform", 3), chooser_uniform(random.Random(3)), "flush resets the storage"),
        ]

    def gen_cfg(self, rng, tier):
        nproc = rng.choice([2, 2, 3, 3, 4])
        nids = rng.choice([2, 3, 4, 6])
        ids = list(range(nids))
        if rng.random() < 0.4:
            ids = [i * rng.choice([1, 2]) + rng.choice([0, 0, 1]) for i in ids]  # gaps
        ids = sorted(set(ids))
        rng.shuffle(ids)
        scripts = [[] for _ in range(nproc)]
        tno = 0
        for g in ids:
            w = rng.randrange(nproc)
            tno += 1
            scripts[w].append(["store", g, tno])
            if rng.random() < 0.15:
                tno += 1
                scripts[rng.randrange(nproc)].append(["store", g, tno])  # clash
        for k in range(nproc):
            extra = rng.randint(0, 4) if scripts[k] else rng.randint(2, 6)
            for _ in range(extra):
                r = rng.random()
                pos = rng.randint(0, len(scripts[k]))
                if r < 0.6:
                    g = rng.choice(ids + [max(ids) + 1])
                    for _ in range(rng.choice([1, 1, 2, 3])):
                        scripts[k].insert(pos, ["read", g])
                elif r < 0.75:
                    scripts[k].insert(pos, ["len"])
                elif r < 0.9:
                    scripts[k].insert(pos, ["contig"])
                else:
                    scripts[k].insert(pos, ["iter"])
        if rng.random() < 0.6:
            # a polling reader: keeps asking for identifiers that are being stored right now
            gs = rng.sample(ids, min(len(ids), rng.choice([1, 2])))
            poll = []
            for _ in range(rng.choice([4, 6, 8])):
                poll.append(["read", rng.choice(gs)])
            scripts.append(poll)
        if rng.random() < 0.3:
            # close() between two operations (modelled: Op.close): the next store re-opens the process's file in append mode,
            # read handles are re-opened on demand
            for sc in scripts:
                if sc and rng.random() < 0.7:
                    for _ in range(rng.choice([1, 1, 2])):
                        sc.insert(rng.randint(1, len(sc)), ["close"])
        elif rng.random() < 0.25:
            # context-manager sessions (oracle-only runs): a process leaves its session between two operations and goes on —
            # its file is re-opened in append mode by the next store, its read handles are re-opened on demand
            for sc in scripts:
                if sc and rng.random() < 0.7:
                    if rng.random() < 0.5:
                        sc.insert(0, ["enter"])
                    for _ in range(rng.choice([1, 1, 2])):
                        sc.insert(rng.randint(1, len(sc)), ["exit"])
        scripts.append([["iter"], ["len"], ["contig"]] + [["read", g] for g in sorted(set(ids))[:4]])
        # number_of_data: none, exactly enough, more than ever stored (the index stays longer than the stored ids), too small
        presize = rng.choice([0, 0, max(ids) + 1, max(ids) + 1 + rng.randint(1, 3), rng.randint(1, max(ids) + 1)])
        return SCfg(presize, scripts, buffered=rng.random() < 0.5)

    def gen_chooser(self, rng):
        r = rng.random()
        seed = rng.randrange(1 << 30)
        if r < 0.25:
            return ("uniform", seed), chooser_uniform(random.Random(seed))
        if r < 0.4:
            d = rng.randint(1, 3)
            return ("pct", seed, d), chooser_pct(random.Random(seed), d)
        if r < 0.65:
            return ("bursts", seed), chooser_bursts(random.Random(seed))
        return ("after_publish", seed), chooser_after_publish(random.Random(seed))

    def systematic(self):
        return []

    def run_sim(self, cfg, chooser):
        env = StorageEnv(cfg)
        steps = []
        last = f"P{len(cfg.scripts) - 1}"

        def wrapped(en, sched):
            if sched.log and len(steps) < len(sched.log):
                t, l, r = sched.log[-1]
                steps.append([t, l, r, env.digest(), sorted(en, key=order_key)])
            # the final inspecting process runs only when everybody else has finished
            others = [t for t in en if t != last]
            busy = any(not th.finished for n, th in sched.threads.items() if n != last)
            return chooser(others, sched) if (others and busy) else chooser(en, sched)

        status, schedule, log = env.run(wrapped)
        if len(steps) < len(log):
            t, l, r = log[-1]
            steps.append([t, l, r, env.digest(), []])
        return env, status, schedule, steps

    def model_lines(self, cfg, schedule):
        return [cfg.model_line()] + [f"step {t[1:]}" for t in schedule] + ["final"]

    def impl_final(self, cfg, env, status):
        return "results:" + "|".join(",".join(r) for r in env.results) + " # " + env.digest()

    def oracle(self, cfg, env, status, steps):
        if status.startswith(("stuck:", "scheduler:")):
            return None  # the run could not be controlled: nothing observed about the property (compare() reports it)
        if status != "done":
            return (f"the storage operations do not terminate: {status}", "deadlock:" + status)
        stores = {}  # gid -> list of (text, result)
        for sc, res in zip(cfg.scripts, env.results):
            for op, r in zip(sc, res):
                if op[0] == "store":
                    stores.setdefault(op[1], []).append((f"T{op[2]}", r))
        flushed = any(op[0] == "flush" for sc in cfg.scripts for op in sc)
        stored = {}
        for g, lst in stores.items():
            oks = [t for t, r in lst if r == "ok"]
            if not flushed:
                if len(oks) != 1 or any(r not in ("ok", "ValueError") for _, r in lst):
                    return (f"identifier {g}: store results {lst} (exactly one store must succeed, the others raise ValueError)",
                            "double-store")
                stored[g] = oks[0]
        if flushed:
            return None  # the flush scenarios are judged by the model comparison and the final reads below are not meaningful
        for k, (sc, res) in enumerate(zip(cfg.scripts, env.results)):
            for op, r in zip(sc, res):
                if op[0] == "read":
                    ok = r == "IndexError" or (op[1] in stored and r == "text:" + stored[op[1]])
                    if not ok:
                        return (f"process {k} read identifier {op[1]} and got {r!r}; stored under it: {stored.get(op[1])!r}", "bad-read")
                elif op[0] == "iter":
                    got = r[len("texts:"):].split(",") if r != "texts:" else []
                    exp_order = [stored[g] for g in sorted(stored)]
                    if any(x not in exp_order for x in got) or [x for x in exp_order if x in got] != got:
                        return (f"process {k} iterated {got}; stored in identifier order: {exp_order}", "bad-iter")
        # the final process sees the quiescent state
        fin_sc, fin_res = cfg.scripts[-1], env.results[-1]
        for op, r in zip(fin_sc, fin_res):
            if op[0] == "iter" and r != "texts:" + ",".join(stored[g] for g in sorted(stored)):
                return (f"final iteration {r!r}, expected every stored text in identifier order {[stored[g] for g in sorted(stored)]}", "bad-iter")
            if op[0] == "len" and r != f"nat:{len(stored)}":
                return (f"final len {r!r}, expected {len(stored)}", "bad-len")
            if op[0] == "contig" and r != f"bool:{1 if sorted(stored) == list(range(len(stored))) else 0}":
                return (f"final is_contiguous {r!r} for stored identifiers {sorted(stored)}", "bad-contig")
            if op[0] == "read" and r != "text:" + stored.get(op[1], "?"):
                return (f"final read of {op[1]} gave {r!r}, stored {stored.get(op[1])!r}", "bad-read")
        return None
