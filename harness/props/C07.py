from .cachebase import LfuProp as Prop
