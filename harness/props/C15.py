# -*- coding: UTF-8 -*-
"""C15 — Buffer / PrintBuffer / CircularBuffer: correspondence with Model/Buffers.lean"""
import io
import itertools

from ..core import Case, err_name, dec_val, enc_val
from ..seqcheck import SeqProp


def dec_line(code):
    """PrintBuffer prints strings: code 0 is the empty line"""
    return "" if code == "0" else code


class Prop(SeqProp):
    pid = "C15"
    anchors = ["windpyutils/buffers.py", "windpyutils/structures/circular_buffer.py"]
    quick_cases = 6000
    thorough_cases = 60000
    rule = ("Buffer/PrintBuffer: random permutations of 0..n-1 (n<=12) with drain points / flush / clear / re-put of an emitted "
            "serial interleaved (thorough: all permutations up to n=6 with all drain-point subsets, exhaustive); CircularBuffer: "
            "capacities 1-6 with random put/clear/get/list; every result compared with the Lean model and a reference; "
            "payloads include falsy objects (None, 0, '', (), False, 0.0; the empty line for PrintBuffer); "
            "non-trivial = at least 3 feeds or puts")
    trusted_base = ["Lean 4.33.0 kernel", "axioms: propext, Classical.choice, Quot.sound (audited per theorem)",
                    "hand-written model Model/Buffers.lean tied to buffers.py / circular_buffer.py by this correspondence run"]
    assumptions = ["serial numbers are fed once each (re-feeding an emitted serial must raise AttributeError for Buffer)",
                   "a drain is a complete iteration (the property's drain points)"]

    def run_model(self, cases):
        res = [None] * len(cases)
        for kind in ("buf", "pbuf", "ring"):
            idx = [i for i, c in enumerate(cases) if c.meta["kind"] == kind]
            if idx:
                self.model = kind
                for i, o in zip(idx, SeqProp.run_model(self, [cases[i] for i in idx])):
                    res[i] = o
        return res

    def corpus(self):
        return [
            Case(["put 1 101", "put 0 100", "put 2 102", "put 4 104", "wf", "drain", "wf", "len", "put 3 103", "drain",
                  "put 1 9", "drain", "flush", "wf", "put 0 7", "drain"], {"kind": "buf"}, "docstring example"),
            Case(["print 1 101", "print 2 102", "print 0 100", "print 3 103", "out", "print 6 106", "print 5 105", "flush",
                  "wf", "out", "clear", "wf", "print 0 1", "out"], {"kind": "pbuf"}, "print buffer"),
            Case(["new 3", "list", "put 1", "put 2", "list", "put 3", "put 4", "put 5", "list", "get 0", "get 2", "get 3",
                  "get -1", "len", "clear", "list", "put 6", "list"], {"kind": "ring"}, "ring wrap-around"),
        ]

    def gen(self, rng, n, tier):
        for _ in range(n):
            kind = rng.choice(["buf", "pbuf", "ring"])
            ops = []
            failing = kind == "pbuf" and rng.random() < 0.3  # the output stream fails now and then (Model/BuffersFail.lean)
            if kind in ("buf", "pbuf"):
                m = rng.randint(0, 12)
                perm = list(range(m))
                rng.shuffle(perm)
                if rng.random() < 0.3:
                    perm.sort(key=lambda i: i + rng.randint(-2, 2))  # nearly ordered arrivals, like a pool
                for s in perm:
                    v = 100 + s
                    if rng.random() < 0.3:
                        v = rng.randint(0, 5) if kind == "buf" else 0
                    ops.append(("put" if kind == "buf" else "print") + f" {s} {v}")
                    r = rng.random()
                    if kind == "buf":
                        if r < 0.35:
                            ops.append("drain")
                        elif r < 0.45:
                            ops.append(rng.choice(["wf", "len"]))
                        elif r < 0.5:
                            ops.append(f"put {rng.randint(0, m)} 7")  # maybe an emitted serial -> AttributeError
                    else:
                        if r < 0.04 and failing:
                            ops.append(f"failat {rng.randint(0, 3)}")  # the k-th value write from now on raises OSError, once
                        elif r < 0.25:
                            ops.append(rng.choice(["wf", "len", "out"]))
                        elif r < 0.3:
                            ops.append("flush")
                        elif r < 0.33:
                            ops.append("clear")
                if kind == "buf" and rng.random() < 0.35:
                    # the round is cut short: flush() with items still held back, then a new round from serial 0
                    cut = rng.randint(0, len(ops))
                    ops = ops[:cut] + ["flush", "wf", "len", "drain"]
                    m2 = rng.randint(1, 5)
                    perm2 = list(range(m2))
                    rng.shuffle(perm2)
                    for s in perm2:
                        ops.append(f"put {s} {200 + s}")
                        if rng.random() < 0.4:
                            ops.append(rng.choice(["drain", "len", "wf"]))
                ops += ["drain", "wf", "len"] if kind == "buf" else ["out", "wf", "len", "flush", "out", "wf"]
                if kind == "buf" and rng.random() < 0.3:
                    ops += ["flush", "wf", "len", "put 0 5", "drain"]
            else:
                c = rng.randint(1, 6)
                ops.append(f"new {c}")
                # equality-based calls (index / count / in) are compared with the model only in cases whose payload codes denote
                # pairwise unequal objects (the codes 4 = False and 5 = 0.0 equal code 1 = 0 in Python); the battery beside a
                # Python list covers the equal-but-not-identical payloads
                eqops = rng.random() < 0.5
                small = [0, 1, 2, 3] if eqops else [0, 1, 2, 3, 4, 5]
                for j in range(rng.randint(0, 25)):
                    r = rng.random()
                    if r < 0.55:
                        ops.append(f"put {j + 6 if rng.random() < 0.8 else rng.choice(small)}")
                    elif r < 0.62:
                        ops.append("clear")
                    elif r < 0.8:
                        ops.append(f"get {rng.randint(-2, c + 1)}")
                    elif r < 0.86:
                        ops.append("list")
                    elif r < 0.95:
                        # the inherited Sequence interface (model: Model/RingSeq.lean): index with bounds, count, in, reversed
                        v = (6 + rng.randint(0, j + 3)) if rng.random() < 0.6 else rng.choice(small)
                        bound = lambda: rng.choice(["-", str(rng.randint(-7, 7))])
                        if eqops:
                            ops.append(rng.choice([f"index {v}", f"index {v} {bound()}", f"index {v} {bound()} {bound()}",
                                                   f"count {v}", f"has {v}", "rev", "iter"]))
                        else:
                            ops.append(rng.choice(["rev", "iter"]))
                    else:
                        ops.append("len")
                ops.append("list")
            yield Case(ops, {"kind": kind})

    def exhaustive(self, tier):
        cases = []
        for n in range(0, 6):
            for perm in itertools.permutations(range(n)):
                for mask in range(1 << n):
                    ops = []
                    for j, s in enumerate(perm):
                        ops.append(f"put {s} {100 + s}")
                        if mask >> j & 1:
                            ops.append("drain")
                    ops += ["drain", "wf", "len"]
                    cases.append(Case(ops, {"kind": "buf"}))
                    if mask == 0:
                        cases.append(Case([f"print {s} {100 + s}" for s in perm] + ["out", "wf", "len"], {"kind": "pbuf"}))
        return cases

    def run_impl(self, case):
        from windpyutils.buffers import Buffer, PrintBuffer
        from windpyutils.structures.circular_buffer import CircularBuffer
        kind = case.meta["kind"]
        sio = io.StringIO()
        # the constructor's other parameters (terminator of a printed value, flushing after every print) vary with the case
        variant = sum(len(o) for o in case.ops) % 4
        pb_end = "\n" if variant < 2 else ";;"

        class FailingStream:
            """forwards to the StringIO; the value writes (not the terminator) are counted and the designated ones raise"""

            def __init__(self):
                self.att, self.fails = 0, set()

            def write(self, data):
                if data != pb_end:
                    k = self.att
                    self.att += 1
                    if k in self.fails:
                        self.fails.discard(k)
                        raise OSError("the stream cannot be written right now")
                return sio.write(data)

            def flush(self):
                pass

        stream = FailingStream() if any(o.startswith("failat") for o in case.ops) else sio
        obj = Buffer() if kind == "buf" else \
            (PrintBuffer(stream) if variant == 0 else PrintBuffer(stream, print_flush=bool(variant % 2), end=pb_end)) if kind == "pbuf" \
            else CircularBuffer(1)
        out = []
        ring_hist, ring_cap = [], 1
        s = lambda xs: ",".join(map(str, xs))
        for op in case.ops:
            w = op.split()
            try:
                if kind == "buf":
                    if w[0] == "put":
                        r = obj(int(w[1]), dec_val(int(w[2]))); out.append("ok" if r is obj else "ok?")
                    elif w[0] == "drain":
                        items = list(itertools.islice(iter(obj), 10000))
                        out.append("list " + s(enc_val(x) for x in items) + (",?endless" if len(items) == 10000 else ""))
                    elif w[0] == "flush":
                        obj.flush(); out.append("ok")
                    elif w[0] == "wf":
                        out.append(f"ret {obj.waiting_for()}")
                    elif w[0] == "len":
                        out.append(f"ret {len(obj)}")
                    else:
                        out.append("bad-op")
                elif kind == "pbuf":
                    if w[0] == "print":
                        out.append(f"ret {1 if obj.print(int(w[1]), dec_line(w[2])) else 0}")
                    elif w[0] == "failat":
                        stream.fails.add(stream.att + int(w[1])); out.append("ok")
                    elif w[0] == "flush":
                        obj.flush(); out.append("ok")
                    elif w[0] == "clear":
                        obj.clear(); out.append("ok")
                    elif w[0] == "wf":
                        out.append(f"ret {obj.waiting_for}")
                    elif w[0] == "len":
                        out.append(f"ret {len(obj)}")
                    elif w[0] == "out":
                        v = sio.getvalue()
                        lines = v.split(pb_end)
                        out.append("list " + s("0" if x == "" else x for x in lines[:-1]) + ("" if lines[-1] == "" else ",?unterminated"))
                    else:
                        out.append("bad-op")
                else:
                    if w[0] == "new":
                        obj = CircularBuffer(int(w[1])); out.append("ok" if obj.max_size == int(w[1]) else "ok max_size-mismatch")
                        ring_hist, ring_cap = [], int(w[1])
                    elif w[0] == "put":
                        obj.put(dec_val(int(w[1]))); out.append("ok")
                        ring_hist.append(dec_val(int(w[1])))
                    elif w[0] == "clear":
                        obj.clear(); out.append("ok")
                        ring_hist = []
                    elif w[0] == "get":
                        out.append(f"ret {enc_val(obj[int(w[1])])}")
                    elif w[0] == "len":
                        out.append(f"ret {len(obj)}")
                    elif w[0] == "index":
                        args = [dec_val(int(w[1]))] + [int(x) for x in w[2:] if x != "-"]
                        if len(w) == 4 and w[2] == "-":
                            args = [dec_val(int(w[1])), 0] + ([int(w[3])] if w[3] != "-" else [])
                        out.append(f"ret {obj.index(*args)}")
                    elif w[0] == "count":
                        out.append(f"ret {obj.count(dec_val(int(w[1])))}")
                    elif w[0] == "has":
                        out.append(f"ret {1 if dec_val(int(w[1])) in obj else 0}")
                    elif w[0] == "rev":
                        out.append("list " + s(enc_val(x) for x in reversed(obj)))
                    elif w[0] == "iter":
                        out.append("list " + s(enc_val(x) for x in itertools.islice(iter(obj), 10000)))
                    elif w[0] == "list":
                        items = list(itertools.islice(iter(obj), 10000))
                        out.append("list " + s(enc_val(x) for x in items) + (",?endless" if len(items) == 10000 else ""))
                        # the inherited Sequence interface (index with bounds, count, in, reversed) beside the list of the
                        # last min(k, c) items
                        from .. import mixins
                        view = ring_hist[-ring_cap:] if ring_hist else []
                        mix = mixins.sequence_battery(obj, view, view[:2] + view[-1:] + [dec_val(7), "absent"],
                                                     negative_index=False)
                        if mix is not None:
                            out[-1] = "mixin-mismatch " + mix + " ;; " + out[-1]
                    else:
                        out.append("bad-op")
            except BaseException as e:  # noqa
                if isinstance(e, (KeyboardInterrupt, SystemExit)):
                    raise
                out.append(f"err {err_name(e)}")
            if kind in ("buf", "pbuf") and len(out) in (3, 8) and out[-1] != "bad-op":
                # copies of the buffer (shallow, deep, pickled) are made, looked at and dropped while values are held back: the
                # buffer and what was printed so far stay as they are
                from .. import core as _core
                snap = (lambda o: (len(o), o.waiting_for() if kind == "buf" else o.waiting_for, sio.getvalue()))
                cp = _core.clone_probe(obj, snap, collect=True)
                if cp is not None:
                    out[-1] = "mixin-mismatch copies of the buffer: " + cp + " ;; " + out[-1]
        if kind == "pbuf" and out:
            # the buffer is given up with whatever it still holds back: nothing more is printed
            printed = sio.getvalue()
            obj = None
            if sio.getvalue() != printed:
                out[-1] = (f"mixin-mismatch a buffer that was dropped while it held values back printed "
                           f"{sio.getvalue()[len(printed):][:80]!r} ;; " + out[-1])
        return out

    def oracle(self, case, impl_out):
        kind = case.meta["kind"]
        for i, line in enumerate(impl_out):
            if line.startswith("mixin-mismatch "):
                return f"op {i} `{case.ops[i]}`: inherited Sequence interface: {line[15:].split(' ;; ')[0][:600]}"
        s = lambda xs: ",".join(map(str, xs))
        if kind == "buf":
            pending, emitted = {}, 0
            for i, (op, line) in enumerate(zip(case.ops, impl_out)):
                w = op.split()
                if w[0] == "put":
                    k = int(w[1])
                    if k < emitted:
                        exp = "err AttributeError"
                    else:
                        pending[k] = int(w[2]); exp = "ok"
                elif w[0] == "drain":
                    o = []
                    while emitted in pending:
                        o.append(pending.pop(emitted)); emitted += 1
                    exp = "list " + s(o)
                elif w[0] == "flush":
                    pending, emitted = {}, 0; exp = "ok"
                elif w[0] == "wf":
                    exp = f"ret {emitted}"
                else:
                    exp = f"ret {len(pending)}"
                if line != exp:
                    return f"op {i} `{op}`: {line!r}, in-order exactly-once emission gives {exp!r}"
        elif kind == "pbuf" and any(o.startswith("failat") for o in case.ops):
            return None  # judged by the failing-stream scenarios ("nothing is lost"); here the model is the reference
        elif kind == "pbuf":
            pending, wf, printed = {}, 0, []
            for i, (op, line) in enumerate(zip(case.ops, impl_out)):
                w = op.split()
                if w[0] == "print":
                    k = int(w[1])
                    if k == wf:
                        printed.append(w[2]); wf += 1
                        while wf in pending:
                            printed.append(pending.pop(wf)); wf += 1
                        exp = "ret 1"
                    else:
                        pending[k] = w[2]; exp = "ret 0"
                elif w[0] == "flush":
                    if pending:
                        for k in sorted(pending):
                            printed.append(pending[k])
                        wf = max(pending) + 1
                        pending = {}
                    exp = "ok"
                elif w[0] == "clear":
                    pending, wf = {}, 0; exp = "ok"
                elif w[0] == "wf":
                    exp = f"ret {wf}"
                elif w[0] == "len":
                    exp = f"ret {len(pending)}"
                else:
                    exp = "list " + s(printed)
                if line != exp:
                    return f"op {i} `{op}`: {line!r}, reference gives {exp!r}"
        else:
            hist, cap = [], 1
            for i, (op, line) in enumerate(zip(case.ops, impl_out)):
                w = op.split()
                if w[0] == "new":
                    cap, hist = int(w[1]), []; exp = "ok"
                elif w[0] == "put":
                    hist.append(int(w[1])); exp = "ok"
                elif w[0] == "clear":
                    hist = []; exp = "ok"
                else:
                    view = hist[-cap:] if hist else []
                    if w[0] == "get":
                        k = int(w[1])
                        exp = f"ret {view[k]}" if 0 <= k < len(view) else "err IndexError"
                    elif w[0] == "index":
                        args = [int(w[1])] + [int(x) for x in w[2:] if x != "-"]
                        if len(w) == 4 and w[2] == "-":
                            args = [int(w[1]), 0] + ([int(w[3])] if w[3] != "-" else [])
                        try:
                            exp = f"ret {view.index(*args)}"
                        except ValueError:
                            exp = "err ValueError"
                    elif w[0] == "count":
                        exp = f"ret {view.count(int(w[1]))}"
                    elif w[0] == "has":
                        exp = f"ret {1 if int(w[1]) in view else 0}"
                    elif w[0] == "rev":
                        exp = "list " + s(reversed(view))
                    elif w[0] == "iter":
                        exp = "list " + s(view)
                    elif w[0] == "len":
                        exp = f"ret {len(view)}"
                    else:
                        exp = "list " + s(view)
                if line != exp:
                    return f"op {i} `{op}`: {line!r}, last-min(k,c) reference gives {exp!r}"
        return None

    # an output stream that fails once (a full pipe, a closed descriptor) in the middle of PrintBuffer's printing: the exception
    # reaches the caller, nothing is lost — what was not written is still held, and once the stream works again flush() writes
    # the rest; in the end every value is in the output exactly once, in serial order
    def extra_scenarios(self, rng, tier):
        out = []
        for _ in range(120 if tier == "quick" else 1500):
            n = rng.randint(2, 9)
            perm = list(range(n))
            rng.shuffle(perm)
            out.append({"kind": "failing-stream", "arrivals": perm, "fail_at": rng.randint(0, n - 1),
                        "end": rng.choice(["\n", "\n", ";;"]), "flush_mid": rng.random() < 0.3})
        # long runs: thousands of values held back and released by one arrival
        for n in ((1500, 5000) if tier == "quick" else (1500, 5000, 20000)):
            out.append({"kind": "long-run", "n": n, "hold": rng.choice([1, 2, n // 2])})
        return out

    def run_extra(self, desc):
        from windpyutils.buffers import PrintBuffer
        if desc["kind"] == "long-run":
            from windpyutils.buffers import Buffer
            n, hold = desc["n"], desc["hold"]
            # serial numbers hold .. n-1 arrive first (all held back), then 0 .. hold-1: the last arrival releases the long run
            order = list(range(hold, n)) + list(range(hold))
            sio = io.StringIO()
            pb = PrintBuffer(sio)
            try:
                for k in order:
                    pb.print(k, f"v{k}")
            except BaseException as e:  # noqa
                if isinstance(e, (KeyboardInterrupt, SystemExit)):
                    raise
                return f"PrintBuffer: {n} values, {n - hold} of them held back and released by one arrival: print raised {err_name(e)}"
            if sio.getvalue() != "".join(f"v{k}\n" for k in range(n)) or len(pb) != 0 or pb.waiting_for != n:
                return (f"PrintBuffer: {n} values with {n - hold} held back: {sio.getvalue().count(chr(10))} lines printed, "
                        f"{len(pb)} still held, waiting_for {pb.waiting_for}")
            b = Buffer()
            got = []
            try:
                for k in order:
                    b(k, k * 3)
                    got += list(b)
            except BaseException as e:  # noqa
                if isinstance(e, (KeyboardInterrupt, SystemExit)):
                    raise
                return f"Buffer: {n} items, {n - hold} held back: raised {err_name(e)}"
            if got != [k * 3 for k in range(n)] or len(b) != 0 or b.waiting_for() != n:
                return f"Buffer: {n} items with {n - hold} held back: {len(got)} emitted, {len(b)} held, waiting_for {b.waiting_for()}"
            return None
        end = desc["end"]

        class Stream:
            """counts the writes of values (not of the terminator) and fails the k-th one, once"""

            def __init__(self, k):
                self.k, self.n, self.parts, self.failed = k, 0, [], False

            def write(self, data):
                if data != end:
                    if self.n == self.k and not self.failed:
                        self.failed = True
                        raise OSError("the stream cannot be written right now")
                    self.n += 1
                self.parts.append(data)
                return len(data)

            def flush(self):
                pass

        st = Stream(desc["fail_at"])
        pb = PrintBuffer(st, end=end)
        arrivals = desc["arrivals"]
        for j, sn in enumerate(arrivals):
            try:
                pb.print(sn, f"v{sn}")
            except OSError:
                if pb.waiting_for == sn:
                    pb.print(sn, f"v{sn}")  # nothing of this value was written and it is not counted: the caller tries again
            if desc["flush_mid"] and j == len(arrivals) // 2:
                try:
                    pb.flush()
                except OSError:
                    pb.flush()
                break
        try:
            pb.flush()
        except OSError:
            pb.flush()
        text = "".join(st.parts)
        got = [x for x in text.split(end) if x != ""]
        fed = arrivals[:len(arrivals) // 2 + 1] if desc["flush_mid"] else arrivals
        want = [f"v{k}" for k in sorted(fed)]
        if got != want or len(pb) != 0:
            return (f"arrivals {arrivals}, the stream failed once at its write number {desc['fail_at']}"
                    f"{' (flush half-way)' if desc['flush_mid'] else ''}: output {got}, held {len(pb)}; every value fed "
                    f"({want}) belongs into the output exactly once, in serial order")
        return None

    def key(self, case, impl_out):
        if sum(1 for o in case.ops if o.startswith(("put", "print"))) >= 3:
            return hash((case.meta["kind"],) + tuple(case.ops))
        return None

    def histogram(self, report, case, impl_out):
        report.count("kind:" + case.meta["kind"])
        for o in case.ops:
            report.count(f"{case.meta['kind']}:{o.split()[0]}")
