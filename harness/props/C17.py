# -*- coding: UTF-8 -*-
"""C17 — sorted_combinations / min_combinations_in_interval_iter_sorted: correspondence with Model/Generic.lean"""
import itertools
import random

from .. import core
from ..core import Case, err_name
from ..seqcheck import SeqProp


def parse_combos(line):
    body = line[4:]
    res = []
    if body:
        for part in body.split(";"):
            c, k = part.split(":")
            res.append((tuple(int(x) for x in c.split(".")), int(k)))
    return res


def key_fn(kind, sc):
    """the key families of Model/GenericK.lean, on index combinations over the score list `sc`"""
    if kind == "sum":
        return lambda c: sum(sc[i] for i in c)
    if kind == "max":
        return lambda c: max([sc[i] for i in c], default=0)
    if kind == "spread":
        return lambda c: (max(sc[i] for i in c) - min(sc[i] for i in c)) if c else 0
    if kind == "len":
        return len
    if kind == "const":
        return lambda c: 0
    if kind == "distinct":
        return lambda c: len({sc[i] for i in c})
    raise ValueError(kind)


KEYS = ["max", "spread", "len", "const", "distinct"]


class Prop(SeqProp):
    pid = "C17"
    model = "generic"
    anchors = ["windpyutils/generic.py"]
    quick_cases = 1000
    thorough_cases = 2500
    rule = ("score vectors with ties and zeros, n<=8 (thorough n<=10; all vectors over {0,1,2} up to n=5 exhaustively), the "
            "whole sorted_combinations stream (combination + key) and min-combination searches for intervals around every "
            "attainable sum, the empty interval and intervals beyond the maximum; compared with the Lean model (exact "
            "tie-breaks) and judged against itertools.combinations brute force (ties free); a direct call on the scores as "
            "elements (repeats) with key=sum (model: sortedCombinationsE); the same stream for five more keys that never decrease "
            "under appending but are not additive (max, max-min, len, constant, number of distinct scores; model: "
            "sortedCombinationsK, theorems for every monotone key); non-trivial = n>=3")
    trusted_base = ["Lean 4.33.0 kernel", "axioms: propext, Classical.choice, Quot.sound (audited per theorem)",
                    "hand-written model Model/Generic.lean (priority queue as a list with the Python tuple order, pop = minimum) "
                    "tied to generic.py by this correspondence run", "heapq modelled as: pop returns the minimum of a strict total order"]
    assumptions = ["non-negative integer scores (key monotone under appending)", "elements are orderable (they are indices here)"]

    def corpus(self):
        return [self.mk([2, 1, 2], [(3, 5), (0, 1), (1, 2), (6, 9), (5, 5), (0, 100)], "ties"),
                self.mk([5, 1, 2], [(0, 9)], "a key that is monotone but not additive (spread): (0,2) before (0,1)"),
                self.mk([0, 0, 3], [(0, 1), (3, 4), (1, 3)], "zeros"),
                self.mk([], [(0, 5)], "no elements"),
                self.mk([5], [(5, 6), (0, 5), (6, 7)], "single element")]

    def mk(self, scores, intervals, label=""):
        s = " ".join(map(str, scores))
        ops = [("combos " + s).rstrip()] + [(f"mincomb {a} {b} " + s).rstrip() for a, b in intervals]
        # how far the search walks into the stream (Model/ScanSteps.lean): it stops at the first sum beyond the interval / beyond
        # the least sum found; intervals that end at or below the least sum (empty, inverted) cost one step
        ops += [(f"minsteps {a} {b} " + s).rstrip() for a, b in intervals[:3]] + [(f"minsteps 1000 0 " + s).rstrip()]
        # a direct call on the scores as elements (repeats are the point), key = sum
        ops.append(("combosE " + s).rstrip())
        # other keys that never decrease when an element is appended (the property's hypothesis), not additive ones included
        for kind in KEYS:
            ops.append((f"combosK {kind} " + s).rstrip())
        return Case(ops, {"scores": scores}, label)

    def gen(self, rng, n, tier):
        for _ in range(n):
            m = rng.randint(0, 8 if tier == "quick" else 10)
            hi = rng.choice([1, 2, 3, 10])
            scores = [rng.randint(0, hi) for _ in range(m)]
            tot = sum(scores)
            ivs = []
            for _ in range(6):
                a = rng.randint(-1, tot + 2)
                b = a + rng.choice([0, 1, 1, 2, 5, tot + 3])
                ivs.append((a, b))
            # "no upper limit" written as a huge number, and bounds far outside what a machine word holds
            ivs[rng.randrange(len(ivs))] = rng.choice([(0, 10 ** 20), (-1, 2 ** 63), (-10 ** 30, 10 ** 30), (1, 2 ** 64 + 1)])
            yield self.mk(scores, ivs)

    def exhaustive(self, tier):
        cases = []
        for m in range(0, 6):
            for scores in itertools.product(range(3), repeat=m):
                tot = sum(scores)
                ivs = [(a, a + w) for a in range(0, tot + 2) for w in (1, 2)]
                cases.append(self.mk(list(scores), ivs[:12]))
        return cases

    def run_impl(self, case):
        from windpyutils import generic as g
        out = []
        fmt = lambda items: "ret " + ";".join(".".join(map(str, c)) + f":{k}" for c, k in items)
        for op in case.ops:
            w = op.split()
            try:
                if w[0] == "combos":
                    sc = [int(x) for x in w[1:]]
                    full = list(g.sorted_combinations(range(len(sc)), lambda x: sum(sc[i] for i in x), yield_key=True))
                    plain = list(g.sorted_combinations(range(len(sc)), lambda x: sum(sc[i] for i in x)))
                    line = fmt(full)
                    if [c for c, _ in full] != plain:
                        line += " yield_key-mismatch"
                    out.append(line)
                elif w[0] == "combosE":
                    es = [int(x) for x in w[1:]]
                    full = list(g.sorted_combinations(es, sum, yield_key=True))
                    plain = list(g.sorted_combinations(tuple(es), sum))
                    line = fmt(full)
                    if [c for c, _ in full] != plain:
                        line += " yield_key-mismatch"
                    out.append(line)
                elif w[0] == "combosK":
                    sc = [int(x) for x in w[2:]]
                    key = key_fn(w[1], sc)
                    full = list(g.sorted_combinations(range(len(sc)), key, yield_key=True))
                    plain = list(g.sorted_combinations(tuple(range(len(sc))), key))
                    line = fmt(full)
                    if [c for c, _ in full] != plain:
                        line += " yield_key-mismatch"
                    out.append(line)
                elif w[0] == "mincomb":
                    sc = [int(x) for x in w[3:]]
                    if len(sc) % 2:
                        els = list(range(len(sc)))
                        out.append(fmt(g.min_combinations_in_interval_iter_sorted(els, sc, int(w[1]), int(w[2]))))
                    else:
                        # elements that cannot be ordered or compared with each other (records): only their scores count
                        els = [{"record": i} for i in range(len(sc))]
                        res = g.min_combinations_in_interval_iter_sorted(els, sc, int(w[1]), int(w[2]))
                        out.append(fmt([([e["record"] for e in c], k) for c, k in res]))
                elif w[0] == "minsteps":
                    sc = [int(x) for x in w[3:]]
                    seen = [0]
                    real = g.sorted_combinations

                    def counting(*a, **k):
                        for x in real(*a, **k):
                            seen[0] += 1
                            yield x

                    g.sorted_combinations = counting
                    try:
                        g.min_combinations_in_interval_iter_sorted(list(range(len(sc))), sc, int(w[1]), int(w[2]))
                    finally:
                        g.sorted_combinations = real
                    out.append(f"ret {seen[0]}")
                else:
                    out.append("bad-op")
            except BaseException as e:  # noqa
                if isinstance(e, (KeyboardInterrupt, SystemExit)):
                    raise
                out.append(f"err {err_name(e)}")
        return out

    def oracle(self, case, impl_out):
        for i, (op, line) in enumerate(zip(case.ops, impl_out)):
            w = op.split()
            if not line.startswith("ret"):
                return f"op {i} `{op}`: {line!r}"
            if w[0] == "minsteps":
                continue  # how far the search walks is a model-only observable (not in the property's statement)
            try:
                got = parse_combos(line)
            except Exception:
                return f"op {i} `{op}`: unparsable {line[:200]!r}"
            if w[0] == "combosE":
                es = [int(x) for x in w[1:]]
                allc = [c for r in range(1, len(es) + 1) for c in itertools.combinations(es, r)]
                if sorted(c for c, _ in got) != sorted(allc):
                    return f"op {i} `{op}`: not every non-empty combination of the elements exactly once"
                if any(k != sum(c) for c, k in got):
                    return f"op {i} `{op}`: a key alongside is not the key of its combination"
                ks = [k for _, k in got]
                if ks != sorted(ks):
                    return f"op {i} `{op}`: keys not non-decreasing: {ks}"
            elif w[0] == "combosK":
                sc = [int(x) for x in w[2:]]
                key = key_fn(w[1], sc)
                allc = [c for r in range(1, len(sc) + 1) for c in itertools.combinations(range(len(sc)), r)]
                if sorted(c for c, _ in got) != sorted(allc):
                    return f"op {i} `{op}`: not every non-empty index-ordered combination exactly once"
                if any(k != key(c) for c, k in got):
                    return f"op {i} `{op}`: a key alongside is not the key of its combination"
                ks = [k for _, k in got]
                if ks != sorted(ks):
                    return f"op {i} `{op}`: keys not non-decreasing for the monotone key {w[1]!r}: {got}"
            elif w[0] == "combos":
                sc = [int(x) for x in w[1:]]
                allc = [c for r in range(1, len(sc) + 1) for c in itertools.combinations(range(len(sc)), r)]
                if sorted(c for c, _ in got) != sorted(allc):
                    return f"op {i} `{op}`: not every non-empty index-ordered combination exactly once"
                if any(k != sum(sc[j] for j in c) for c, k in got):
                    return f"op {i} `{op}`: a key alongside is not the key of its combination"
                ks = [k for _, k in got]
                if ks != sorted(ks):
                    return f"op {i} `{op}`: keys not non-decreasing: {ks}"
            else:
                a, b = int(w[1]), int(w[2])
                sc = [int(x) for x in w[3:]]
                allc = [(c, sum(sc[j] for j in c)) for r in range(1, len(sc) + 1)
                        for c in itertools.combinations(range(len(sc)), r)]
                inside = [k for _, k in allc if a <= k < b]
                exp = sorted((c, k) for c, k in allc if inside and k == min(inside))
                if sorted(got) != exp or len(got) != len(exp):
                    return f"op {i} `{op}`: got {got}, brute force gives {exp}"
        return None

    # keys that are objects implementing `__lt__` only (what `windpyutils.typing.Comparable` asks for; equality is identity):
    # ties are then broken by the heap alone, so the stream is judged by the oracle only, not compared with the model
    def extra_scenarios(self, rng, tier):
        n = {"quick": 150, "thorough": 1500}.get(tier, 400)
        out = []
        for _ in range(n):
            m = rng.randint(0, 6)
            hi = rng.choice([0, 1, 2, 5])
            out.append({"kind": "lt-only-key", "scores": [rng.randint(0, hi) for _ in range(m)],
                        "key": rng.choice(["sum", "max", "spread", "len", "const", "distinct"])})
        # many elements: the stream is lazy, only its head is taken (sizes around 255 / 256 / 257 and beyond)
        for m in ([255, 256, 257, 300, 1000] if tier == "quick" else [255, 256, 257, 258, 300, 511, 512, 513, 1000, 5000]):
            out.append({"kind": "many-elements", "n": m, "seed": rng.randrange(1 << 30)})
        # combinations with hundreds of members early in the stream: key = number of elements skipped before the last member
        out.append({"kind": "long-combinations", "n": 600 if tier == "quick" else 1500})
        return out

    def run_extra(self, desc):
        from windpyutils import generic as g

        class LtOnly:
            __slots__ = ("v",)

            def __init__(self, v):
                self.v = v

            def __lt__(self, other):
                return self.v < other.v

        if desc["kind"] == "long-combinations":
            n = desc["n"]
            skipped = lambda c: c[-1] + 1 - len(c)
            try:
                head = core.call_with_alarm(lambda: list(itertools.islice(
                    g.sorted_combinations(range(n), skipped, yield_key=True), n)), 60.0)
            except core.Timeout:
                return f"the first {n} combinations of range({n}) under the 'skipped elements' key were not produced within 60 s"
            except Exception as e:  # noqa
                return f"sorted_combinations(range({n}), key = elements skipped before the last member) raised {err_name(e)}"
            # the combinations with key 0 are exactly the prefixes (0,), (0, 1), ...: n of them, they come first
            if sorted((len(c), k) for c, k in head) != [(j, 0) for j in range(1, n + 1)] or \
                    any(list(c) != list(range(len(c))) for c, _ in head):
                return f"range({n}) under the 'skipped elements' key: the first {n} combinations are not the {n} prefixes with key 0"
            return None
        if desc["kind"] == "many-elements":
            r = random.Random(desc["seed"])
            n = desc["n"]
            sc = [r.randint(1, 50) for _ in range(n)]
            take = 40
            try:
                head = core.call_with_alarm(lambda: list(itertools.islice(
                    g.sorted_combinations(range(n), lambda c: sum(sc[i] for i in c), yield_key=True), take)), 20.0)
                mins = core.call_with_alarm(lambda: g.min_combinations_in_interval_iter_sorted(list(range(n)), sc, 0, 10 ** 9), 20.0)
            except core.Timeout:
                return f"the head of the stream over {n} elements was not produced within 20 s"
            except Exception as e:  # noqa
                return f"sorted_combinations over {n} elements raised {err_name(e)}: {e}"
            ks = [k for _, k in head]
            if len(head) != take or ks != sorted(ks) or any(k != sum(sc[i] for i in c) for c, k in head) or \
                    len({c for c, _ in head}) != take or any(list(c) != sorted(set(c)) for c, _ in head):
                return f"{n} elements: the first {take} combinations are not distinct index-ordered tuples in key order: {head[:6]}"
            if ks[0] != min(sc):
                return f"{n} elements: the stream starts with key {ks[0]}, the least score is {min(sc)}"
            exp = sorted(([i], sc[i]) for i in range(n) if sc[i] == min(sc))
            if sorted(mins) != exp:
                return f"{n} elements: min-combination search over the whole range gives {mins[:5]}, expected the least singletons {exp[:5]}"
            # two cheap elements far apart among expensive ones: the only hit of [2, 3) is that pair, its members in index order
            sc2 = [50] * n
            a_, b_ = 3, n - 56
            sc2[a_] = sc2[b_] = 1
            try:
                pair = core.call_with_alarm(lambda: g.min_combinations_in_interval_iter_sorted(list(range(n)), sc2, 2, 3), 20.0)
            except core.Timeout:
                return f"{n} elements, two of score 1: the search in [2, 3) did not return within 20 s"
            if pair != [([a_, b_], 2)]:
                return f"{n} elements, scores 50 except 1 at indices {a_} and {b_}: the search in [2, 3) gives {pair[:3]}, expected [([{a_}, {b_}], 2)]"
            # intervals that hold nothing because they end before the least sum (empty, inverted): the answer is [] at once
            for lo, hi in ((10 ** 6, 0), (min(sc), min(sc)), (3 * n * 50, min(sc)), (0, min(sc))):
                try:
                    r_ = core.call_with_alarm(lambda: g.min_combinations_in_interval_iter_sorted(list(range(n)), sc, lo, hi), 20.0)
                except core.Timeout:
                    return (f"{n} elements: min-combination search in [{lo}, {hi}) — an interval that ends at or below the least "
                            f"score {min(sc)} — did not return within 20 s")
                if r_ != []:
                    return f"{n} elements: min-combination search in [{lo}, {hi}) gives {r_[:5]}, the interval holds no sum"
            return None
        sc = desc["scores"]
        kf = key_fn(desc["key"], sc)
        limit = 2 ** len(sc) + 8
        try:
            got = core.call_with_alarm(lambda: list(itertools.islice(
                g.sorted_combinations(range(len(sc)), lambda c: LtOnly(kf(c)), yield_key=True), limit)), 10.0)
        except core.Timeout:
            return f"sorted_combinations did not yield {limit} items within 10 s for scores {sc}, key {desc['key']} (objects with __lt__ only)"
        except Exception as e:  # noqa
            return f"sorted_combinations raised {err_name(e)} for scores {sc}, key {desc['key']} (objects with __lt__ only)"
        allc = [c for r in range(1, len(sc) + 1) for c in itertools.combinations(range(len(sc)), r)]
        combs = [c for c, _ in got]
        if sorted(combs) != sorted(allc):
            return (f"scores {sc}, key {desc['key']} given as objects with __lt__ only: yielded {combs[:40]}, not every non-empty "
                    f"combination exactly once")
        if any(k.v != kf(c) for c, k in got):
            return f"scores {sc}, key {desc['key']}: a key alongside is not the key of its combination"
        ks = [k.v for _, k in got]
        if ks != sorted(ks):
            return f"scores {sc}, key {desc['key']} (objects with __lt__ only): keys not non-decreasing: {ks}"
        return None

    def key(self, case, impl_out):
        return hash(tuple(case.ops)) if len(case.meta["scores"]) >= 3 else None

    def observable_kind(self, case, i, model_line, impl_line):
        return "MO"  # tie-breaks among equal keys are model-only; property failures are found by the oracle

    def shrink(self, case, pred):
        return case
