# -*- coding: UTF-8 -*-
"""
C18, a parent that is itself multi-threaded: one thread of the parent is *inside* a read of the shared file object (it has done
its seek and has not read yet) at the moment another thread forks a child.  The child inherits the object in exactly that state
— whatever the read in the parent holds at that moment (a position, a buffer, a lock) — and then reads every line itself; the
parent's thread finishes its read afterwards.  Every read in both processes has to return the line a single process would get.

The reading thread is parked at a Python-level point (right after the real `seek` returned), so no lock of the C-level I/O
objects is held across the fork: on code whose reads hold nothing of their own the scenario cannot hang.
Run as a subprocess in its own session:  python -m harness.forkthread <variant> <seed>
"""
import os
import random
import select
import signal
import sys
import tempfile
import threading
import time

REPO = os.environ.get("WINDPYUTILS_REPO", "/repo")
if REPO not in sys.path:
    sys.path.insert(0, REPO)

VARIANTS = ("RandomLineAccessFile", "MemoryMappedRandomLineAccessFile", "MapAccessFile")


class Parker:
    reader = None  # ident of the parent's reading thread
    armed = False
    parked = threading.Event()
    resume = threading.Event()

    @classmethod
    def maybe_park(cls):
        if cls.armed and threading.get_ident() == cls.reader:
            cls.armed = False
            cls.parked.set()
            cls.resume.wait(30)
            cls.resume.clear()


class ParkingFile:
    def __init__(self, real):
        self._real = real

    def seek(self, *a):
        r = self._real.seek(*a)
        Parker.maybe_park()
        return r

    def __getattr__(self, name):
        return getattr(self._real, name)

    def __iter__(self):
        return iter(self._real)

    def __enter__(self):
        self._real.__enter__()
        return self

    def __exit__(self, *a):
        return self._real.__exit__(*a)


class MmapShim:
    def __init__(self, real_module):
        self._m = real_module

    def __getattr__(self, name):
        return getattr(self._m, name)

    def mmap(self, *a, **k):
        return ParkingFile(self._m.mmap(*a, **k))


def main(variant, seed):
    import builtins
    import mmap as real_mmap
    from windpyutils import files
    rng = random.Random(seed)
    lines = [f"line {i} " + "xyzž"[i % 4] * rng.randint(0, 40) for i in range(rng.randint(3, 30))]
    d = tempfile.mkdtemp(prefix="c18thr_", dir=os.environ.get("VERIF_SCRATCH") or None)
    path = os.path.join(d, "f.txt")
    with open(path, "w", encoding="utf-8", newline="\n") as f:
        f.write("".join(l + "\n" for l in lines))
    files.open = lambda *a, **k: ParkingFile(builtins.open(*a, **k))
    files.mmap = MmapShim(real_mmap)
    problems = []
    try:
        if variant == "MapAccessFile":
            offs, o = {}, 0
            for i, l in enumerate(lines):
                offs[f"k{i}"] = o
                o += len((l + "\n").encode())
            obj = files.MapAccessFile(path, offs)
            key = lambda n: f"k{n}"
            norm = lambda s: s.rstrip("\n")
        else:
            obj = getattr(files, variant)(path)
            key = lambda n: n
            norm = lambda s: s
        obj.open()
        for rnd in range(3):
            n = rng.randrange(len(lines))
            got = {}

            def reader():
                Parker.reader = threading.get_ident()
                Parker.armed = True
                try:
                    got["line"] = norm(obj[key(n)])
                except BaseException as e:  # noqa
                    got["err"] = f"{type(e).__name__}: {e}"

            Parker.parked.clear()
            th = threading.Thread(target=reader, daemon=True)
            th.start()
            if not Parker.parked.wait(10):
                problems.append(f"round {rnd}: the parent's reading thread never reached its seek ({got})")
                break
            # the reading thread stands between its seek and its read; this thread forks
            r, w = os.pipe()
            order = list(range(len(lines)))
            rng.shuffle(order)
            pid = os.fork()
            if pid == 0:
                try:
                    os.close(r)
                    bad = None
                    for i in order:
                        try:
                            v = norm(obj[key(i)])
                        except BaseException as e:  # noqa
                            v = f"<{type(e).__name__}: {e}>"
                        if v != lines[i]:
                            bad = f"obj[{i}] in the child returned {v!r}, the line is {lines[i]!r}"
                            break
                    os.write(w, (bad or "fine").encode("utf-8", "replace"))
                finally:
                    os._exit(0)
            os.close(w)
            ready, _, _ = select.select([r], [], [], 10)
            if not ready:
                os.kill(pid, signal.SIGKILL)
                problems.append(f"round {rnd}: a child forked while another thread of the parent stood inside obj[{n}] (after its "
                                f"seek) did not finish reading the {len(lines)} lines within 10 s")
            else:
                rep = os.read(r, 65536).decode("utf-8", "replace")
                if rep != "fine":
                    problems.append(f"round {rnd}: {rep} (forked while another thread of the parent stood inside obj[{n}])")
            os.close(r)
            os.waitpid(pid, 0)
            Parker.resume.set()
            th.join(10)
            if th.is_alive():
                problems.append(f"round {rnd}: the parent's own read did not return after the fork")
                break
            if got.get("line") != lines[n]:
                problems.append(f"round {rnd}: the parent's read of line {n}, during which a child was forked and read all lines, "
                                f"returned {got}; the line is {lines[n]!r}")
            if problems:
                break
        if not problems:
            obj.close()
    finally:
        import shutil
        shutil.rmtree(d, ignore_errors=True)
    for p in problems[:3]:
        print("WRONG", variant + ":", p)
    print("DONE" if not problems else "FAILED")
    return 0 if not problems else 1


if __name__ == "__main__":
    sys.exit(main(sys.argv[1], int(sys.argv[2])))
