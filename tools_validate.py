#!/usr/bin/env python3
"""validates MANIFEST.json and every evidence file against the schemas (run with python3-vt)"""
import glob, json, sys
import jsonschema
ok = True
def v(path, schema):
    global ok
    try:
        jsonschema.validate(json.load(open(path)), json.load(open(schema)))
        print("valid  ", path)
    except Exception as e:
        ok = False
        print("INVALID", path, str(e)[:300])
v("MANIFEST.json", "/root/.vp/MANIFEST.schema.json")
for p in sorted(glob.glob("evidence/*.json")):
    v(p, "/root/.vp/EVIDENCE.schema.json")
sys.exit(0 if ok else 1)
