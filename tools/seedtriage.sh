#!/bin/sh
# usage: tools/seedtriage.sh <worktree-with-change-applied> <prop> [tier]
# triage only: runs the check against a scratch worktree (WINDPYUTILS_REPO) instead of /repo; evidence is restored afterwards.
# The confirmation that counts is tools/seedcheck.sh (patch applied to /repo itself).
set -u
WT="$1"; PROP="$2"; TIER="${3:-quick}"
cd /verif
cp evidence/$PROP.json /tmp/.evidence_triage_$PROP.json 2>/dev/null
WINDPYUTILS_REPO=$WT timeout 1800 ./check $PROP --tier $TIER > .scratch/triage_$PROP.txt 2>&1; RC=$?
[ -f /tmp/.evidence_triage_$PROP.json ] && mv /tmp/.evidence_triage_$PROP.json evidence/$PROP.json
echo "$PROP exit=$RC $(grep -E 'VIOLATION|^OK|KNOWN' .scratch/triage_$PROP.txt | tr '\n' ' ')"
