#!/bin/sh
# usage: tools/refcheck.sh <prop> [worktree]   — runs the quick check against a behaviour-preserving change in a scratch worktree
PROP="$1"; WT="${2:-/tmp/wt4/$PROP}"
cd /verif
cp evidence/$PROP.json /tmp/.evidence_ref_$PROP.json 2>/dev/null
WINDPYUTILS_REPO=$WT timeout 1800 ./check $PROP --tier quick > .scratch/ref_$PROP.txt 2>&1; RC=$?
[ -f /tmp/.evidence_ref_$PROP.json ] && mv /tmp/.evidence_ref_$PROP.json evidence/$PROP.json
echo "refactor $PROP exit=$RC $(grep -E 'VIOLATION|^OK|KNOWN|HARNESS' .scratch/ref_$PROP.txt | tr '\n' ' ')"
