#!/usr/bin/env python3
# -*- coding: UTF-8 -*-
"""
Mutation sweep over the anchored modules (a tool for assessing the checks, not a check): for every syntactic mutant of a
module (comparison / arithmetic / boolean operator swapped, constant nudged, condition forced, statement dropped, `not`
removed, break/continue swapped, argument of a call dropped to its default where syntactically possible) a scratch copy of the
repository is made, the quick checks of the properties anchored in that module are run against it (WINDPYUTILS_REPO,
evidence and replays redirected), and — only for mutants no check reports — the module's existing tests are run.

  killed      some check printed VIOLATION
  tests-only  no check reports it, the existing tests do        (behaviour outside the properties, or a gap: inspect)
  survived    neither                                            (equivalent mutant, or a gap: inspect)

usage: tools/mutate.py <module-key> [--jobs N] [--limit N] [--only-lines a-b]      results: .scratch/mut/<module-key>.jsonl
"""
import argparse
import ast
import copy
import json
import os
import shutil
import subprocess
import sys
import tempfile
from concurrent.futures import ThreadPoolExecutor

VERIF = os.path.dirname(os.path.dirname(os.path.abspath(__file__)))
REPO = "/repo"

MODULES = {
    "lists": ("windpyutils/structures/lists.py", ["C08", "C06", "C07"], "tests/test_lists.py tests/test_caches.py"),
    "caches": ("windpyutils/structures/caches.py", ["C06", "C07"], "tests/test_caches.py"),
    "sorted": ("windpyutils/structures/sorted.py", ["C09"], "tests/test_sorted.py"),
    "span_set": ("windpyutils/structures/span_set.py", ["C10", "C16"], "tests/test_span_set.py tests/test_maps.py"),
    "maps": ("windpyutils/structures/maps.py", ["C16"], "tests/test_maps.py"),
    "buffers": ("windpyutils/buffers.py", ["C15", "C05"], "tests/test_buffers.py tests/test_pools.py"),
    "circular_buffer": ("windpyutils/structures/circular_buffer.py", ["C15"], "tests/test_circular_buffer.py"),
    "generic": ("windpyutils/generic.py", ["C17", "C19", "C09"], "tests/test_generic.py tests/test_sorted.py"),
    "files": ("windpyutils/files.py", ["C11", "C12", "C13", "C18", "C20"], "tests/test_files.py"),
    "storage": ("windpyutils/parallel/storage.py", ["C14"], "tests/test_storage.py"),
    "pools": ("windpyutils/parallel/pools.py", ["C05"], "tests/test_pools.py tests/test_parallel_maps.py"),
    "pmaps": ("windpyutils/parallel/maps.py", ["C05"], "tests/test_parallel_maps.py"),
    "workers": ("windpyutils/parallel/workers.py", ["C05"], "tests/test_parallel_workers.py tests/test_pools.py tests/test_parallel_maps.py"),
    "own_proc_pools": ("windpyutils/parallel/own_proc_pools.py", ["C01", "C02", "C03", "C04"], "tests/test_own_proc_pools.py"),
}

CMP = {ast.Lt: ast.LtE, ast.LtE: ast.Lt, ast.Gt: ast.GtE, ast.GtE: ast.Gt, ast.Eq: ast.NotEq, ast.NotEq: ast.Eq,
       ast.Is: ast.IsNot, ast.IsNot: ast.Is, ast.In: ast.NotIn, ast.NotIn: ast.In}
BIN = {ast.Add: ast.Sub, ast.Sub: ast.Add, ast.Mult: ast.FloorDiv, ast.FloorDiv: ast.Mult, ast.Mod: ast.FloorDiv,
       ast.Div: ast.Mult}


def mutants(tree):
    """yields (description, lineno, mutated tree)"""
    nodes = [n for n in ast.walk(tree)]
    for idx, n in enumerate(nodes):
        def emit(desc, fn, lineno=None):
            t = copy.deepcopy(tree)
            m = [x for x in ast.walk(t)][idx]
            fn(m)
            ast.fix_missing_locations(t)
            return (desc, lineno if lineno is not None else getattr(n, "lineno", 0), t)
        out = []
        if isinstance(n, ast.Compare):
            for k, op in enumerate(n.ops):
                if type(op) in CMP:
                    new = CMP[type(op)]
                    out.append(emit(f"cmp {type(op).__name__}->{new.__name__}",
                                    lambda m, k=k, new=new: m.ops.__setitem__(k, new())))
        elif isinstance(n, ast.BinOp) and type(n.op) in BIN:
            new = BIN[type(n.op)]
            out.append(emit(f"bin {type(n.op).__name__}->{new.__name__}", lambda m, new=new: setattr(m, "op", new())))
        elif isinstance(n, ast.AugAssign) and type(n.op) in BIN:
            new = BIN[type(n.op)]
            out.append(emit(f"aug {type(n.op).__name__}->{new.__name__}", lambda m, new=new: setattr(m, "op", new())))
        elif isinstance(n, ast.BoolOp):
            new = ast.Or if isinstance(n.op, ast.And) else ast.And
            out.append(emit(f"bool {type(n.op).__name__}->{new.__name__}", lambda m, new=new: setattr(m, "op", new())))
        elif isinstance(n, ast.UnaryOp) and isinstance(n.op, ast.Not):
            t = copy.deepcopy(tree)
            for parent in ast.walk(t):
                for field, value in ast.iter_fields(parent):
                    if isinstance(value, list):
                        for i, v in enumerate(value):
                            if isinstance(v, ast.UnaryOp) and isinstance(v.op, ast.Not) and getattr(v, "lineno", None) == n.lineno \
                                    and getattr(v, "col_offset", None) == n.col_offset:
                                value[i] = v.operand
                    elif isinstance(value, ast.UnaryOp) and isinstance(value.op, ast.Not) and \
                            getattr(value, "lineno", None) == n.lineno and getattr(value, "col_offset", None) == n.col_offset:
                        setattr(parent, field, value.operand)
            ast.fix_missing_locations(t)
            out.append(("not removed", n.lineno, t))
        elif isinstance(n, ast.Constant) and not isinstance(n.value, str) and n.value is not None and n.value is not Ellipsis:
            if isinstance(n.value, bool):
                out.append(emit(f"const {n.value}->{not n.value}", lambda m: setattr(m, "value", not m.value)))
            elif isinstance(n.value, int):
                out.append(emit(f"const {n.value}->{n.value + 1}", lambda m: setattr(m, "value", m.value + 1)))
                if n.value != 0:
                    out.append(emit(f"const {n.value}->{n.value - 1}", lambda m: setattr(m, "value", m.value - 1)))
        elif isinstance(n, (ast.If, ast.While)):
            out.append(emit("cond forced False", lambda m: setattr(m, "test", ast.Constant(False))))
            if isinstance(n, ast.If):
                out.append(emit("cond forced True", lambda m: setattr(m, "test", ast.Constant(True))))
        elif isinstance(n, ast.IfExp):
            out.append(emit("ifexp forced False", lambda m: setattr(m, "test", ast.Constant(False))))
            out.append(emit("ifexp forced True", lambda m: setattr(m, "test", ast.Constant(True))))
        elif isinstance(n, ast.Break):
            pass
        if isinstance(n, (ast.FunctionDef, ast.For, ast.While, ast.If, ast.With, ast.Try, ast.Module, ast.ClassDef)) or \
                hasattr(n, "body") and isinstance(getattr(n, "body"), list):
            for field in ("body", "orelse", "finalbody"):
                stmts = getattr(n, field, None)
                if not isinstance(stmts, list):
                    continue
                for k, st in enumerate(stmts):
                    if isinstance(st, (ast.Expr, ast.Assign, ast.AugAssign, ast.AnnAssign, ast.Delete, ast.Raise)) and \
                            not (isinstance(st, ast.Expr) and isinstance(st.value, ast.Constant)):
                        out.append(emit(f"stmt dropped ({type(st).__name__})",
                                        lambda m, field=field, k=k: getattr(m, field).__setitem__(k, ast.Pass()), st.lineno))
                    elif isinstance(st, ast.Break):
                        out.append(emit("break->continue",
                                        lambda m, field=field, k=k: getattr(m, field).__setitem__(k, ast.Continue()), st.lineno))
                    elif isinstance(st, ast.Continue):
                        out.append(emit("continue->break",
                                        lambda m, field=field, k=k: getattr(m, field).__setitem__(k, ast.Break()), st.lineno))
                    elif isinstance(st, ast.Return) and st.value is not None and not isinstance(st.value, ast.Constant):
                        out.append(emit("return None",
                                        lambda m, field=field, k=k: setattr(getattr(m, field)[k], "value", None), st.lineno))
        for o in out:
            if o is not None:
                yield o


def run(cmd, env=None, timeout=1800, cwd=None):
    try:
        p = subprocess.run(cmd, shell=True, env=env, cwd=cwd, stdout=subprocess.PIPE, stderr=subprocess.STDOUT, text=True,
                           timeout=timeout, start_new_session=True)
        return p.returncode, p.stdout
    except subprocess.TimeoutExpired:
        return 124, "timeout"


def evaluate(job):
    key, k, desc, lineno, src, outdir = job
    path, props, tests = MODULES[key]
    d = tempfile.mkdtemp(prefix=f"mut_{key}_{k}_", dir="/tmp")
    try:
        shutil.copytree(os.path.join(REPO, "windpyutils"), os.path.join(d, "windpyutils"))
        shutil.copytree(os.path.join(REPO, "tests"), os.path.join(d, "tests"))
        with open(os.path.join(d, path), "w", encoding="utf-8") as f:
            f.write(src)
        res = {"module": key, "id": k, "line": lineno, "desc": desc, "checks": {}}
        try:
            compile(src, path, "exec")
        except SyntaxError:
            res["verdict"] = "invalid"
            return res
        env = dict(os.environ, WINDPYUTILS_REPO=d, VERIF_OUT_DIR=os.path.join(d, "_out"))
        killed = False
        for p in props:
            rc, out = run(f"./check {p} --tier quick", env=env, cwd=VERIF, timeout=900)
            line = [l for l in out.split("\n") if l.startswith(("VIOLATION", "OK ", "KNOWN", "HARNESS"))]
            res["checks"][p] = f"exit={rc} " + " ".join(line)[:200]
            if rc == 1 and any(l.startswith("VIOLATION") for l in line):
                killed = True
                break
        if killed:
            res["verdict"] = "killed"
        else:
            tenv = dict(os.environ, PYTHONPATH=d)
            rc, out = run(f"/venv/bin/python -m pytest -q -x -p no:cacheprovider --timeout=600 {tests}", env=tenv, cwd=d, timeout=2400)
            res["tests"] = f"exit={rc} " + (out.strip().split("\n")[-1][:160] if out.strip() else "")
            res["verdict"] = "survived" if rc == 0 else "tests-only"
        return res
    finally:
        shutil.rmtree(d, ignore_errors=True)


def main():
    ap = argparse.ArgumentParser()
    ap.add_argument("module")
    ap.add_argument("--jobs", type=int, default=12)
    ap.add_argument("--limit", type=int, default=0)
    ap.add_argument("--only-lines", default="")
    ap.add_argument("--stride", type=int, default=1, help="take every n-th mutant")
    a = ap.parse_args()
    path, props, tests = MODULES[a.module]
    src = open(os.path.join(REPO, path), encoding="utf-8").read()
    tree = ast.parse(src)
    lo, hi = (map(int, a.only_lines.split("-")) if a.only_lines else (0, 10 ** 9))
    jobs = []
    seen = set()
    outdir = os.path.join(VERIF, ".scratch", "mut")
    os.makedirs(outdir, exist_ok=True)
    for k, (desc, lineno, t) in enumerate(mutants(tree)):
        if not (lo <= lineno <= hi):
            continue
        try:
            msrc = ast.unparse(t)
        except Exception:
            continue
        if msrc in seen or msrc == ast.unparse(tree):
            continue
        seen.add(msrc)
        jobs.append((a.module, k, desc, lineno, msrc, outdir))
    jobs = jobs[::a.stride]
    if a.limit:
        jobs = jobs[:a.limit]
    print(f"{a.module}: {len(jobs)} mutants", flush=True)
    outp = os.path.join(outdir, a.module + ".jsonl")
    counts = {}
    with open(outp, "w") as f, ThreadPoolExecutor(a.jobs) as ex:
        for res in ex.map(evaluate, jobs):
            counts[res["verdict"]] = counts.get(res["verdict"], 0) + 1
            f.write(json.dumps(res) + "\n")
            f.flush()
    print(a.module, counts, flush=True)


if __name__ == "__main__":
    sys.exit(main())
