#!/bin/sh
# usage: tools/seedsweep.sh [pattern] [jobs]  — every seeded/<id>/patch.diff (matching pattern) is applied to a scratch worktree of
# /repo (never to /repo itself), the quick check of its property runs against that worktree (WINDPYUTILS_REPO) with its
# output under a scratch directory (VERIF_OUT_DIR), several at a time; one line per seed in seeded/RESULTS.txt.
PAT="${1:-*}"; JOBS="${2:-6}"
W=/tmp/seedsweep.$$; mkdir -p $W/out $W/res
cd /verif || exit 2
(cd lean && lake build >/dev/null 2>&1)
one() {
  ID=$1; PROP=${ID%%-*}; WT=$W/wt_$ID
  git -C /repo worktree add --detach -q $WT HEAD 2>/dev/null || { echo "$ID worktree-failed" > $W/res/$ID; return; }
  if ! git -C $WT apply /verif/seeded/$ID/patch.diff 2>/dev/null; then echo "$ID patch-does-not-apply" > $W/res/$ID
  else
    mkdir -p $W/out/$ID
    (cd /verif && WINDPYUTILS_REPO=$WT VERIF_OUT_DIR=$W/out/$ID setsid -w timeout -k 5 1800 ./check $PROP --tier quick > $W/out/$ID/check.txt 2>&1
     echo "$ID exit=$? $(grep -E 'VIOLATION|^OK|KNOWN|HARNESS' $W/out/$ID/check.txt | tr '\n' ' ')" > $W/res/$ID)
    cp $W/out/$ID/check.txt /verif/seeded/$ID/check_repo_applied.txt 2>/dev/null
  fi
  git -C /repo worktree remove --force $WT 2>/dev/null
}
N=0
for D in /verif/seeded/$PAT/; do
  ID=$(basename $D); [ -f $D/patch.diff ] || continue
  one $ID &
  N=$((N+1)); if [ $((N % JOBS)) -eq 0 ]; then wait; fi
done
wait
# results of this sweep replace the lines of the same seeds in RESULTS.txt, other lines stay
touch /verif/seeded/RESULTS.txt
for R in $W/res/*; do ID=$(basename $R); grep -v "^$ID " /verif/seeded/RESULTS.txt | grep -v SEEDSWEEP-DONE > $W/tmp_results; cat $W/tmp_results $R > /verif/seeded/RESULTS.txt; done
sort -o /verif/seeded/RESULTS.txt /verif/seeded/RESULTS.txt; echo SEEDSWEEP-DONE >> /verif/seeded/RESULTS.txt
git -C /repo worktree prune; rm -rf $W
grep -c "exit=1" /verif/seeded/RESULTS.txt
