#!/venv/bin/python
"""model-only fuzzing of the pool model's invariants: random walks over the Lean model (no real code involved)"""
import random, subprocess, sys, time
sys.path.insert(0, '/verif')
from harness.core import DRIVER
from harness.poolsim import Cfg

def walk(rng, cfg, check, max_steps=3000):
    p = subprocess.Popen([DRIVER, "pool"], stdin=subprocess.PIPE, stdout=subprocess.PIPE, text=True, bufsize=1)
    def ask(line):
        p.stdin.write(line + "\n"); p.stdin.flush()
        return p.stdout.readline().rstrip("\n")
    try:
        assert ask(cfg.model_line()) == "ok"
        en = ask("enabled")[3:].split(",")
        sched = []
        for _ in range(max_steps):
            en = [e for e in en if e]
            if not en:
                break
            t = rng.choice(en)
            sched.append(t)
            out = ask(f"step {t}")
            en = out.rsplit("# en:", 1)[1].split(",")
            r = ask(check)
            if r != check + ":":
                return sched, out, r
        fin = ask("final")
        return None if True else fin
    finally:
        p.stdin.close(); p.wait()

if __name__ == "__main__":
    check = sys.argv[1] if len(sys.argv) > 1 else "inv"
    n = int(sys.argv[2]) if len(sys.argv) > 2 else 300
    rng = random.Random(int(sys.argv[3]) if len(sys.argv) > 3 else 1)
    t0 = time.time(); bad = 0
    for k in range(n):
        factory = rng.random() < 0.5
        calls = [(rng.choice([0, 1, 2, 3, 5]), rng.choice([1, 2]), rng.random() < 0.6) for _ in range(rng.choice([1, 2, 3]))]
        cfg = Cfg(n_workers=rng.choice([1, 2, 3]), work_cap=rng.choice(["default", None, 1.0, 2.0]) if factory else rng.choice(["default", None, 1, 2]),
                  res_cap=rng.choice([None, 1, 2]), factory=factory, quota=rng.choice([1, 2]) if factory else None,
                  wait_ready=rng.random() < 0.3, calls=calls)
        if check == "life" and rng.random() < 0.5:
            if rng.random() < 0.4:
                cfg.begin_fault = [rng.randrange(cfg.n_workers)]; cfg.wait_ready = False
            else:
                cfg.item_fault = [(rng.randrange(cfg.n_workers + 2), rng.randint(0, 1))]
        r = walk(rng, cfg, check)
        if r is not None:
            bad += 1
            print("VIOLATED", cfg.model_line(), "\n  last:", r[1], "\n  ", r[2], "\n  sched:", " ".join(r[0][-40:]))
            if bad >= 3: break
    print("walks", k + 1, "bad", bad, round(time.time() - t0, 1), "s")
