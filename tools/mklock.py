#!/venv/bin/python
"""writes /verif/anchors.lock.json: AST digests (comments and docstrings ignored) of every source file of the package on the
unchanged tree.  The checks compare the current tree with it and raise their budgets where an anchored file changed."""
import glob
import json
import os
import sys

if os.path.realpath(sys.executable) != os.path.realpath("/venv/bin/python") and os.path.exists("/venv/bin/python"):
    os.execv("/venv/bin/python", ["/venv/bin/python"] + sys.argv)  # the digests depend on the interpreter's ast.dump
sys.path.insert(0, os.path.dirname(os.path.dirname(os.path.abspath(__file__))))
from harness import core

out = {}
for p in sorted(glob.glob(os.path.join(core.REPO, "windpyutils", "**", "*.py"), recursive=True)):
    out[os.path.relpath(p, core.REPO)] = core._ast_digest(p)
json.dump(out, open(os.path.join(core.VERIF, "anchors.lock.json"), "w"), indent=1, sort_keys=True)
print(len(out), "files")
