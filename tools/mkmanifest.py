#!/usr/bin/env python3
"""(re)generates MANIFEST.json from tools/manifest_src.py"""
import json, os, sys
sys.path.insert(0, os.path.dirname(os.path.abspath(__file__)))
from manifest_src import CHECKS, NOT_APPLICABLE, NOTES
checks = []
for pid, c in sorted(CHECKS.items()):
    checks.append({
        "property_id": pid,
        "quick_cmd": f"./check {pid} --tier quick",
        "thorough_cmd": f"./check {pid} --tier thorough",
        "evidence_file": f"evidence/{pid}.json",
        "replay_cmd_template": f"./check {pid} --replay {{path}}",
        "engine": "lean-proofs+correspondence",
        "level_claimed": {"category": "proof", "text": c["text"], "design_ref": f"DESIGN.md §7 {pid}"},
        "level_note": c["note"],
        "technique": c["technique"],
    })
m = {
    "version": 1,
    "setup_cmd": "cd lean && lake build",
    "hooks": {
        "guard": "WINDPYUTILS_VERIF",
        "enable": "no source hooks: the harness rebinds, by identity and in its own process only, names imported by the anchored modules (threading / queue / open / mmap); WINDPYUTILS_VERIF=1 is exported by the harness for any future add-only trace point",
        "baseline_off_cmd": "cd /repo && /venv/bin/python -m pytest -ra -q -p no:cacheprovider --timeout=900 --continue-on-collection-errors",
        "source_commits": [],
        "add_only": True,
    },
    "engines": [
        {"name": "lean-proofs+correspondence", "path": "lean/ + harness/", "serves_properties": sorted(CHECKS),
         "kind_free_text": "Lean 4.33 executable models + property theorems (core library only, axioms audited on every run) tied to /repo by differential execution of the real classes against the compiled Lean model driver, with an independent Python oracle as judge of the property on the implementation's traces"},
    ],
    "checks": checks,
    "not_applicable": NOT_APPLICABLE,
    "notes": NOTES,
}
json.dump(m, open(os.path.join(os.path.dirname(os.path.abspath(__file__)), "..", "MANIFEST.json"), "w"), indent=1)
print("wrote MANIFEST.json with", len(checks), "checks")
