#!/bin/sh
# usage: tools/seedall.sh [pattern]  — for every seeded/<id>/ (matching pattern): apply patch.diff to /repo, run the quick check of
# its property, undo, restore the evidence; one line per seed in seeded/RESULTS.txt.  /repo must be clean and stays clean.
cd /repo || exit 2
[ -z "$(git status --porcelain --untracked-files=no)" ] || { echo "/repo dirty"; exit 2; }
OUT=/verif/seeded/RESULTS.txt; : > $OUT
for D in /verif/seeded/${1:-*}/; do
  ID=$(basename $D); PROP=${ID%%-*}
  [ -f $D/patch.diff ] || continue
  cd /repo
  if ! git apply --check $D/patch.diff 2>/dev/null; then echo "$ID patch-does-not-apply" >> $OUT; continue; fi
  git apply $D/patch.diff
  cp /verif/evidence/$PROP.json /tmp/.evidence_all_$PROP.json
  (cd /verif && timeout 1800 ./check $PROP --tier quick > $D/check_repo_applied.txt 2>&1; echo "$ID exit=$? $(grep -E 'VIOLATION|^OK|KNOWN|HARNESS' $D/check_repo_applied.txt | tr '\n' ' ')" >> $OUT)
  mv /tmp/.evidence_all_$PROP.json /verif/evidence/$PROP.json
  cd /repo && git checkout -q -- .
done
echo SEEDALL-DONE >> $OUT
