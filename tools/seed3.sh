#!/bin/sh
# usage: tools/seed3.sh <seed-id> <worktree> <prop>
# round-3 helper: stores the seed under seeded/<seed-id>/, confirms its demo in the agent's scratch worktree with and
# without the change, then runs the quick check against that worktree (WINDPYUTILS_REPO) — /repo itself is not touched.
set -u
ID="$1"; WT="$2"; PROP="$3"
D=/verif/seeded/$ID; mkdir -p $D
cp $WT/_seed/patch.diff $WT/_seed/meta.json $WT/_seed/demo.py $D/ 2>/dev/null
LOG=$D/confirm.log; : > $LOG
cd $WT || exit 2
git checkout -q -- . ; git apply $D/patch.diff || { echo "patch does not apply" | tee -a $LOG; exit 2; }
(setsid -w timeout -k 5 300 env PYTHONPATH=$WT /venv/bin/python $D/demo.py > $D/demo_with.txt 2>&1; echo "demo with change: exit=$?" >> $LOG)
git checkout -q -- .
(setsid -w timeout -k 5 300 env PYTHONPATH=$WT /venv/bin/python $D/demo.py > $D/demo_without.txt 2>&1; echo "demo without change: exit=$?" >> $LOG)
git apply $D/patch.diff
for f in $WT/_seed/tests*.log; do [ -f "$f" ] && echo "agent's test log $(basename $f): $(tail -1 $f)" >> $LOG; done
cd /verif
cp evidence/$PROP.json /tmp/.evidence_triage_$PROP.json 2>/dev/null
WINDPYUTILS_REPO=$WT timeout 1800 ./check $PROP --tier quick > $D/check_quick.txt 2>&1; RC=$?
[ -f /tmp/.evidence_triage_$PROP.json ] && mv /tmp/.evidence_triage_$PROP.json evidence/$PROP.json
echo "check $PROP quick (against the worktree): exit=$RC $(grep -E 'VIOLATION|^OK|KNOWN' $D/check_quick.txt | tr '\n' ' ')" >> $LOG
cat $LOG
