#!/bin/sh
# usage: tools/mut.sh <patch-file | -R:<commit>> <prop> [tier]   — apply a change to /repo, run the check, undo
set -u
P="$1"; PROP="$2"; TIER="${3:-quick}"
cd /repo || exit 2
if [ -n "$(git status --porcelain --untracked-files=no)" ]; then echo "repo dirty"; exit 2; fi
case "$P" in
  -R:*) git show "${P#-R:}" | git apply -R || exit 2 ;;
  *) git apply "$P" || exit 2 ;;
esac
cp /verif/evidence/$PROP.json /tmp/.evidence_$PROP.json 2>/dev/null
cd /verif && timeout 1800 ./check "$PROP" --tier "$TIER"; RC=$?
# evidence written on a modified tree is not evidence: put the one of the unchanged tree back
[ -f /tmp/.evidence_$PROP.json ] && mv /tmp/.evidence_$PROP.json /verif/evidence/$PROP.json
cd /repo && git checkout -- . 
echo "exit=$RC"
