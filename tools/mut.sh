#!/bin/sh
# usage: tools/mut.sh <patch-file | -R:<commit>> <prop> [tier]   — apply a change to /repo, run the check, undo
set -u
P="$1"; PROP="$2"; TIER="${3:-quick}"
cd /repo || exit 2
if [ -n "$(git status --porcelain --untracked-files=no)" ]; then echo "repo dirty"; exit 2; fi
case "$P" in
  -R:*) git show "${P#-R:}" | git apply -R || exit 2 ;;
  *) git apply "$P" || exit 2 ;;
esac
cd /verif && timeout 1800 ./check "$PROP" --tier "$TIER"; RC=$?
cd /repo && git checkout -- . 
echo "exit=$RC"
