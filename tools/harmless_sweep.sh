#!/bin/sh
# usage: tools/harmless_sweep.sh [pattern] [jobs] — every harmless/<id>/patch.diff (a behaviour-preserving change) is applied to a
# scratch worktree of /repo and the quick check of its property runs against it: every line of harmless/RESULTS.txt must say exit=0
PAT="${1:-*}"; JOBS="${2:-4}"
W=/tmp/harmsweep.$$; mkdir -p $W/out $W/res
cd /verif || exit 2
(cd lean && lake build >/dev/null 2>&1)
one() {
  ID=$1; PROP=${ID%%-*}; WT=$W/wt_$ID
  git -C /repo worktree add --detach -q $WT HEAD 2>/dev/null || { echo "$ID worktree-failed" > $W/res/$ID; return; }
  if ! git -C $WT apply /verif/harmless/$ID/patch.diff 2>/dev/null; then echo "$ID patch-does-not-apply" > $W/res/$ID
  else
    mkdir -p $W/out/$ID
    (cd /verif && WINDPYUTILS_REPO=$WT VERIF_OUT_DIR=$W/out/$ID setsid -w timeout -k 5 1800 ./check $PROP --tier quick > $W/out/$ID/check.txt 2>&1
     echo "$ID exit=$? $(grep -E 'VIOLATION|^OK|KNOWN|HARNESS' $W/out/$ID/check.txt | tr '\n' ' ')" > $W/res/$ID)
  fi
  git -C /repo worktree remove --force $WT 2>/dev/null
}
N=0
for D in /verif/harmless/$PAT/; do
  ID=$(basename $D); [ -f $D/patch.diff ] || continue
  one $ID &
  N=$((N+1)); if [ $((N % JOBS)) -eq 0 ]; then wait; fi
done
wait
cat $W/res/* > /verif/harmless/RESULTS.txt; echo HARMLESS-SWEEP-DONE >> /verif/harmless/RESULTS.txt
git -C /repo worktree prune; rm -rf $W
grep -vc "exit=0" /verif/harmless/RESULTS.txt
