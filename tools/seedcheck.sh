#!/bin/sh
# usage: tools/seedcheck.sh <seed-id> <worktree> <prop> "<pytest args for the relevant existing tests>"
# copies the seed into /verif/seeded/<seed-id>/, confirms the demo in the agent's worktree (with / without the change),
# runs the relevant existing tests with the change, then applies the patch to /repo, runs the check, and undoes it.
set -u
ID="$1"; WT="$2"; PROP="$3"; TESTS="$4"
D=/verif/seeded/$ID; mkdir -p $D
cp $WT/_seed/patch.diff $WT/_seed/meta.json $D/ 2>/dev/null
cp $WT/_seed/demo.py $D/ 2>/dev/null
LOG=$D/confirm.log
PHASE="${PHASE:-AB}"   # A = demo with/without + existing tests, in the worktree only; B = patch applied to /repo, check run, undone
case "$PHASE" in *A*) : > $LOG ;; esac
case "$PHASE" in *A*)
cd $WT || exit 2
git checkout -q -- . ; git apply $D/patch.diff || { echo "patch does not apply" | tee -a $LOG; exit 2; }
(setsid -w timeout -k 5 300 env PYTHONPATH=$WT /venv/bin/python $D/demo.py > $D/demo_with.txt 2>&1; echo "demo with change: exit=$?" >> $LOG)
[ -n "$TESTS" ] && (setsid -w timeout -k 5 3000 env PYTHONPATH=$WT /venv/bin/python -m pytest -q -p no:cacheprovider --timeout=900 $TESTS > $D/tests_with.txt 2>&1; echo "existing tests with change: exit=$? $(tail -1 $D/tests_with.txt)" >> $LOG)
git checkout -q -- .
(setsid -w timeout -k 5 300 env PYTHONPATH=$WT /venv/bin/python $D/demo.py > $D/demo_without.txt 2>&1; echo "demo without change: exit=$?" >> $LOG)
git apply $D/patch.diff
;;
esac
case "$PHASE" in *B*) ;; *) cat $LOG; exit 0 ;; esac
cd /repo && [ -z "$(git status --porcelain --untracked-files=no)" ] || { echo "/repo dirty"; exit 2; }
git apply $D/patch.diff || { echo "patch does not apply to /repo" | tee -a $LOG; exit 2; }
cp /verif/evidence/$PROP.json /tmp/.evidence_$PROP.json 2>/dev/null
(cd /verif && timeout 1800 ./check $PROP --tier quick > $D/check_quick.txt 2>&1; echo "check $PROP quick: exit=$? $(grep -E 'VIOLATION|OK |KNOWN' $D/check_quick.txt | tr '\n' ' ')" >> $LOG)
[ -f /tmp/.evidence_$PROP.json ] && mv /tmp/.evidence_$PROP.json /verif/evidence/$PROP.json
git checkout -q -- .
cat $LOG
