COMMON_NOTE = ("The theorems are about the hand-written Lean model; the tie to the code is the correspondence run (differential "
               "testing, coverage measured in the evidence). Trusted: Lean 4.33 kernel, axioms propext/Classical.choice/Quot.sound "
               "(audited per theorem on every run), the harness and its generators. ")
CHECKS = {
    "C06": {
        "text": "Lean: the dict+linked-list model of LRUCache simulates an abstract recency list on get/set/del (refinement), a generic theorem transports the simulation to every MutableMapping mixin and to every finite history; on the abstract list: bound, no repeated key, lookup-after-store, exact LRU eviction, and the recency list is justified against the textbook time-stamp definition (victim = least stamp); views/mixins total with stated results.",
        "note": COMMON_NOTE + "Keys/values are naturals in the model; collections.abc mixins are written out from CPython 3.12's definitions and compared on every run. 'Membership may or may not count' is left free by the oracle, fixed (counts) in the model.",
        "technique": "Lean 4 refinement proof (concrete dict+DLL -> recency list -> time stamps) + model/code correspondence check",
    },
    "C07": {
        "text": "Lean: the dict+linked-list model of LFUCache (incl. the _inc_freq walk) simulates an abstract counted list; generic transport to mixins and histories; on the abstract list: bound, counts non-decreasing along the list (invariant), count semantics (+1 per store/lookup, 1 at insertion), victim has the minimum count, latest stored value returned, views/mixins total with stated results.",
        "note": COMMON_NOTE + "Ties among equal counts are fixed in the model as in the code and left free by the oracle.",
        "technique": "Lean 4 refinement proof (concrete dict+DLL -> counted list) + model/code correspondence check",
    },
    "C08": {
        "text": "Lean: every operation on member nodes preserves the representation predicate (all prev/next links, head/tail, length) and realises the reference sequence operation; by induction for every operation sequence; forward/backward walks and len read the sequence off; only the documented IndexError/RuntimeError failures exist.",
        "note": COMMON_NOTE + "Node payloads are not modelled (identity only); the correspondence run uses hostile payloads (__eq__ raises, long equal runs) and compares every link after every operation.",
        "technique": "Lean 4 proof (doubly-linked-segment representation invariant) + model/code correspondence check",
    },
    "C09": {
        "text": "Lean: the real bisect_left loop returns the rank on strictly ascending lists; constructors and every SortedSet/SortedMap operation preserve strict ascending order; membership/lookup characterisations make the content equal to set/dict semantics (later initial pairs win); strictly ascending lists are determined by their elements; foreign-typed probes are absent (False/KeyError) by pure functions of the state.",
        "note": COMMON_NOTE + "Numeric keys are embedded in Int by exact order ranks (Fraction); bisect_left, sorted and dict(pairs) are modelled and compared with the library on every run. NaN excluded.",
        "technique": "Lean 4 proof (sortedness invariant, bisect loop invariant, lookup semantics) + model/code correspondence check",
    },
}
CHECKS["C10"] = {
    "text": "Lean: membership is the existential scan with the set's relation; the constructor keeps a span iff it is not in the set built so far (sublist of the input, pairwise unrelated to earlier kept spans, covering for reflexive relations); A&B, A|B, A-B, A^B contain exactly the spans of A and B satisfying the membership formula, each once, for arbitrary (mixed) relations of the operands; the nine comparisons are exactly the quantified membership statements.",
    "note": COMMON_NOTE + "Span bounds are numbers embedded in Int (multiples of 1/2 sent as integers, int/float mixed on the Python side).",
    "technique": "Lean 4 proof (fold invariant of the constructor, membership characterisations) + model/code correspondence check",
}
CHECKS["C16"] = {
    "text": "Lean: construction succeeds iff every interval has start<=end and the intervals are pairwise apart, else KeyError; lookup (the real bisect_left loop over the sorted ends, then the start test) returns the value of the unique containing interval and KeyError when none; `in` agrees; len; iteration is a permutation of the items in strictly ascending order.",
    "note": COMMON_NOTE + "The disjointness check goes through the SpanSet model of C10 (Overlaps relation) exactly as the code does; sorted() is modelled by List.mergeSort.",
    "technique": "Lean 4 proof (constructor iff, bisect loop invariant, uniqueness by disjointness) + model/code correspondence check",
}
CHECKS["C15"] = {
    "text": "Lean: for every history that feeds each serial at most once with full drains at arbitrary points, the concatenated output is exactly the items of serials 0..waiting_for-1 in order, everything below waiting_for was fed, the buffer holds exactly the fed-but-unemitted serials and len is their number; after a drain waiting_for is the least unfed serial; a permutation of 0..n-1 plus a final drain emits everything once in order; same for PrintBuffer with flush/clear as documented; CircularBuffer presents the last min(k,c) items since the last clear and rejects indices outside 0..len-1 (Python's non-negative modulo modelled with Int.emod).",
    "note": COMMON_NOTE + "A drain is a complete iteration (the property's drain points); items are naturals.",
    "technique": "Lean 4 proof (permutation invariant fed ~ range wf ++ held; ring index invariant) + model/code correspondence check",
}
CHECKS["C17"] = {
    "text": "Lean: sorted_combinations (priority queue seeded with singletons, pop = minimum of the Python tuple order, extension by later elements, fuel 2^n shown sufficient) yields a permutation of all non-empty index-ordered combinations, each with its key, in non-decreasing key order; the min-combination scan returns exactly the combinations whose sum is the least sum in [i_start, i_end), each once. Only key-minimality of the pop is used, so tie-breaks are free.",
    "note": COMMON_NOTE + "heapq is modelled as 'pop returns the minimum of a strict total order'; scores are naturals; elements are indices.",
    "technique": "Lean 4 proof (pending-subtree invariant, key lower bound) + model/code correspondence check",
}
CHECKS["C19"] = {
    "text": "Lean: int_2_roman equals an independently written canonical numeral and roman_2_int inverts it on the whole domain 1..3999 (kernel evaluation through a balanced range checker with a soundness lemma, no native_decide); arg_sort is a permutation of the indices with non-decreasing (reverse: non-increasing) keys and equal keys in index order in both directions; sub_seq is List infix, search_sub_seq lists exactly the occurrences in ascending order and raises ValueError on empty input; compare_pos_in_iterables is List.Perm; Batcher/BatcherIter cut into consecutive batches whose concatenation is the input, all of size batch_size but a shorter non-empty last one, len = integer ceiling, IndexError at and beyond len; range objects batched by arithmetic on their bounds.",
    "note": COMMON_NOTE + "sorted() modelled as List.mergeSort (stable), slicing as drop/take; tuple inputs are checked to batch in lock-step by the harness (they reuse the same slicing per member).",
    "technique": "Lean 4 proof (whole-domain decide +kernel, stability of mergeSort, list lemmas) + model/code correspondence check",
}
CHECKS["C11"] = {
    "text": "Lean: the built index has one byte offset per '\\n'-delimited line (unterminated last line counts, final newline adds none), every offset is on a character boundary and starts its line; f[i] for positive and negative i, IndexError outside, RuntimeError when closed; iterables and slices select like a list (slice.indices modelled, bound proved); a caller-supplied offset index is honoured; every read returns the presented line whatever the handle's cursor is and changes nothing but the cursor, hence an iteration step yields line pos under any interleaving with random accesses and other iterations.",
    "note": COMMON_NOTE + "One model for all eight variants (buffered / memory-mapped, plain / mutable / record while unmodified): TextIOWrapper(newline='\\n') and mmap.readline+decode are modelled library behaviour; UTF-8 sizes via Char.utf8Size; files are valid UTF-8; mmap variants are not run on empty files.",
    "technique": "Lean 4 proof (cursor-independent presentation invariant, index/split correspondence) + model/code correspondence check",
}
CHECKS["C12"] = {
    "text": "Lean: item assignment, deletion, insert, append, extend, pop, remove, reverse and += map the presented list to the result of the Python list operation, raise IndexError/ValueError exactly where a list does, set dirty on success and never touch the source content; iteration of the view yields the list; save writes exactly the lines each followed by the chosen ending; reopening what the default ending wrote gives the same list.",
    "note": COMMON_NOTE + "MutableSequence mixins are written out from their collections.abc definitions; the harness additionally checks saved bytes, reopening in both flavours and the source file's bytes on disk.",
    "technique": "Lean 4 proof (refinement of the _lines overlay to a Python list) + model/code correspondence check",
}
CHECKS["C13"] = {
    "text": "Lean: csv writer (QUOTE_MINIMAL) followed by the csv reader state machine is the identity on field lists without line breaks (with terminator, with the trailing \\r a saved record file leaves, and bare), a saved row is a single line, the shared class-level StringIO is empty at position 0 after every save so each save returns exactly its own row; JSON glue under the stated json round-trip assumption. Record files = line files (C11/C12) with load per line.",
    "note": COMMON_NOTE + "Modelled library behaviour (csv writer/reader, StringIO) is compared with the real modules on every generated row; typed fields (int/float/str), JSON values and whole record files (edit, save, reopen in both flavours) are exercised on the real code against the model's prediction 'round trip succeeds'. Assumed, not proved: json.loads(json.dumps(v))==v, int(str(i))==i, float(repr(x))==x.",
    "technique": "Lean 4 proof (parser state invariant over written rows) + model/code correspondence check",
}
CHECKS["C20"] = {
    "text": "Lean: for every history of create/remove/flush by any process of a (multi-process) pool, forks, and files deleted from outside, the invariant holds (one shared list object referenced by every process, no path listed twice, every existing file listed); create returns a fresh existing path; without outside deletion the listed paths are exactly the existing ones; after flush() by any process and after leaving the context (normally or by exception: the same __exit__) no file of the pool exists and nothing is listed; removing an unlisted path raises ValueError. FilePool: every path has an open handle inside, all are closed and the pool holds none after leaving, however it is left.",
    "note": COMMON_NOTE + "tempfile / os.remove / manager-list proxies inherited through fork are modelled library behaviour; the harness runs real temp directories, a real Manager and real forked children driven over pipes. FilePool.open failing half-way (a path that cannot be opened) is outside the property as stated.",
    "technique": "Lean 4 proof (inductive invariant over pool histories) + model/code correspondence check",
}
CHECKS["C04"] = {
    "text": "Lean (interleaving model of the pool, all schedules, with begin() or the functor raising anywhere): every worker's event log is begin, item*, end cut off where the worker is — begin exactly once and first, end exactly once and last, present iff the worker exited; chunks processed <= quota; until_all_ready returns only after every listed worker's begin; when the pool context has been left every worker ever created (replaced ones included) has exited. That __exit__ itself terminates is C02's theorem (ExitCap; D19 outside it is a known finding).",
    "note": COMMON_NOTE + "Modelled, not verified: atomicity of each manager-queue/event/lock operation, sequential consistency of the two progress flags (GIL), the replace queue as an atomic FIFO, fork = copy of the Process object, scheduling-point granularity. Out of reach: OS starvation, wall-clock timeouts, a killed manager, fork-in-thread hazards. D19 (exit blocks on its stop orders for an int work-queue bound below the worker count after unreplaced retirements) is a recorded known finding.",
    "technique": "Lean 4 proof (inductive invariant over the interleaving model) + step-by-step correspondence under a controlled scheduler with fault injection",
}
CHECKS["C18"] = {
    "text": "Lean: in every history of forks (children, grandchildren), seeks and reads, process ids are unique and two processes that legitimately use their handle never share an open file description (the pid recorded at open differs from a forked child's pid, which therefore reopens); hence after a process positioned itself, whatever the others do in between (seeks, reads, forks, in any interleaving) its next read returns its own line, sequential reads continue line by line, and no operation fails.",
    "note": COMMON_NOTE + "Modelled, not verified: POSIX fork/open/lseek/read semantics and unique pids while a handle recorded under them lives; mmap position is process memory. The tie runs real forks and real descriptors, with every access split into seek and read by wrappers installed inside the forked processes only.",
    "technique": "Lean 4 proof (single-user invariant of open file descriptions) + model/code correspondence on controlled real forks",
}
CHECKS["C05"] = {
    "text": "Lean (interleaving model of FunctorMap and mul_p_map, every number of workers >= 1, every list of consecutive calls incl. empty ones, all schedules): what the caller has received is always a prefix 0..m-1 of the chunk indices in order; when the program is over every call has handed over exactly its chunks in input order (calls independent; mul_p_map through the final sort); no deadlock (some thread can move while the caller has not finished); every execution is bounded by an explicit measure (termination); at the end every worker has exited and both queues are empty.",
    "note": COMMON_NOTE + "multiprocessing.Queue is modelled as an atomic FIFO (its asynchronous feeder can only make a non-blocking get miss an item on its way). The step from chunk indices to f(x) values is the proved data-level lemma yielded_ordered.",
    "technique": "Lean 4 proof (inductive invariant, progress lemma, decreasing measure) + step-by-step correspondence under a controlled scheduler",
}
CHECKS["C01"] = {
    "text": "Lean (interleaving model of FunctorPool / FactoryFunctorPool: consumer, feeding thread, replace thread, workers; one step per visible operation incl. the separate reads and writes of the two racy progress flags): an inductive safety invariant (every chunk sent so far is in exactly one of work queue, a worker's hands, result queue, drained batch, reorder buffer, emitted output; flag/counter relations per feeder pc; loop-exit facts) holds in every reachable state of every configuration under every interleaving; hence the emitted chunks of an ordered call are always 0..m-1 in order, of an unordered call duplicate-free and valid, and when the consumer leaves the loop every chunk was emitted exactly once (ordered: in input order) with no result chunk, work item or held chunk left. Data level: chunking flattens to the input; emission order 0..n-1 yields exactly map f data, a permutation yields the same multiset with in-chunk order kept.",
    "note": COMMON_NOTE + "Modelled, not verified: atomicity of each manager-queue/event/lock operation, sequential consistency of the two progress flags (GIL), the replace queue as an atomic FIFO, fork = copy of the Process object, scheduling-point granularity. Out of reach: OS starvation, wall-clock timeouts, a killed manager, fork-in-thread hazards. D19 (exit blocks on its stop orders for an int work-queue bound below the worker count after unreplaced retirements) is a recorded known finding.",
    "technique": "Lean 4 proof (inductive conservation invariant over the interleaving model) + step-by-step correspondence under a controlled scheduler",
}
CHECKS["C03"] = {
    "text": "Lean (same model, the consumer runs an arbitrary list of calls on one pool, factory pools replace retired workers at any moment): when the caller's program is over, and for every call already over while it runs, call k emitted exactly its own chunks (ordered calls in input order) under every interleaving: nothing leaks between calls; between calls no result chunk, work item or held chunk is left; after the context has been left every worker ever created has exited. Termination of every call and worker availability across replacement are C02's liveness theorems; leaving the context in the D19 region is a recorded known finding.",
    "note": COMMON_NOTE + "Modelled, not verified: atomicity of each manager-queue/event/lock operation, sequential consistency of the two progress flags (GIL), the replace queue as an atomic FIFO, fork = copy of the Process object, scheduling-point granularity. Out of reach: OS starvation, wall-clock timeouts, a killed manager, fork-in-thread hazards. D19 (exit blocks on its stop orders for an int work-queue bound below the worker count after unreplaced retirements) is a recorded known finding.",
    "technique": "Lean 4 proof (safety + history invariant over the interleaving model) + step-by-step correspondence of multi-call histories under a controlled scheduler",
}
CHECKS["C14"] = {
    "text": "Lean (interleaving model of TextFileStorage: any number of processes with their own copy of the object, arbitrary scripts of store/read/len/is_contiguous/iterate, ~55 program counters, re-entrant lock, files as lists of writes; all schedules): published => durable (every index entry points at a complete line of an existing file) and stable (an entry and its line never change); a finished read of g raised IndexError or returned exactly the complete line of a store of g that succeeded — never empty, partial or another id's; at most one store of an id succeeds, the others raise ValueError; whenever nobody is inside a critical section len() is the number of stored ids and _waiting_for the least unstored id, and is_contiguous is true exactly when the stored ids are 0..len-1; an iteration yields every stored text in id order skipping gaps; flush() removes every listed file and leaves the initial state.",
    "note": COMMON_NOTE + "Modelled, not verified: atomicity of each manager-list / Value / RLock operation; a write is visible at once (and print() is two writes) in the model — the harness additionally runs half of its schedules with data invisible until flush(); POSIX append/seek/readline; processes open their own handles; texts are single-line. flush() requires every other process to be done (documented). D20 (flush did not reset the calling object) was repaired.",
    "technique": "Lean 4 proof (layered inductive invariants: lock discipline, durability, history, counters, iteration) + step-by-step correspondence under a controlled scheduler",
}
NOT_APPLICABLE = []
NOTES = ("Checks are added as their models, theorems and correspondence harnesses are completed; properties not yet listed are "
         "work in progress (see DESIGN.md), not 'not applicable'.")
