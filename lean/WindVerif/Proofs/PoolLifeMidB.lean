import WindVerif.Proofs.PoolLifeMid
/-!
Mid-call `until_all_ready()` (C04), the caller's view: every worker that the pool listed at the moment `until_all_ready()`
was called (the loop fetched slot 0) and that it still lists after the call has returned has completed `begin()` — the
oracle the harness applies to the real code.  A worker listed before and after was listed, in its slot, all the time (a
slot is only ever overwritten with a fresh wid), hence it was the occupant when the loop arrived at the slot, hence it was
waited for.
-/
namespace WindVerif.Pool

/-- how a step may change the listing: the length stays, the wid counter does not decrease, an entry stays or becomes a
fresh wid -/
structure ProcsStep (s s' : St) : Prop where
  wc : s.widCounter ≤ s'.widCounter
  len : s'.procs.length = s.procs.length
  ent : ∀ (j v : Nat), s'.procs[j]? = some v → s.procs[j]? = some v ∨ s.widCounter ≤ v

theorem ProcsStep_same {s s' : St} (h1 : s'.procs = s.procs) (h2 : s'.widCounter = s.widCounter) : ProcsStep s s' :=
  ⟨by rw [h2]; exact Nat.le_refl _, by rw [h1], fun j v h => Or.inl (by rw [← h1]; exact h)⟩

theorem stepC_procsM {s s' : St} (h : stepC s = some s') : s'.procs = s.procs ∧ s'.widCounter = s.widCounter := by
  cases hpc : s.cpc <;> simp only [stepC, hpc] at h
  case enterStart k =>
    split at h
    · cases h
    · split at h
      · cases h
      · try dsimp only at h
        split at h
        · simp only [Option.some.injEq] at h; subst h; exact ⟨rfl, rfl⟩
        · simp only [Option.some.injEq] at h; subst h
          unfold afterEnter
          split
          · exact ⟨rfl, rfl⟩
          · exact ⟨(toNextCall_same _).1.procs, (toNextCall_same _).1.widCounter⟩
  all_goals
    (repeat' split at h) <;>
      first
      | (simp only [Option.some.injEq] at h; subst h
         first
         | exact ⟨rfl, rfl⟩
         | exact ⟨(toNextCall_same _).1.procs, (toNextCall_same _).1.widCounter⟩
         | exact ⟨(afterResults_same _).1.procs, (afterResults_same _).1.widCounter⟩
         | exact ⟨(afterBatch_same _).1.procs, (afterBatch_same _).1.widCounter⟩)
      | cases h

theorem stepF_procsM {s s' : St} (h : stepF s = some s') : s'.procs = s.procs ∧ s'.widCounter = s.widCounter := by
  unfold stepF at h
  (repeat' split at h) <;>
    first
    | (simp only [Option.some.injEq] at h; subst h
       first | exact ⟨rfl, rfl⟩ | (split <;> exact ⟨rfl, rfl⟩))
    | cases h

theorem stepR_procsM {s s' : St} (h : stepR s = some s') : ProcsStep s s' := by
  unfold stepR at h
  split at h
  · cases h
  · split at h
    · cases h
    · split at h
      · cases h
      · simp only [Option.some.injEq] at h; subst h; exact ProcsStep_same rfl rfl
      · simp only [Option.some.injEq] at h; subst h; exact ProcsStep_same rfl rfl
    · rename_i wid _
      split at h
      · simp only [Option.some.injEq] at h; subst h
        refine ⟨Nat.le_succ _, List.length_map _, ?_⟩
        intro j v hv
        dsimp only at hv
        rw [List.getElem?_map] at hv
        cases hx : s.procs[j]? with
        | none => rw [hx] at hv; cases hv
        | some x =>
          rw [hx] at hv
          simp only [Option.map_some, Option.some.injEq] at hv
          by_cases he : x = wid
          · rw [if_pos he] at hv; right; omega
          · rw [if_neg he] at hv; left; rw [hv]
      · cases h
    · split at h
      · cases h
      · simp only [Option.some.injEq] at h; subst h; exact ProcsStep_same rfl rfl

theorem step_procsM {s s' : St} {t : Tid} (h : step s t = some s') : ProcsStep s s' := by
  cases t with
  | c => exact ProcsStep_same (stepC_procsM h).1 (stepC_procsM h).2
  | f => exact ProcsStep_same (stepF_procsM h).1 (stepF_procsM h).2
  | r => exact stepR_procsM h
  | w k =>
    obtain ⟨w, w', _, _, _, _, _, _, hf⟩ := stepW_summary h
    exact ProcsStep_same hf.procs hf.widCounter

/-- worker `v` exists and its `begin_finished` is set -/
def Begun (s : St) (v : Nat) : Prop := ∃ x ∈ s.workers, x.wid = v ∧ x.bf = true

theorem Begun_step {s s' : St} {t : Tid} (hI : LInv s) (h : step s t = some s') {v : Nat} (hb : Begun s v) : Begun s' v := by
  obtain ⟨x, hx, hxw, hxb⟩ := hb
  obtain ⟨y, hy, hyw, hyb⟩ := step_bfMono hI h x hx
  exact ⟨y, hy, hyw.trans hxw, hyb hxb⟩

/-- the invariant of a run that starts where `until_all_ready()` fetches slot 0 (`wc0` = the wid counter at that moment,
`pr0` = the listing at that moment, `k` = slots the loop has passed): old wids sit in their old slots; old wids in passed
slots have completed `begin()`; the loop is at slot `k` with the old occupant of that slot in its hands, if an old wid is
still there — or it has passed every slot -/
structure MidRun (wc0 : Nat) (pr0 : List Nat) (s : St) (k : Nat) : Prop where
  wc : wc0 ≤ s.widCounter
  old : ∀ (j v : Nat), s.procs[j]? = some v → v < wc0 → pr0[j]? = some v
  passed : ∀ (j v : Nat), j < k → s.procs[j]? = some v → v < wc0 → Begun s v
  at_ : (∃ w, s.cpc = .midReady k w ∧ ∀ w', s.procs[k]? = some w' → w' < wc0 → w' = w) ∨ s.procs.length ≤ k

theorem MidRun_step {wc0 : Nat} {pr0 : List Nat} {s s' : St} {t : Tid} {k : Nat} (hI : LInv s) (hM : MidRun wc0 pr0 s k)
    (h : step s t = some s') : ∃ k', MidRun wc0 pr0 s' k' := by
  have hp := step_procsM h
  have hold : ∀ (j v : Nat), s'.procs[j]? = some v → v < wc0 → s.procs[j]? = some v := by
    intro j v hv hlt
    rcases hp.ent j v hv with h1 | h1
    · exact h1
    · have := hM.wc; omega
  have hwc : wc0 ≤ s'.widCounter := Nat.le_trans hM.wc hp.wc
  have hold' : ∀ (j v : Nat), s'.procs[j]? = some v → v < wc0 → pr0[j]? = some v :=
    fun j v hv hlt => hM.old j v (hold j v hv hlt) hlt
  have hpassed : ∀ (j v : Nat), j < k → s'.procs[j]? = some v → v < wc0 → Begun s' v :=
    fun j v hj hv hlt => Begun_step hI h (hM.passed j v hj (hold j v hv hlt) hlt)
  by_cases ht : t = .c
  · subst ht
    rcases hM.at_ with ⟨w, hpc, hw⟩ | hge
    · -- the wait for slot `k`
      have hst : stepC s = some s' := h
      obtain ⟨hbf, hnext⟩ := ready_mid_next s s' k w hpc h
      have hbw : Begun s' w := Begun_step hI h hbf
      have hprocs : s'.procs = s.procs := (stepC_procsM hst).1
      have hpassed' : ∀ (j v : Nat), j < k + 1 → s'.procs[j]? = some v → v < wc0 → Begun s' v := by
        intro j v hj hv hlt
        rcases Nat.lt_or_ge j k with hjk | hjk
        · exact hpassed j v hjk hv hlt
        · have : j = k := by omega
          subst this
          have := hw v (hold j v hv hlt) hlt
          rw [this]; exact hbw
      refine ⟨k + 1, hwc, hold', hpassed', ?_⟩
      cases hx : s.procs[k + 1]? with
      | some v =>
        rw [hx] at hnext
        refine Or.inl ⟨v, hnext, ?_⟩
        intro w' hw' _
        rw [hprocs, hx] at hw'; cases hw'; rfl
      | none =>
        right
        rw [hprocs]
        rcases Nat.lt_or_ge (k + 1) s.procs.length with hh | hh
        · rw [List.getElem?_eq_getElem hh] at hx; cases hx
        · exact hh
    · exact ⟨k, hwc, hold', hpassed, Or.inr (by rw [hp.len]; exact hge)⟩
  · have hcpc := step_cpc_of_ne_c hI h ht
    refine ⟨k, hwc, hold', hpassed, ?_⟩
    rcases hM.at_ with ⟨w, hpc, hw⟩ | hge
    · refine Or.inl ⟨w, by rw [hcpc]; exact hpc, ?_⟩
      intro w' hw' hlt
      exact hw w' (hold k w' hw' hlt) hlt
    · exact Or.inr (by rw [hp.len]; exact hge)

theorem MidRun_run {wc0 : Nat} {pr0 : List Nat} {s s' : St} {sched : List Tid} {k : Nat} (hI : LInv s)
    (hM : MidRun wc0 pr0 s k) (h : run s sched = some s') : ∃ k', MidRun wc0 pr0 s' k' := by
  induction sched generalizing s k with
  | nil => simp only [run, Option.some.injEq] at h; subst h; exact ⟨k, hM⟩
  | cons t ts ih =>
    simp only [run] at h
    split at h
    · cases h
    · rename_i s1 hs1
      obtain ⟨k1, hM1⟩ := MidRun_step hI hM hs1
      exact ih (LInv_step hI hs1) hM1 h

/-- **the caller's view of the mid-call `until_all_ready()`** (the oracle of the harness): in a reachable state `s₀` the
consumer has just fetched slot 0 (`procs[0] = w₀`, the moment `until_all_ready()` is entered); in any later state `s₁` in
which the consumer is not inside an `until_all_ready()` — e.g. right after the call has returned — every worker `v` that
was listed in `s₀` and is (still) listed in `s₁` has completed `begin()`.  Successors listed in between are exactly the
ones this does not cover. -/
theorem ready_mid_listed (cfg : Cfg) (s₀ : St) (h : Reach cfg s₀) (w₀ : Nat) (hpc : s₀.cpc = .midReady 0 w₀)
    (hfetch : s₀.procs[0]? = some w₀) (sched : List Tid) (s₁ : St) (hrun : run s₀ sched = some s₁)
    (hleft : ∀ j v, s₁.cpc ≠ .midReady j v) (v : Nat) (hb : v ∈ s₀.procs) (ha : v ∈ s₁.procs) :
    ∃ w ∈ s₁.workers, w.wid = v ∧ w.bf = true ∧ WEv.begin ∈ w.log := by
  obtain ⟨hI, _⟩ := LInv_reach h
  have h0 : MidRun s₀.widCounter s₀.procs s₀ 0 := by
    refine ⟨Nat.le_refl _, fun j v hv _ => hv, fun j v hj => by omega, Or.inl ⟨w₀, hpc, ?_⟩⟩
    intro w' hw' _
    rw [hfetch] at hw'; cases hw'; rfl
  obtain ⟨k, hM⟩ := MidRun_run hI h0 hrun
  have hk : s₁.procs.length ≤ k := by
    rcases hM.at_ with ⟨w, hw, _⟩ | hge
    · exact absurd hw (hleft k w)
    · exact hge
  obtain ⟨j, hj⟩ := List.getElem?_of_mem ha
  have hjlt : j < s₁.procs.length := by
    rcases Nat.lt_or_ge j s₁.procs.length with hh | hh
    · exact hh
    · rw [List.getElem?_eq_none hh] at hj; cases hj
  obtain ⟨y, hy, hyw, hyb⟩ := hM.passed j v (by omega) hj (hI.procsLt v hb)
  exact ⟨y, hy, hyw, hyb, ((LInv_run hI hrun).1.wk y hy).bfLog hyb⟩

end WindVerif.Pool
