import WindVerif.Proofs.PoolLiveAux1
/-! Liveness of the pool model (C02): the progress argument — under the invariants, some thread is enabled in every
state in which the caller has not finished. -/
namespace WindVerif.Pool

/-! ### when a single thread is enabled -/

/-- what a worker needs to move -/
def wCanStep (s : St) (w : Worker) : Prop :=
  match w.pc with
  | .bfClear | .bfSet | .retire | .lockRel | .ending => True
  | .get => s.workQ ≠ []
  | .lockAcq => s.lock = none
  | .putNowait => w.held.isSome
  | .putBlock => w.held.isSome ∧ capFull s.cfg.resCap s.resQ = false
  | .notStarted | .exited => False

theorem stepW_isSome {s : St} {wid : Nat} {w : Worker} (hg : getWorker s wid = some w) (h : wCanStep s w) :
    (stepW s wid).isSome = true := by
  unfold stepW
  rw [hg]
  unfold wCanStep at h
  cases hpc : w.pc <;> simp only [hpc] at h ⊢
  case bfClear => split <;> rfl
  case bfSet => rfl
  case get =>
    cases hq : s.workQ with
    | nil => exact absurd hq h
    | cons a r =>
      cases a with
      | none => rfl
      | some i => dsimp only; split <;> rfl
  case lockAcq => simp [h]
  case putNowait =>
    cases hh : w.held with
    | none => rw [hh] at h; cases h
    | some i => dsimp only; split <;> rfl
  case lockRel => split <;> rfl
  case putBlock =>
    cases hh : w.held with
    | none => rw [hh] at h; cases h.1
    | some i => simp [h.2]
  case retire => rfl
  case ending => rfl

theorem stepR_isSome {s : St} (hal : s.rAlive = true)
    (h : match s.rpc with
      | .idle => False
      | .get => s.replQ ≠ []
      | .join wid => (workerExited s wid || s.cfg.joinTimeout) = true
      | .start nw => (getWorker s nw).isSome) : (stepR s).isSome = true := by
  unfold stepR
  simp only [hal, Bool.not_true, Bool.false_eq_true, if_false]
  cases hr : s.rpc <;> simp only [hr] at h ⊢
  case get =>
    cases hq : s.replQ with
    | nil => exact absurd hq h
    | cons a r => cases a <;> rfl
  case join wid => simp [h]
  case start nw =>
    cases hg : getWorker s nw with
    | none => rw [hg] at h; cases h
    | some w => rfl

theorem stepF_isSome {s : St} (hal : s.fAlive = true)
    (h : match s.fpc with
      | .idle => False
      | .put => capFull s.cfg.workCap s.workQ = false
      | .runWait => s.fRun = true
      | _ => True) : (stepF s).isSome = true := by
  unfold stepF
  simp only [hal, Bool.not_true, Bool.false_eq_true, if_false]
  cases hf : s.fpc <;> simp only [hf] at h ⊢
  case put => simp [h]
  case rdCnt => rfl
  case wrCnt => rfl
  case stopIsSet => split <;> rfl
  case runWait => simp only [h, if_true]; split <;> rfl
  case wrSending => rfl
  case token => rfl

/-! ### progress of the lock holder, of a worker, of the replace thread -/

variable {s : St}

theorem workerExited_of_mem (hL : LInv s) {w : Worker} (hw : w ∈ s.workers) (hpc : w.pc = .exited) :
    workerExited s w.wid = true := by
  unfold workerExited
  rw [getWorker_of_mem hL.nodup hw]
  simp [hpc]

theorem lock_progress (hL : LInv s) (hV : LiveInv s) {t : Tid} (hl : s.lock = some t) : ∃ t', (step s t').isSome = true := by
  rcases hV.lk.lockH t hl with ⟨_, hc⟩ | ⟨w, hw, _, hin⟩
  · refine ⟨.c, ?_⟩
    show (stepC s).isSome = true
    unfold stepC
    cases hpc : s.cpc <;> simp only [hpc, cIn] at hc ⊢ <;> try cases hc
    · split <;> rfl
    · cases hq : s.resQ with
      | nil => rfl
      | cons a r => cases a <;> rfl
    · split <;> rfl
  · refine ⟨.w w.wid, ?_⟩
    apply stepW_isSome (getWorker_of_mem hL.nodup hw)
    unfold wCanStep
    cases hpc : w.pc <;> simp only [hpc, wIn] at hin ⊢ <;> try cases hin
    exact hV.lk.heldOf w hw (Or.inr (Or.inl hpc))

/-- a started, not exited worker can move, or (waiting for the lock) the lock holder can -/
theorem worker_progress (hL : LInv s) (hV : LiveInv s) {w : Worker} (hw : w ∈ s.workers) (h1 : w.pc ≠ .notStarted)
    (h2 : w.pc ≠ .exited) (h3 : w.pc = .get → s.workQ ≠ [])
    (h4 : w.pc = .putBlock → capFull s.cfg.resCap s.resQ = false) : ∃ t, (step s t).isSome = true := by
  by_cases hlk : w.pc = .lockAcq ∧ s.lock ≠ none
  · obtain ⟨t, ht⟩ := Option.ne_none_iff_exists'.1 hlk.2
    exact lock_progress hL hV ht
  · refine ⟨.w w.wid, ?_⟩
    apply stepW_isSome (getWorker_of_mem hL.nodup hw)
    unfold wCanStep
    cases hpc : w.pc <;> simp only [hpc] at h1 h2 h3 h4 hlk ⊢ <;> try trivial
    · exact h3 trivial
    · simpa using hlk
    · exact hV.lk.heldOf w hw (Or.inr (Or.inl hpc))
    · exact ⟨hV.lk.heldOf w hw (Or.inr (Or.inr (Or.inl hpc))), h4 trivial⟩

/-- a live replace thread can move unless it waits on an empty queue — or (`join_timeout=None`) it waits in its join for a
retired worker that is still inside `end()`: then that worker can move -/
theorem repl_progress (hL : LInv s) (hV : LiveInv s) (hal : s.rAlive = true) (hq : s.rpc = .get → s.replQ ≠ []) :
    ∃ t, (step s t).isSome = true := by
  by_cases hend : ∃ wid, s.rpc = .join wid ∧ ∃ w ∈ s.workers, w.wid = wid ∧ w.pc = .ending
  · obtain ⟨wid, _, w, hw, _, hpe⟩ := hend
    exact ⟨.w w.wid, stepW_isSome (getWorker_of_mem hL.nodup hw) (by unfold wCanStep; rw [hpe]; trivial)⟩
  refine ⟨.r, ?_⟩
  show (stepR s).isSome = true
  apply stepR_isSome hal
  cases hr : s.rpc <;> dsimp only
  · exact hV.rp.rNotIdle hal hr
  · exact hq hr
  · rename_i wid
    have hp : wid ∈ pending s := by unfold pending; simp [hr]
    obtain ⟨hin, hex⟩ := hL.pend wid hp
    obtain ⟨w, hw, hwid⟩ := hV.pr.procsEx wid hin
    subst hwid
    have hg := hex w hw rfl
    by_cases hpc : w.pc = .exited
    · rw [workerExited_of_mem hL hw hpc]; rfl
    · have hpe : w.pc = .ending := by
        cases hp : w.pc <;> rw [hp] at hg <;> first | rfl | exact absurd hp hpc | cases hg
      exact absurd ⟨w.wid, hr, w, hw, rfl, hpe⟩ hend
  · rename_i nw
    obtain ⟨w, hw, hwid⟩ := hV.pr.procsEx nw (hV.pr.rStartIn nw hr)
    rw [getWorker_of_mem' hL.nodup hw hwid]; rfl

theorem rAlive_of_rpc (hL : LInv s) (h : s.rpc ≠ .idle) : s.rAlive = true := by
  cases hr : s.rAlive
  · exact absurd (hL.rIdle hr) h
  · rfl

/-- a listed worker outside `__enter__` and `__exit__`: it can move, or the lock holder, or the replace thread -/
theorem listed_progress (hL : LInv s) (hV : LiveInv s) (hc : rCall s.cpc = true) {w : Worker} (hw : w ∈ s.workers)
    (hin : w.wid ∈ s.procs) (h3 : w.pc = .get → s.workQ ≠ [])
    (h4 : w.pc = .putBlock → capFull s.cfg.resCap s.resQ = false) : ∃ t, (step s t).isSome = true := by
  by_cases h1 : w.pc = .notStarted
  · rcases hL.notStarted w hw h1 with ⟨i, hi, _⟩ | hr
    · rw [hi] at hc; cases hc
    · refine repl_progress hL hV (rAlive_of_rpc hL (by rw [hr]; simp)) ?_
      intro hg; rw [hr] at hg; cases hg
  · by_cases h2 : w.pc = .exited
    · rcases hV.rp.exitedL w hw (gone_of_exited h2) hin with he | ⟨hf, hp⟩
      · cases hcp : s.cpc <;> simp [hcp, rCall, exitPhasePc] at hc he
      · refine repl_progress hL hV (hV.rp.rLive hf hc) ?_
        intro hg hq
        unfold pending at hp
        simp [hg, hq] at hp
    · exact worker_progress hL hV hw h1 h2 h3 h4

/-! ### the blocking pcs of the consumer -/

theorem procs_ne_nil (hV : LiveInv s) (hw : WellCfg s.cfg) : ∃ wid, wid ∈ s.procs := by
  have h1 := hV.pr.procsLen
  have h2 := hw.1
  cases hp : s.procs with
  | nil => rw [hp] at h1; simp at h1; omega
  | cons a r => exact ⟨a, by simp⟩

/-- something is in the work queue while a call runs: a worker takes it, or somebody else moves first -/
theorem avail_queue (hL : LInv s) (hV : LiveInv s) (hw : WellCfg s.cfg) (hc : rCall s.cpc = true) (hq : s.workQ ≠ [])
    (hr : capFull s.cfg.resCap s.resQ = false) : ∃ t, (step s t).isSome = true := by
  obtain ⟨wid, hin⟩ := procs_ne_nil hV hw
  obtain ⟨w, hwm, hwid⟩ := hV.pr.procsEx wid hin
  subst hwid
  exact listed_progress hL hV hc hwm hin (fun _ => hq) (fun _ => hr)

/-- a chunk is in a worker's hands: the worker delivers it, or the lock holder moves first -/
theorem avail_held (hS : SafeInv s) (hL : LInv s) (hV : LiveInv s) {w : Worker} (hw : w ∈ s.workers) (hh : w.held.isSome)
    (hr : capFull s.cfg.resCap s.resQ = false) : ∃ t, (step s t).isSome = true := by
  have hpc := hS.heldPc w hw hh
  apply worker_progress hL hV hw
  · intro h; rw [h] at hpc; simp at hpc
  · intro h; rw [h] at hpc; simp at hpc
  · intro h; rw [h] at hpc; simp at hpc
  · intro _; exact hr

theorem exists_held_of_ne_nil (h : heldChunks s ≠ []) : ∃ w ∈ s.workers, w.held.isSome := by
  unfold heldChunks at h
  obtain ⟨i, hi⟩ := List.exists_mem_of_ne_nil _ h
  obtain ⟨w, hw, hwi⟩ := List.mem_filterMap.1 hi
  exact ⟨w, hw, by rw [hwi]; rfl⟩

/-- the heart of the matter: the consumer waits for a result, no result is queued, and not everything sent has been
emitted — then a chunk is on the work queue or in a worker's hands (ordered: the very chunk the buffer waits for) -/
theorem chunk_in_flight (hS : SafeInv s) (hV : LiveInv s) (hpc : s.cpc = .getBlock) (hq : s.resQ = [])
    (hlt : s.finished < sent s) : chunksOf s.workQ ≠ [] ∨ heldChunks s ≠ [] := by
  have hcur : s.cur.isSome := by
    cases hc : s.cur with
    | none => have := hS.noCall hc; simp [preStart, hpc] at this
    | some c => rfl
  have hb : s.batch = [] := hS.batchEmpty (by rw [hpc]; trivial)
  have hp := hS.conserve hcur
  have hfin := hS.fin hcur
  by_cases h1 : chunksOf s.workQ = []
  · by_cases h2 : heldChunks s = []
    · exfalso
      have hpl : places s = s.buffer ++ curOut s := by
        unfold places; rw [h1, h2, hq, hb]; simp [chunksOf]
      rw [hpl] at hp
      have hlen := hp.length_eq
      simp only [List.length_append, List.length_range] at hlen
      obtain ⟨c, hc⟩ := Option.isSome_iff_exists.1 hcur
      cases ho : c.ordered
      · have := hS.unordered c hc ho
        rw [this] at hlen; simp at hlen; omega
      · have hco := hS.ordered c hc ho
        have hwf : s.wf < sent s := by rw [hco] at hfin; simp at hfin; omega
        have hm : s.wf ∈ s.buffer ++ curOut s := hp.mem_iff.2 (List.mem_range.2 hwf)
        rcases List.mem_append.1 hm with hm | hm
        · exact hV.cs.wfBuf hm
        · rw [hco] at hm; simp at hm
    · exact Or.inr h2
  · exact Or.inl h1

theorem finished_le_sent (hS : SafeInv s) (hcur : s.cur.isSome) : s.finished + s.buffer.length ≤ sent s := by
  have hp := (hS.conserve hcur).length_eq
  have hfin := hS.fin hcur
  unfold places at hp
  simp only [List.length_append, List.length_range] at hp
  omega

theorem flight_progress (hS : SafeInv s) (hL : LInv s) (hV : LiveInv s) (hw : WellCfg s.cfg) (hpc : s.cpc = .getBlock)
    (hq : s.resQ = []) (hlt : s.finished < sent s) : ∃ t, (step s t).isSome = true := by
  have hr : capFull s.cfg.resCap s.resQ = false := by rw [hq]; exact capFull_nil _
  rcases chunk_in_flight hS hV hpc hq hlt with h | h
  · apply avail_queue hL hV hw (by rw [hpc]; rfl) ?_ hr
    intro h0; rw [h0] at h; exact h rfl
  · obtain ⟨w, hwm, hh⟩ := exists_held_of_ne_nil h
    exact avail_held hS hL hV hwm hh hr

theorem getBlock_progress (hS : SafeInv s) (hL : LInv s) (hV : LiveInv s) (hw : WellCfg s.cfg) (hpc : s.cpc = .getBlock) :
    ∃ t, (step s t).isSome = true := by
  cases hq : s.resQ with
  | cons a r =>
    refine ⟨.c, ?_⟩
    show (stepC s).isSome = true
    unfold stepC; simp only [hpc, hq]
    cases a <;> rfl
  | nil =>
    have hcur : s.cur.isSome := by
      cases hc : s.cur with
      | none => have := hS.noCall hc; simp [preStart, hpc] at this
      | some c => rfl
    have hpre : preStart s = false := by simp [preStart, hpc]
    have hcn : s.cur.isNone = false := by
      obtain ⟨c, hc⟩ := Option.isSome_iff_exists.1 hcur; rw [hc]; rfl
    have hal : s.fpc ≠ .idle → s.fAlive = true := by
      intro h; rw [hS.alive]; simpa using h
    have hfl := finished_le_sent hS hcur
    cases hf : s.fpc
    case idle =>
      have hsent : sent s = s.fTotal := by unfold sent; simp [hpre, hcn, hf]
      by_cases hfin : s.finished = s.fTotal
      · have hb : s.batch = [] := hS.batchEmpty (by rw [hpc]; trivial)
        have hwk : s.woken = false := by
          cases hwo : s.woken
          · rfl
          · have := hV.cs.wokenPc hwo; rw [hpc] at this; cases this
        have := hV.cs.token (by rw [hpc]; rfl) hb hwk hf hfin
        rw [hq] at this; cases this
      · exact flight_progress hS hL hV hw hpc hq (by omega)
    case put =>
      cases hcf : capFull s.cfg.workCap s.workQ
      · exact ⟨.f, stepF_isSome (hal (by rw [hf]; simp)) (by rw [hf]; exact hcf)⟩
      · exact avail_queue hL hV hw (by rw [hpc]; rfl) (ne_nil_of_capFull hcf) (by rw [hq]; exact capFull_nil _)
    case runWait =>
      cases hrun : s.fRun
      · have hbf := hV.cs.flow (by rw [hpc]; rfl) (by rw [hpc]; rfl) (Or.inl hrun)
        have hbl : 0 < s.buffer.length := by
          unfold bufferFull at hbf
          cases hrc : s.cfg.resCap with
          | none => rw [hrc] at hbf; cases hbf
          | some c =>
            rw [hrc] at hbf
            have := hw.2.1 c hrc
            simp at hbf; omega
        exact flight_progress hS hL hV hw hpc hq (by omega)
      · exact ⟨.f, stepF_isSome (hal (by rw [hf]; simp)) (by rw [hf]; exact hrun)⟩
    all_goals exact ⟨.f, stepF_isSome (hal (by rw [hf]; simp)) (by rw [hf]; trivial)⟩

/-! ### consumer pcs that wait for a thread or a worker -/

theorem rAlive_false' (hL : LInv s) (h : inCall s.cpc = false) : s.rpc = .idle := hL.rIdle (rAlive_false hL h)

/-- a worker that is neither exited nor in the middle of a chunk, while no replace thread exists -/
theorem idle_worker_progress (hS : SafeInv s) (hL : LInv s) (hV : LiveInv s) (hcur : s.cur = none)
    (hic : inCall s.cpc = false) (hne : ∀ i, s.cpc ≠ .enterStart i) {w : Worker} (hw : w ∈ s.workers)
    (h2 : w.pc ≠ .exited) (h3 : w.pc = .get → s.workQ ≠ []) : ∃ t, (step s t).isSome = true := by
  have hheld : w.held = none := by
    have := (hS.idle hcur).2.1
    unfold heldChunks at this
    cases hh : w.held with
    | none => rfl
    | some i =>
      have hm : i ∈ s.workers.filterMap (·.held) := List.mem_filterMap.2 ⟨w, hw, hh⟩
      rw [this] at hm; cases hm
  apply worker_progress hL hV hw ?_ h2 h3
  · intro h
    have := hV.lk.heldOf w hw (Or.inr (Or.inr (Or.inl h)))
    rw [hheld] at this; cases this
  · intro h
    rcases hL.notStarted w hw h with ⟨i, hi, _⟩ | hr
    · exact hne i hi
    · rw [rAlive_false' hL hic] at hr; cases hr

theorem readyWait_progress (hL : LInv s) (hV : LiveInv s) {i : Nat} (hpc : s.cpc = .readyWait i) :
    ∃ t, (step s t).isSome = true := by
  have hidx : i < s.procs.length := by have := hV.pr.idx; rw [hpc] at this; exact this
  have hp : s.procs[i]? = some s.procs[i] := List.getElem?_eq_getElem hidx
  obtain ⟨w, hwm, hwid⟩ := hV.pr.procsEx s.procs[i] (List.getElem_mem hidx)
  have hg := getWorker_of_mem' hL.nodup hwm hwid
  cases hbf : w.bf
  · rcases hV.pr.bfPc w hwm hbf with h | h | h
    · exfalso
      rcases hL.notStarted w hwm h with ⟨j, hj, _⟩ | hr
      · rw [hpc] at hj; cases hj
      · rw [rAlive_false' hL (by rw [hpc]; rfl)] at hr; cases hr
    · exact ⟨.w w.wid, stepW_isSome (getWorker_of_mem hL.nodup hwm) (by unfold wCanStep; rw [h]; trivial)⟩
    · exact ⟨.w w.wid, stepW_isSome (getWorker_of_mem hL.nodup hwm) (by unfold wCanStep; rw [h]; trivial)⟩
  · refine ⟨.c, ?_⟩
    show (stepC s).isSome = true
    unfold stepC; simp only [hpc, hp, hg, hbf, if_true]
    split <;> rfl

/-- the consumer waits in the mid-call `until_all_ready()` for worker `wid`: either `begin()` has completed and the
consumer moves, or the worker is on its way through `begin()` and moves, or it has not been started yet — then the replace
thread is about to start it -/
theorem midReady_progress (hL : LInv s) (hV : LiveInv s) (hM : MidI s) {i wid : Nat} (hpc : s.cpc = .midReady i wid) :
    ∃ t, (step s t).isSome = true := by
  obtain ⟨w, hwm, hwid⟩ := hM.ex i wid hpc
  have hg := getWorker_of_mem' hL.nodup hwm hwid
  cases hbf : w.bf
  · rcases hV.pr.bfPc w hwm hbf with h | h | h
    · rcases hL.notStarted w hwm h with ⟨j, hj, _⟩ | hr
      · rw [hpc] at hj; cases hj
      · refine repl_progress hL hV (rAlive_of_rpc hL (by rw [hr]; simp)) ?_
        intro hg'; rw [hr] at hg'; cases hg'
    · exact ⟨.w w.wid, stepW_isSome (getWorker_of_mem hL.nodup hwm) (by unfold wCanStep; rw [h]; trivial)⟩
    · exact ⟨.w w.wid, stepW_isSome (getWorker_of_mem hL.nodup hwm) (by unfold wCanStep; rw [h]; trivial)⟩
  · refine ⟨.c, ?_⟩
    show (stepC s).isSome = true
    unfold stepC; simp only [hpc, hg, hbf, if_true]
    split <;> rfl

theorem enterStart_progress (hL : LInv s) (hV : LiveInv s) {i : Nat} (hpc : s.cpc = .enterStart i) :
    (step s .c).isSome = true := by
  have hidx : i < s.procs.length := by have := hV.pr.idx; rw [hpc] at this; exact this
  have hp : s.procs[i]? = some s.procs[i] := List.getElem?_eq_getElem hidx
  obtain ⟨w, hwm, hwid⟩ := hV.pr.procsEx s.procs[i] (List.getElem_mem hidx)
  have hg := getWorker_of_mem' hL.nodup hwm hwid
  show (stepC s).isSome = true
  unfold stepC; simp only [hpc, hp, hg]
  split <;> rfl

theorem fJoin_progress (hS : SafeInv s) (hpc : s.cpc = .fJoin) : ∃ t, (step s t).isSome = true := by
  cases hal : s.fAlive
  · refine ⟨.c, ?_⟩
    show (stepC s).isSome = true
    unfold stepC; simp only [hpc, hal, Bool.false_eq_true, if_false]
    split <;> rfl
  · refine ⟨.f, stepF_isSome hal ?_⟩
    have hcur : s.cur.isSome := by
      cases hc : s.cur with
      | none => have := hS.noCall hc; simp [preStart, hpc] at this
      | some c => rfl
    have hsend := (hS.post (by simp [postLoop, hpc])).1
    have hst := hS.sendingTrue (by simp [preStart, hpc]) hcur
    have hne : s.fpc ≠ .idle := by have := hS.alive; rw [hal] at this; simpa using this.symm
    cases hf : s.fpc <;> simp only [hf] at hne hst ⊢ <;> first | trivial | (exfalso; simp [hsend] at hst) | exact absurd rfl hne

theorem rJoin_progress (hL : LInv s) (hV : LiveInv s) (hpc : s.cpc = .rJoin) : ∃ t, (step s t).isSome = true := by
  cases hal : s.rAlive
  · refine ⟨.c, ?_⟩
    show (stepC s).isSome = true
    unfold stepC; simp only [hpc, hal, Bool.false_eq_true, if_false]; rfl
  · refine repl_progress hL hV hal ?_
    intro _
    have := hV.rp.tokR
    rw [hpc, hal] at this
    simp only [rStopping, and_self, if_true] at this
    exact ne_nil_of_noneCount_pos (by omega)

theorem exists_live_of_liveCnt (h : 0 < liveCnt s) : ∃ w ∈ s.workers, w.pc ≠ .exited := by
  unfold liveCnt at h
  obtain ⟨w, hw, hp⟩ := List.countP_pos_iff.1 h
  exact ⟨w, hw, not_exited_of_not_gone (by simpa using hp)⟩

theorem liveCnt_pos_of_mem {w : Worker} (hw : w ∈ s.workers) (h : gone w.pc = false) : 0 < liveCnt s := by
  unfold liveCnt
  exact List.countP_pos_iff.2 ⟨w, hw, by simpa using h⟩

/-- a worker that has only `end()` left can always move -/
theorem ending_progress (hL : LInv s) {w : Worker} (hw : w ∈ s.workers) (hpc : w.pc = .ending) :
    ∃ t, (step s t).isSome = true :=
  ⟨.w w.wid, stepW_isSome (getWorker_of_mem hL.nodup hw) (by unfold wCanStep; rw [hpc]; trivial)⟩

theorem noEnding_or_progress (hL : LInv s) : NoEnding s ∨ ∃ t, (step s t).isSome = true := by
  by_cases hE : NoEnding s
  · exact Or.inl hE
  · right
    unfold NoEnding at hE
    have : ∃ w, w ∈ s.workers ∧ w.pc = .ending := by
      apply Classical.byContradiction
      intro hn
      apply hE
      intro w hw hpc
      exact hn ⟨w, hw, hpc⟩
    obtain ⟨w, hw, hpc⟩ := this
    exact ending_progress hL hw hpc

/-- the stop orders of `__exit__` (D19 repaired: no bound on the work queue is needed): on a full queue either somebody
is alive — then a worker (or the holder of the lock it waits for) can move, the queue being non-empty — or every listed
worker has an exit code and the consumer leaves the loop -/
theorem exitPut_progress (hS : SafeInv s) (hL : LInv s) (hV : LiveInv s) {i : Nat}
    (hpc : s.cpc = .exitPut i) : ∃ t, (step s t).isSome = true := by
  cases hcf : capFull s.cfg.workCap s.workQ
  · refine ⟨.c, ?_⟩
    show (stepC s).isSome = true
    unfold stepC; simp only [hpc, hcf, Bool.false_eq_true, if_false]
    split <;> rfl
  · have hcur := hV.cs.curNone (by rw [hpc]; rfl)
    have hq := ne_nil_of_capFull hcf
    rcases Nat.eq_zero_or_pos (liveCnt s) with h0 | hpos
    · rcases noEnding_or_progress hL with hE | hp
      case inr => exact hp
      refine ⟨.c, ?_⟩
      show (stepC s).isSome = true
      have hall := all_exited_of_liveCnt_zero hL hE hV.pr.procsEx h0
      unfold stepC; simp only [hpc, hcf, hall, if_true]; rfl
    · obtain ⟨w, hwm, hne⟩ := exists_live_of_liveCnt (s := s) hpos
      exact idle_worker_progress hS hL hV hcur (by rw [hpc]; rfl) (by intro j hj; rw [hpc] at hj; cases hj) hwm hne
        (fun _ => hq)

theorem exitJoin_progress (hS : SafeInv s) (hL : LInv s) (hV : LiveInv s) {i : Nat} (hpc : s.cpc = .exitJoin i) :
    ∃ t, (step s t).isSome = true := by
  have hidx : i < s.procs.length := by have := hV.pr.idx; rw [hpc] at this; exact this
  have hp : s.procs[i]? = some s.procs[i] := List.getElem?_eq_getElem hidx
  obtain ⟨w, hwm, hwid⟩ := hV.pr.procsEx s.procs[i] (List.getElem_mem hidx)
  have hg := getWorker_of_mem' hL.nodup hwm hwid
  by_cases hex : w.pc = .exited
  · refine ⟨.c, ?_⟩
    show (stepC s).isSome = true
    have : workerExited s s.procs[i] = true := by rw [← hwid]; exact workerExited_of_mem hL hwm hex
    unfold stepC; simp only [hpc, hp, this, Bool.true_or, if_true]; rfl
  · by_cases hend : w.pc = .ending
    case pos => exact ending_progress hL hwm hend
    have hcur := hV.cs.curNone (by rw [hpc]; rfl)
    have h2 := hV.ct.cnt2 (by rw [hpc]; rfl)
    unfold stopsSent at h2; rw [hpc] at h2; simp only [stopsV] at h2
    have hpos := liveCnt_pos_of_mem hwm (not_gone_of_ne hex hend)
    exact idle_worker_progress hS hL hV hcur (by rw [hpc]; rfl) (by intro j hj; rw [hpc] at hj; cases hj) hwm hex
      (fun _ => ne_nil_of_noneCount_pos (by omega))

/-! ### no deadlock, from the invariants -/

theorem progress (hS : SafeInv s) (hL : LInv s) (hV : LiveInv s) (hM : MidI s) (hw : WellCfg s.cfg)
    (hnd : s.cpc ≠ .done) : ∃ t, (step s t).isSome = true := by
  cases hpc : s.cpc
  case enterStart i => exact ⟨.c, enterStart_progress hL hV hpc⟩
  case midReady i wid => exact midReady_progress hL hV hM hpc
  case readyWait i => exact readyWait_progress hL hV hpc
  case lockAcq =>
    cases hl : s.lock with
    | none => exact ⟨.c, by show (stepC s).isSome = true; unfold stepC; simp [hpc, hl]⟩
    | some t => exact lock_progress hL hV hl
  case getBlock => exact getBlock_progress hS hL hV hw hpc
  case fJoin => exact fJoin_progress hS hpc
  case rJoin => exact rJoin_progress hL hV hpc
  case exitPut i => exact exitPut_progress hS hL hV hpc
  case exitJoin i => exact exitJoin_progress hS hL hV hpc
  case done => exact absurd hpc hnd
  case fStart =>
    refine ⟨.c, ?_⟩
    show (stepC s).isSome = true
    obtain ⟨c, hc⟩ := Option.isSome_iff_exists.1 (hV.cs.curSome (by rw [hpc]; rfl))
    unfold stepC; simp only [hpc, hc]; rfl
  all_goals
    refine ⟨.c, ?_⟩
    show (stepC s).isSome = true
    unfold stepC; simp only [hpc]
    first | rfl | (split <;> rfl) | (dsimp only; split <;> rfl)

end WindVerif.Pool
