import WindVerif.Proofs.PoolLiveAux7
/-! Liveness of the pool model (C02): every step of the consumer keeps the liveness invariant. -/
namespace WindVerif.Pool

variable {s s' : St}

/-- evaluates the pc classes at concrete pcs -/
macro "cls " h:ident : tactic => `(tactic|
  simp [$h:ident, cIn, idxV, rCall, rStopping, exitPhasePc, rJoinPc, stopsV, setupPc, getPathPc, loopPc, flowChk, runSetPc])

theorem cur_isSome_of (hS : SafeInv s) (h1 : preStart s = false) (h2 : exitPhasePc s.cpc = false) : s.cur.isSome = true := by
  cases hc : s.cur with
  | none =>
    have := hS.noCall hc
    rw [h1] at this
    cases hcp : s.cpc <;> simp [hcp, exitPhasePc] at h2 this
  | some c => rfl

theorem woken_false_of (hV : LiveInv s) (h : cIn s.cpc = false) : s.woken = false := by
  cases hh : s.woken
  · rfl
  · have := hV.cs.wokenPc hh; rw [h] at this; cases this

theorem LiveInv_stepC_a (hL : LInv s) (hV : LiveInv s) (h : stepC s = some s')
    (hc : match s.cpc with
      | .enterStart _ | .readyWait _ | .nextCall | .rInitSet | .rStart | .fInitSet | .wrSending | .wrDataCnt | .fStart => True
      | _ => False) : LiveInv s' := by
  cases hpc : s.cpc <;> simp only [hpc] at hc <;> simp only [stepC, hpc] at h
  case enterStart i =>
    have hpre := hL.pre (by rw [hpc]; trivial)
    split at h
    · cases h
    · rename_i wid hwd
      have hwd' := hwd
      rw [hpre.1] at hwd'
      obtain ⟨rfl, hin⟩ := range_getElem?_some hwd'
      split at h
      · cases h
      · rename_i w hg
        obtain ⟨hwm, hwid⟩ := getWorker_some hg
        have hwpc : w.pc = .notStarted := hL.starting wid hpc w hwm (by omega)
        have hV1 := LiveInv_startWorker hL hV hg hwpc
        have hcpc1 : (setWorker s { w with pc := .bfClear }).cpc = .enterStart wid := hpc
        split at h
        · rename_i hlt
          simp only [Option.some.injEq] at h; subst h
          apply LiveInv_move hV1 (by samec) (by rfl) (by rfl) <;> dsimp only <;> try cls hcpc1
          exact hlt
        · simp only [Option.some.injEq] at h; subst h
          unfold afterEnter
          split
          · rename_i hcnd
            apply LiveInv_move hV1 (by samec) (by rfl) (by rfl) <;> dsimp only <;> try cls hcpc1
            exact hcnd.2
          · rw [toNextCall_setCpc]
            exact LiveInv_toNextCall hV1 (by rw [hcpc1]; rfl) (by rw [hcpc1]; rfl) (by rw [hcpc1]; simp [rStopping])
  case readyWait i =>
    split at h
    · cases h
    · split at h
      · cases h
      · split at h
        · split at h
          · rename_i hlt
            simp only [Option.some.injEq] at h; subst h
            apply LiveInv_move hV (by samec) (by rfl) (by rfl) <;> dsimp only <;> try cls hpc
            exact hlt
          · simp only [Option.some.injEq] at h; subst h
            rw [toNextCall_setCpc]
            exact LiveInv_toNextCall hV (by rw [hpc]; rfl) (by rw [hpc]; rfl) (by rw [hpc]; simp [rStopping])
        · cases h
  case nextCall =>
    simp only [Option.some.injEq] at h; subst h
    exact LiveInv_toNextCall hV (by rw [hpc]; rfl) (by rw [hpc]; rfl) (by rw [hpc]; simp [rStopping])
  case rInitSet =>
    simp only [Option.some.injEq] at h; subst h
    apply LiveInv_move hV (by samec) (by rfl) (by rfl) <;> dsimp only <;> try cls hpc
  case rStart =>
    simp only [Option.some.injEq] at h; subst h
    -- first the thread starts, then the pc moves
    have hral : s.rAlive = false := rAlive_false hL (by rw [hpc]; rfl)
    have hidle := hL.rIdle hral
    obtain ⟨lk, pr, rp, cs, ct⟩ := hV
    have hp : pending { s with rAlive := true, rpc := .get } = pending s := by unfold pending; simp [hidle]
    have hV1 : LiveInv { s with rAlive := true, rpc := .get } := by
      refine ⟨LockI_congr lk rfl rfl rfl, ProcI_congr pr rfl rfl rfl (fun _ hh => by cases hh) pr.idx, ?_,
        ConsI_congr cs rfl rfl rfl rfl rfl rfl rfl id rfl rfl rfl rfl,
        CntI_congr' ct rfl (by rw [hp]) rfl rfl rfl rfl rfl⟩
      constructor
      · intro _ hh; exact absurd hh (by rw [show ({ s with rAlive := true, rpc := .get } : St).cpc = s.cpc from rfl, hpc]; simp [rCall])
      · intro _ hh; cases hh
      · have := rp.tokR
        rw [hpc] at this
        show noneCount s.replQ = _
        rw [this, show ({ s with rAlive := true, rpc := .get } : St).cpc = s.cpc from rfl, hpc]
        simp [rStopping]
      · intro x hx hxpc hxin
        rcases rp.exitedL x hx hxpc hxin with hh | ⟨hf, hq⟩
        · exact Or.inl hh
        · exact Or.inr ⟨hf, by rw [hp]; exact hq⟩
      · exact rp.noStop
      · exact rp.rFac
    apply LiveInv_move hV1 (by samec) (by rfl) (by rfl) <;> dsimp only <;> try cls hpc
  case fInitSet =>
    simp only [Option.some.injEq] at h; subst h
    have hwk := woken_false_of hV (by rw [hpc]; rfl)
    apply LiveInv_of hV (by constructor <;> rfl) (by rfl) (by exact id) <;> (try dsimp only) <;> try cls hpc
    · exact LockI_congr hV.lk rfl (by cls hpc) rfl
    · apply ConsI_gen hV.cs (by rfl) (by rfl) (by rfl) (by rfl) <;> (try dsimp only) <;> try cls hpc
      exact hwk
  case wrSending =>
    simp only [Option.some.injEq] at h; subst h
    apply LiveInv_move hV (by samec) (by rfl) (by rfl) <;> dsimp only <;> try cls hpc
  case wrDataCnt =>
    simp only [Option.some.injEq] at h; subst h
    apply LiveInv_move hV (by samec) (by rfl) (by rfl) <;> dsimp only <;> try cls hpc
  case fStart =>
    split at h
    · cases h
    · rename_i call hcur
      simp only [Option.some.injEq] at h; subst h
      have hwk := woken_false_of hV (by rw [hpc]; rfl)
      have hrun := hV.cs.runSetup (by rw [hpc]; rfl)
      apply LiveInv_of hV (by constructor <;> rfl) (by rfl) (by exact id) <;> (try dsimp only) <;> try cls hpc
      · exact LockI_congr hV.lk rfl (by cls hpc) rfl
      · apply ConsI_gen hV.cs (by rfl) (by rfl) (by rfl) (by rfl) <;> (try dsimp only) <;> try cls hpc
        · exact hwk
        · intro hh; rw [hrun] at hh; cases hh


/-- in a call that is not ordered the flow control never engages -/
theorem fRun_of_unordered (hS : SafeInv s) (hV : LiveInv s) (hw : WellCfg s.cfg) (h1 : loopPc s.cpc = true)
    (h2 : flowChk s.cpc = false) {call : Call} (hc : s.cur = some call) (ho : call.ordered = false) : s.fRun = true := by
  cases hr : s.fRun
  · exfalso
    have hb := hV.cs.flow h1 h2 (Or.inl hr)
    have hbuf := hS.unordered call hc ho
    unfold bufferFull at hb
    cases hrc : s.cfg.resCap with
    | none => rw [hrc] at hb; cases hb
    | some c =>
      rw [hrc, hbuf] at hb
      have := hw.2.1 c hrc
      simp at hb; omega
  · rfl

theorem LiveInv_stepC_b (hS : SafeInv s) (hV : LiveInv s) (hw : WellCfg s.cfg) (h : stepC s = some s')
    (hc : loopPc s.cpc = true) : LiveInv s' := by
  have hpre : preStart s = false := by
    unfold preStart; cases hcp : s.cpc <;> simp [hcp, loopPc] at hc ⊢
  have hex : exitPhasePc s.cpc = false := by
    cases hcp : s.cpc <;> simp [hcp, loopPc, exitPhasePc] at hc ⊢
  have hcur := cur_isSome_of hS hpre hex
  obtain ⟨call, hcall⟩ := Option.isSome_iff_exists.1 hcur
  cases hpc : s.cpc <;> simp only [hpc, loopPc] at hc <;> simp only [stepC, hpc] at h <;> try cases hc
  case rdSending =>
    split at h <;> simp only [Option.some.injEq] at h <;> subst h
    · rename_i hsend
      apply LiveInv_move hV (by samec) (by rfl) (by rfl) <;> (try dsimp only) <;> try cls hpc
      intro _ _ hf _
      have := (hS.sendingTrue hpre hcur).1 hsend
      rw [hf] at this; simp at this
    · apply LiveInv_move hV (by samec) (by rfl) (by rfl) <;> (try dsimp only) <;> try cls hpc
  case rdDataCnt =>
    split at h <;> simp only [Option.some.injEq] at h <;> subst h
    · rename_i hlt
      apply LiveInv_move hV (by samec) (by rfl) (by rfl) <;> (try dsimp only) <;> try cls hpc
      intro _ _ hf hfin
      have := hS.cntDone hpre hcur (Or.inr (Or.inr hf))
      omega
    · apply LiveInv_move hV (by samec) (by rfl) (by rfl) <;> (try dsimp only) <;> try cls hpc
  case qsize1 =>
    have hb : s.batch = [] := hS.batchEmpty (by rw [hpc]; trivial)
    have hwk := woken_false_of hV (by rw [hpc]; rfl)
    split at h <;> simp only [Option.some.injEq] at h <;> subst h
    · apply LiveInv_move hV (by exact ⟨⟨rfl, rfl, rfl, rfl, rfl, rfl⟩, rfl, hwk.symm, hb.symm, rfl, rfl, rfl, rfl, rfl, rfl, rfl⟩)
        (by rfl) (by rfl) <;> (try dsimp only) <;> try cls hpc
    · apply LiveInv_move hV (by samec) (by rfl) (by rfl) <;> (try dsimp only) <;> try cls hpc
  case lockAcq =>
    split at h
    · rename_i hl
      simp only [Option.some.injEq] at h; subst h
      apply LiveInv_of hV (by constructor <;> rfl) (by rfl) (by exact id) <;> (try dsimp only) <;> try cls hpc
      · exact LockI_acquire hV.lk (by simpa using hl) rfl rfl rfl
      · apply ConsI_move hV.cs (by samec) <;> (try dsimp only) <;> try cls hpc
    · cases h
  case qsize2 =>
    split at h <;> simp only [Option.some.injEq] at h <;> subst h <;>
      apply LiveInv_move hV (by samec) (by rfl) (by rfl) <;> (try dsimp only) <;> try cls hpc
  case getNowait =>
    split at h <;> simp only [Option.some.injEq] at h <;> subst h
    · apply LiveInv_move hV (by samec) (by rfl) (by rfl) <;> (try dsimp only) <;> try cls hpc
    · apply LiveInv_of hV (by constructor <;> rfl) (by rfl) (by exact id) <;> (try dsimp only) <;> try cls hpc
      · exact LockI_congr hV.lk rfl (by cls hpc) rfl
      · apply ConsI_gen hV.cs (by rfl) (by rfl) (by rfl) (by rfl) <;> (try dsimp only) <;> try cls hpc
        intro hfr
        exact hV.cs.flow (by rw [hpc]; rfl) (by rw [hpc]; rfl) (Or.inl hfr)
    · apply LiveInv_of hV (by constructor <;> rfl) (by rfl) (by exact id) <;> (try dsimp only) <;> try cls hpc
      · exact LockI_congr hV.lk rfl (by cls hpc) rfl
      · apply ConsI_gen hV.cs (by rfl) (by rfl) (by rfl) (by rfl) <;> (try dsimp only) <;> try cls hpc
        intro hfr
        exact hV.cs.flow (by rw [hpc]; rfl) (by rw [hpc]; rfl) (Or.inl hfr)
  case lockRel =>
    have hun : call.ordered = false → s.fRun = true := fun ho =>
      fRun_of_unordered hS hV hw (by rw [hpc]; rfl) (by rw [hpc]; rfl) hcall ho
    split at h <;> simp only [Option.some.injEq] at h <;> subst h
    · -- results: process them
      have hc0 : ({ s with lock := none, cpc := .lockRel } : St).cur = some call := hcall
      have hwf : ({ s with lock := none, cpc := .lockRel } : St).wf ∉ ({ s with lock := none, cpc := .lockRel } : St).buffer := hV.cs.wfBuf
      obtain ⟨hcl, f1, f2, f3, f4, f5, f6, f7, f8⟩ := afterResults_frame _ call hc0 hwf
      obtain ⟨h1, h2, h3⟩ := Rest_afterResults hV.pr hV.rp hV.ct (s0 := { s with lock := none, cpc := .lockRel }) (by constructor <;> rfl) rfl
        (by rw [hpc]; rfl) call hc0 hwf
      refine ⟨LockI_release hV.lk (by rw [hpc]; rfl) f7 ?_ f1, h1, h2, ?_, h3⟩
      · rcases hcl with hh | hh | hh | ⟨wid, hh⟩ <;> rw [hh] <;> rfl
      · exact ConsI_afterResults _ call hc0 hwf hun
    · rename_i hnb
      have hb : s.batch = [] := by
        cases hbb : s.batch with
        | nil => rfl
        | cons a r => exfalso; apply hnb; left; show s.batch.length > 0; rw [hbb]; simp
      have hwk : s.woken = false := by
        cases hww : s.woken
        · rfl
        · exfalso; apply hnb; right; exact hww
      apply LiveInv_of hV (by constructor <;> rfl) (by rfl) (by exact id) <;> (try dsimp only) <;> try cls hpc
      · exact LockI_release hV.lk (by rw [hpc]; rfl) rfl rfl rfl
      · apply ConsI_gen hV.cs (by rfl) (by rfl) (by rfl) (by rfl) <;> (try dsimp only) <;> try cls hpc
        · exact hwk
        · exact hV.cs.token (by rw [hpc]; rfl)
        · intro hfr
          exact hV.cs.flow (by rw [hpc]; rfl) (by rw [hpc]; rfl) (Or.inl hfr)
  case getBlock =>
    have hun : call.ordered = false → s.fRun = true := fun ho =>
      fRun_of_unordered hS hV hw (by rw [hpc]; rfl) (by rw [hpc]; rfl) hcall ho
    split at h
    · cases h
    · rename_i r hq
      simp only [Option.some.injEq] at h; subst h
      have hc0 : ({ s with resQ := r, batch := [], cpc := .getBlock } : St).cur = some call := hcall
      have hwf : ({ s with resQ := r, batch := [], cpc := .getBlock } : St).wf ∉ ({ s with resQ := r, batch := [], cpc := .getBlock } : St).buffer := hV.cs.wfBuf
      obtain ⟨hcl, f1, f2, f3, f4, f5, f6, f7, f8⟩ := afterResults_frame _ call hc0 hwf
      obtain ⟨h1, h2, h3⟩ := Rest_afterResults hV.pr hV.rp hV.ct (s0 := { s with resQ := r, batch := [], cpc := .getBlock })
        (by constructor <;> rfl) rfl (by rw [hpc]; rfl) call hc0 hwf
      refine ⟨LockI_congr hV.lk f7 ?_ f1, h1, h2, ConsI_afterResults _ call hc0 hwf hun, h3⟩
      rw [hpc]; rcases hcl with hh | hh | hh | ⟨wid, hh⟩ <;> rw [hh] <;> rfl
    · rename_i i r hq
      simp only [Option.some.injEq] at h; subst h
      have hc0 : ({ s with resQ := r, batch := [i], cpc := .getBlock } : St).cur = some call := hcall
      have hwf : ({ s with resQ := r, batch := [i], cpc := .getBlock } : St).wf ∉ ({ s with resQ := r, batch := [i], cpc := .getBlock } : St).buffer := hV.cs.wfBuf
      obtain ⟨hcl, f1, f2, f3, f4, f5, f6, f7, f8⟩ := afterResults_frame _ call hc0 hwf
      obtain ⟨h1, h2, h3⟩ := Rest_afterResults hV.pr hV.rp hV.ct (s0 := { s with resQ := r, batch := [i], cpc := .getBlock })
        (by constructor <;> rfl) rfl (by rw [hpc]; rfl) call hc0 hwf
      refine ⟨LockI_congr hV.lk f7 ?_ f1, h1, h2, ConsI_afterResults _ call hc0 hwf hun, h3⟩
      rw [hpc]; rcases hcl with hh | hh | hh | ⟨wid, hh⟩ <;> rw [hh] <;> rfl
  case flowClear =>
    simp only [Option.some.injEq] at h; subst h
    have hwk := woken_false_of hV (by rw [hpc]; rfl)
    have hbf := hV.cs.flow (by rw [hpc]; rfl) (by rw [hpc]; rfl) (Or.inr hpc)
    apply LiveInv_of hV (by constructor <;> rfl) (by rfl) (by exact id) <;> (try dsimp only) <;> try cls hpc
    · exact LockI_congr hV.lk rfl (by cls hpc) rfl
    · apply ConsI_gen hV.cs (by rfl) (by rfl) (by rfl) (by rfl) <;> (try dsimp only) <;> try cls hpc
      · exact hwk
      · exact hbf
  case flowIsSet =>
    split at h <;> simp only [Option.some.injEq] at h <;> subst h
    · rename_i hrun
      apply LiveInv_move hV (by samec) (by rfl) (by rfl) <;> (try dsimp only) <;> try cls hpc
      exact hrun
    · apply LiveInv_move hV (by samec) (by rfl) (by rfl) <;> (try dsimp only) <;> try cls hpc
  case flowSet =>
    simp only [Option.some.injEq] at h; subst h
    have hwk := woken_false_of hV (by rw [hpc]; rfl)
    apply LiveInv_of hV (by constructor <;> rfl) (by rfl) (by exact id) <;> (try dsimp only) <;> try cls hpc
    · exact LockI_congr hV.lk rfl (by cls hpc) rfl
    · apply ConsI_gen hV.cs (by rfl) (by rfl) (by rfl) (by rfl) <;> (try dsimp only) <;> try cls hpc
      exact hwk


/-- the pc after the last stop order / after a join: `done` or a valid `exitJoin` -/
theorem exitJoinFrom_cls (s0 : St) (i : Nat) (hi : i ≤ s0.procs.length) :
    ∀ c', c' = exitJoinFrom s0 (s0.procs.length + 1) i →
      cIn c' = false ∧ idxV c' s0.procs.length ∧ rCall c' = false ∧ rStopping c' = false ∧ exitPhasePc c' = true ∧
      rJoinPc c' = false ∧ stopsV c' s0.procs.length = s0.procs.length ∧ setupPc c' = false ∧ getPathPc c' = false ∧
      loopPc c' = false ∧ runSetPc c' = false := by
  intro c' hc'
  rcases exitJoinFrom_idx s0 (s0.procs.length + 1) i hi (by omega) with h | ⟨k, h, hk⟩
  · rw [hc', h]; simp [cIn, idxV, rCall, rStopping, exitPhasePc, rJoinPc, stopsV, setupPc, getPathPc, loopPc, runSetPc]
  · rw [hc', h]; simp [cIn, idxV, rCall, rStopping, exitPhasePc, rJoinPc, stopsV, setupPc, getPathPc, loopPc, runSetPc, hk]

theorem LiveInv_stepC_c (hL : LInv s) (hV : LiveInv s) (h : stepC s = some s')
    (hc : match s.cpc with
      | .fStopSet | .fJoin | .rPutNone | .rStopSet | .rJoin | .exitPut _ | .exitJoin _ | .done => True
      | _ => False) : LiveInv s' := by
  cases hpc : s.cpc <;> simp only [hpc] at hc <;> simp only [stepC, hpc] at h
  case fStopSet =>
    simp only [Option.some.injEq] at h; subst h
    apply LiveInv_move hV (by samec) (by rfl) (by rfl) <;> (try dsimp only) <;> try cls hpc
  case fJoin =>
    split at h
    · cases h
    · split at h
      · rename_i hfac
        simp only [Option.some.injEq] at h; subst h
        apply LiveInv_move hV (by samec) (by rfl) (by rfl) <;> (try dsimp only) <;> try cls hpc
        exact hfac
      · simp only [Option.some.injEq] at h; subst h
        rw [toNextCall_setCpc]
        exact LiveInv_toNextCall hV (by rw [hpc]; rfl) (by rw [hpc]; rfl) (by rw [hpc]; simp [rStopping])
  case rPutNone =>
    simp only [Option.some.injEq] at h; subst h
    have hfac := hV.rp.rFac (Or.inl hpc)
    have hal := hV.rp.rLive hfac (by rw [hpc]; rfl)
    have htok := hV.rp.tokR
    rw [hpc] at htok; simp only [rStopping, Bool.false_eq_true, false_and, if_false] at htok
    have hwk := woken_false_of hV (by rw [hpc]; rfl)
    obtain ⟨lk, pr, rp, cs, ct⟩ := hV
    have hp : pending { s with replQ := s.replQ ++ [none], cpc := .rStopSet } = pending s := by
      unfold pending; simp [List.filterMap_append]
    refine ⟨LockI_congr lk rfl (by cls hpc) rfl, ProcI_congr pr rfl rfl rfl (fun _ hh => hh) (by cls hpc), ?_, ?_,
      CntI_congr' ct rfl (by rw [hp]) rfl rfl rfl (by cls hpc) (by unfold stopsSent; cls hpc)⟩
    · constructor
      · intro _ hh; cases hh
      · exact rp.rNotIdle
      · show noneCount (s.replQ ++ [none]) = _
        rw [noneCount_append_none, htok]
        simp [rStopping, hal]
      · intro x hx hxpc hxin
        rcases rp.exitedL x hx hxpc hxin with hh | ⟨hf, hq⟩
        · rw [hpc] at hh; cases hh
        · exact Or.inr ⟨hf, by rw [hp]; exact hq⟩
      · intro _; exact rp.noStop (by rw [hpc]; rfl)
      · intro _; exact hfac
    · apply ConsI_gen cs (by rfl) (by rfl) (by rfl) (by rfl) <;> (try dsimp only) <;> try cls hpc
      exact hwk
  case rStopSet =>
    simp only [Option.some.injEq] at h; subst h
    apply LiveInv_move hV (by samec) (by rfl) (by rfl) <;> (try dsimp only) <;> try cls hpc
  case rJoin =>
    split at h
    · cases h
    · rename_i hal
      simp only [Option.some.injEq] at h; subst h
      rw [toNextCall_setCpc]
      exact LiveInv_toNextCall hV (by rw [hpc]; rfl) (by rw [hpc]; rfl) (by simp at hal; simp [hal])
  case exitPut i =>
    have hidx : i < s.procs.length := by have := hV.pr.idx; rw [hpc] at this; exact this
    have hwk := woken_false_of hV (by rw [hpc]; rfl)
    split at h
    · -- the queue is full: the loop is left only when every listed worker has exited, i.e. nobody is alive (in a plain
      -- pool this cannot happen: `cnt4`)
      split at h
      · rename_i hall
        simp only [Option.some.injEq] at h; subst h
        have hlive : liveCnt s = 0 := liveCnt_zero_of_all hL hall
        obtain ⟨lk, pr, rp, cs, ct⟩ := hV
        refine ⟨LockI_congr lk rfl (by rw [hpc]; rfl) rfl, ProcI_congr pr rfl rfl rfl (fun _ hh => hh) trivial,
          ReplI_congr rp rfl rfl rfl rfl rfl rfl ?_ ?_ (by rw [hpc]; rfl) (by rw [hpc]; rfl) ?_, ?_, ?_⟩
        · intro hh; cases hh
        · intro hh; cases hh
        · intro hh; rcases hh with hh | hh | hh <;> cases hh
        · apply ConsI_gen cs (by rfl) (by rfl) (by rfl) (by rfl)
          · intro hh; cases hh
          · intro _; rw [hpc]; rfl
          · intro hh; have : s.woken = true := hh; rw [hwk] at this; cases this
          · intro hh; cases hh
          · intro hh; cases hh
          · intro hh; cases hh
        · obtain ⟨k1, k2, k3, k4⟩ := ct
          have hex : exitPhasePc s.cpc = true := by rw [hpc]; rfl
          have hss : stopsSent s = i := by unfold stopsSent; rw [hpc]; rfl
          have hss' : stopsSent { s with cpc := .done } = s.procs.length := rfl
          have hlive' : liveCnt { s with cpc := .done } = 0 := hlive
          have h3 := k3 hex
          rw [hss] at h3
          constructor
          · exact k1
          · intro _; rw [hss', hlive']; show 0 + s.procs.length ≤ noneCount s.workQ + s.procs.length; omega
          · intro _; rw [hss']; show noneCount s.workQ ≤ s.procs.length; omega
          · intro hf; rw [hss', hlive']
            have h4 := k4 hf; rw [hss, hlive] at h4
            show noneCount s.workQ + s.procs.length ≤ 0 + s.procs.length; omega
      · cases h
    · -- the state after the put, with the new pc `c'`
      have key : ∀ c', idxV c' s.procs.length → cIn c' = false → rCall c' = false → rStopping c' = false →
          exitPhasePc c' = true → rJoinPc c' = false → stopsV c' s.procs.length = i + 1 → setupPc c' = false →
          getPathPc c' = false → loopPc c' = false → runSetPc c' = false →
          LiveInv { s with workQ := s.workQ ++ [none], cpc := c' } := by
        intro c' q1 q2 q3 q4 q5 q6 q7 q8 q9 q10 q11
        obtain ⟨lk, pr, rp, cs, ct⟩ := hV
        refine ⟨LockI_congr lk rfl (by rw [hpc]; exact q2) rfl, ProcI_congr pr rfl rfl rfl (fun _ hh => hh) q1,
          ReplI_congr rp rfl rfl rfl rfl rfl rfl ?_ ?_ (by rw [hpc]; exact q4) (by rw [hpc]; exact q5) ?_, ?_, ?_⟩
        · intro hh; have : exitPhasePc c' = false := hh; rw [q5] at this; cases this
        · intro hh; have : rCall c' = true := hh; rw [q3] at this; cases this
        · intro hh
          have := (rJoinPc_iff c').2 hh
          rw [q6] at this; cases this
        · apply ConsI_gen cs (by rfl) (by rfl) (by rfl) (by rfl)
          · intro hh; have : setupPc c' = true := hh; rw [q8] at this; cases this
          · intro _; rw [hpc]; rfl
          · intro hh; have : s.woken = true := hh; rw [hwk] at this; cases this
          · intro hh; have : getPathPc c' = true := hh; rw [q9] at this; cases this
          · intro hh; have : loopPc c' = true := hh; rw [q10] at this; cases this
          · intro hh; have : runSetPc c' = true := hh; rw [q11] at this; cases this
        · obtain ⟨k1, k2, k3, k4⟩ := ct
          have hex : exitPhasePc s.cpc = true := by rw [hpc]; rfl
          have hss : stopsSent s = i := by unfold stopsSent; rw [hpc]; rfl
          have hss' : stopsSent { s with workQ := s.workQ ++ [none], cpc := c' } = i + 1 := by unfold stopsSent; exact q7
          have hn : noneCount (s.workQ ++ [none]) = noneCount s.workQ + 1 := noneCount_append_none _
          have h2 := k2 hex
          have h3 := k3 hex
          rw [hss] at h2 h3
          constructor
          · exact k1
          · intro _; rw [hss']; show liveCnt s + (i + 1) ≤ noneCount (s.workQ ++ [none]) + s.procs.length; omega
          · intro _; rw [hss']; show noneCount (s.workQ ++ [none]) ≤ i + 1; omega
          · intro hf; rw [hss']
            have h4 := k4 hf; rw [hss] at h4
            show noneCount (s.workQ ++ [none]) + s.procs.length ≤ liveCnt s + (i + 1); omega
      split at h
      · rename_i hlt
        simp only [Option.some.injEq] at h; subst h
        exact key (.exitPut (i + 1)) hlt rfl rfl rfl rfl rfl rfl rfl rfl rfl rfl
      · rename_i hge
        simp only [Option.some.injEq] at h; subst h
        have hlen : s.procs.length = i + 1 := by
          have : ¬ (i + 1 < s.procs.length) := hge
          omega
        obtain ⟨q2, q1, q3, q4, q5, q6, q7, q8, q9, q10, q11⟩ :=
          exitJoinFrom_cls { s with workQ := s.workQ ++ [none], cpc := .exitPut i } 0 (Nat.zero_le _) _ rfl
        exact key _ q1 q2 q3 q4 q5 q6 (by rw [← hlen]; exact q7) q8 q9 q10 q11
  case exitJoin i =>
    have hidx : i < s.procs.length := by have := hV.pr.idx; rw [hpc] at this; exact this
    split at h
    · cases h
    · split at h
      · simp only [Option.some.injEq] at h; subst h
        obtain ⟨q2, q1, q3, q4, q5, q6, q7, q8, q9, q10, q11⟩ := exitJoinFrom_cls s (i + 1) hidx _ rfl
        apply LiveInv_move hV (by samec) (by rfl) (by rfl) <;> (try dsimp only) <;> (try rw [hpc])
        · rw [q2]; rfl
        · exact q1
        · intro hh; rw [q3] at hh; cases hh
        · rw [q4]; rfl
        · rw [q5]; rfl
        · intro hh; rw [q6] at hh; cases hh
        · rw [q7]; rfl
        · intro hh; rw [q8] at hh; cases hh
        · intro hh; rw [q9] at hh; cases hh
        · intro hh; rw [q10] at hh; cases hh
        · intro hh; rw [q11] at hh; cases hh
      · cases h
  case done => cases h

/-- the mid-call `until_all_ready()`: the next slot, or back into the result loop -/
theorem LiveInv_stepC_d (hV : LiveInv s) (hM : MidI s) (h : stepC s = some s')
    {i wid : Nat} (hpc : s.cpc = .midReady i wid) : LiveInv s' := by
  simp only [stepC, hpc] at h
  split at h
  · cases h
  · split at h
    · split at h
      · simp only [Option.some.injEq] at h; subst h
        apply LiveInv_move hV (by samec) (by rfl) (by rfl) <;> (try dsimp only) <;> try cls hpc
      · simp only [Option.some.injEq] at h; subst h
        have hwk := woken_false_of hV (by rw [hpc]; rfl)
        have hflow := hM.flow i wid hpc
        rcases afterBatch_cases s with ⟨c1, h1, h2, h3, h4⟩ | ⟨c1, h1, h2, h3, h4⟩ | ⟨h1, h4⟩ <;> rw [h4]
        · apply LiveInv_of hV (by constructor <;> rfl) (by rfl) (by exact id) <;> (try dsimp only) <;> try cls hpc
          · exact LockI_congr hV.lk rfl (by cls hpc) rfl
          · apply ConsI_gen hV.cs (by rfl) (by rfl) (by rfl) (by rfl) <;> (try dsimp only) <;> try cls hpc
            · exact hwk
            · exact h3
        · apply LiveInv_of hV (by constructor <;> rfl) (by rfl) (by exact id) <;> (try dsimp only) <;> try cls hpc
          · exact LockI_congr hV.lk rfl (by cls hpc) rfl
          · apply ConsI_gen hV.cs (by rfl) (by rfl) (by rfl) (by rfl) <;> (try dsimp only) <;> try cls hpc
            exact hwk
        · apply LiveInv_of hV (by constructor <;> rfl) (by rfl) (by exact id) <;> (try dsimp only) <;> try cls hpc
          · exact LockI_congr hV.lk rfl (by cls hpc) rfl
          · apply ConsI_gen hV.cs (by rfl) (by rfl) (by rfl) (by rfl) <;> (try dsimp only) <;> try cls hpc
            · exact hwk
            · intro hfr
              exfalso
              obtain ⟨c, hc1, hc2⟩ := hflow hfr
              rw [h1 c hc1] at hc2; cases hc2
    · cases h

theorem LiveInv_stepC (hS : SafeInv s) (hL : LInv s) (hV : LiveInv s) (hM : MidI s) (hw : WellCfg s.cfg)
    (h : stepC s = some s') : LiveInv s' := by
  cases hpc : s.cpc
  case midReady i wid => exact LiveInv_stepC_d hV hM h hpc
  case rdSending | rdDataCnt | qsize1 | lockAcq | qsize2 | getNowait | lockRel | getBlock | flowClear | flowIsSet | flowSet =>
    exact LiveInv_stepC_b hS hV hw h (by rw [hpc]; rfl)
  case fStopSet | fJoin | rPutNone | rStopSet | rJoin | exitPut | exitJoin | done =>
    exact LiveInv_stepC_c hL hV h (by rw [hpc]; trivial)
  all_goals exact LiveInv_stepC_a hL hV h (by rw [hpc]; trivial)

end WindVerif.Pool
