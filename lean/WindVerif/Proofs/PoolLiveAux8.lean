import WindVerif.Proofs.PoolLiveAux7
/-! Liveness of the pool model (C02): every step of the consumer keeps the liveness invariant. -/
namespace WindVerif.Pool

variable {s s' : St}

/-- evaluates the pc classes at concrete pcs -/
macro "cls " h:ident : tactic => `(tactic|
  simp [$h:ident, cIn, idxV, rCall, rStopping, exitPc, rJoinPc, stopsV, setupPc, getPathPc, loopPc, flowChk, runSetPc])

theorem cur_isSome_of (hS : SafeInv s) (h1 : preStart s = false) (h2 : exitPc s.cpc = false) : s.cur.isSome = true := by
  cases hc : s.cur with
  | none =>
    have := hS.noCall hc
    rw [h1] at this
    cases hcp : s.cpc <;> simp [hcp, exitPc] at h2 this
  | some c => rfl

theorem woken_false_of (hV : LiveInv s) (h : cIn s.cpc = false) : s.woken = false := by
  cases hh : s.woken
  · rfl
  · have := hV.cs.wokenPc hh; rw [h] at this; cases this

theorem LiveInv_stepC_a (hL : LInv s) (hV : LiveInv s) (h : stepC s = some s')
    (hc : match s.cpc with
      | .enterStart _ | .readyWait _ | .nextCall | .rInitSet | .rStart | .fInitSet | .wrSending | .wrDataCnt | .fStart => True
      | _ => False) : LiveInv s' := by
  cases hpc : s.cpc <;> simp only [hpc] at hc <;> simp only [stepC, hpc] at h
  case enterStart i =>
    have hpre := hL.pre (by rw [hpc]; trivial)
    split at h
    · cases h
    · rename_i wid hwd
      have hwd' := hwd
      rw [hpre.1] at hwd'
      obtain ⟨rfl, hin⟩ := range_getElem?_some hwd'
      split at h
      · cases h
      · rename_i w hg
        obtain ⟨hwm, hwid⟩ := getWorker_some hg
        have hwpc : w.pc = .notStarted := hL.starting wid hpc w hwm (by omega)
        have hV1 := LiveInv_startWorker hL hV hg hwpc
        have hcpc1 : (setWorker s { w with pc := .bfClear }).cpc = .enterStart wid := hpc
        split at h
        · rename_i hlt
          simp only [Option.some.injEq] at h; subst h
          apply LiveInv_move hV1 (by samec) (by rfl) (by rfl) <;> dsimp only <;> try cls hcpc1
          exact hlt
        · simp only [Option.some.injEq] at h; subst h
          unfold afterEnter
          split
          · rename_i hcnd
            apply LiveInv_move hV1 (by samec) (by rfl) (by rfl) <;> dsimp only <;> try cls hcpc1
            exact hcnd.2
          · rw [toNextCall_cpc]
            exact LiveInv_toNextCall hV1 (by rw [hcpc1]; rfl) (by rw [hcpc1]; rfl) (by rw [hcpc1]; simp [rStopping])
  case readyWait i =>
    split at h
    · cases h
    · split at h
      · cases h
      · split at h
        · split at h
          · rename_i hlt
            simp only [Option.some.injEq] at h; subst h
            apply LiveInv_move hV (by samec) (by rfl) (by rfl) <;> dsimp only <;> try cls hpc
            exact hlt
          · simp only [Option.some.injEq] at h; subst h
            rw [toNextCall_cpc]
            exact LiveInv_toNextCall hV (by rw [hpc]; rfl) (by rw [hpc]; rfl) (by rw [hpc]; simp [rStopping])
        · cases h
  case nextCall =>
    simp only [Option.some.injEq] at h; subst h
    exact LiveInv_toNextCall hV (by rw [hpc]; rfl) (by rw [hpc]; rfl) (by rw [hpc]; simp [rStopping])
  case rInitSet =>
    simp only [Option.some.injEq] at h; subst h
    apply LiveInv_move hV (by samec) (by rfl) (by rfl) <;> dsimp only <;> try cls hpc
  case rStart =>
    simp only [Option.some.injEq] at h; subst h
    -- first the thread starts, then the pc moves
    have hral : s.rAlive = false := rAlive_false hL (by rw [hpc]; rfl)
    have hidle := hL.rIdle hral
    obtain ⟨lk, pr, rp, cs, ct⟩ := hV
    have hp : pending { s with rAlive := true, rpc := .get } = pending s := by unfold pending; simp [hidle]
    have hV1 : LiveInv { s with rAlive := true, rpc := .get } := by
      refine ⟨LockI_congr lk rfl rfl rfl, ProcI_congr pr rfl rfl rfl (fun _ hh => by cases hh) pr.idx, ?_,
        ConsI_congr cs rfl rfl rfl rfl rfl rfl rfl id rfl rfl rfl rfl,
        CntI_congr' ct rfl (by rw [hp]) rfl rfl rfl rfl rfl⟩
      constructor
      · intro _ hh; exact absurd hh (by rw [show ({ s with rAlive := true, rpc := .get } : St).cpc = s.cpc from rfl, hpc]; simp [rCall])
      · intro _ hh; cases hh
      · have := rp.tokR
        rw [hpc] at this
        show noneCount s.replQ = _
        rw [this, show ({ s with rAlive := true, rpc := .get } : St).cpc = s.cpc from rfl, hpc]
        simp [rStopping]
      · intro x hx hxpc hxin
        rcases rp.exitedL x hx hxpc hxin with hh | ⟨hf, hq⟩
        · exact Or.inl hh
        · exact Or.inr ⟨hf, by rw [hp]; exact hq⟩
      · exact rp.noStop
      · exact rp.rFac
    apply LiveInv_move hV1 (by samec) (by rfl) (by rfl) <;> dsimp only <;> try cls hpc
  case fInitSet =>
    simp only [Option.some.injEq] at h; subst h
    have hwk := woken_false_of hV (by rw [hpc]; rfl)
    apply LiveInv_of hV (by constructor <;> rfl) (by rfl) (by exact id) <;> (try dsimp only) <;> try cls hpc
    · exact LockI_congr hV.lk rfl (by cls hpc) rfl
    · apply ConsI_gen hV.cs (by rfl) (by rfl) (by rfl) (by rfl) <;> (try dsimp only) <;> try cls hpc
      exact hwk
  case wrSending =>
    simp only [Option.some.injEq] at h; subst h
    apply LiveInv_move hV (by samec) (by rfl) (by rfl) <;> dsimp only <;> try cls hpc
  case wrDataCnt =>
    simp only [Option.some.injEq] at h; subst h
    apply LiveInv_move hV (by samec) (by rfl) (by rfl) <;> dsimp only <;> try cls hpc
  case fStart =>
    split at h
    · cases h
    · rename_i call hcur
      simp only [Option.some.injEq] at h; subst h
      have hwk := woken_false_of hV (by rw [hpc]; rfl)
      have hrun := hV.cs.runSetup (by rw [hpc]; rfl)
      apply LiveInv_of hV (by constructor <;> rfl) (by rfl) (by exact id) <;> (try dsimp only) <;> try cls hpc
      · exact LockI_congr hV.lk rfl (by cls hpc) rfl
      · apply ConsI_gen hV.cs (by rfl) (by rfl) (by rfl) (by rfl) <;> (try dsimp only) <;> try cls hpc
        · exact hwk
        · intro hh; rw [hrun] at hh; cases hh


/-- in a call that is not ordered the flow control never engages -/
theorem fRun_of_unordered (hS : SafeInv s) (hV : LiveInv s) (hw : WellCfg s.cfg) (h1 : loopPc s.cpc = true)
    (h2 : flowChk s.cpc = false) {call : Call} (hc : s.cur = some call) (ho : call.ordered = false) : s.fRun = true := by
  cases hr : s.fRun
  · exfalso
    have hb := hV.cs.flow h1 h2 (Or.inl hr)
    have hbuf := hS.unordered call hc ho
    unfold bufferFull at hb
    cases hrc : s.cfg.resCap with
    | none => rw [hrc] at hb; cases hb
    | some c =>
      rw [hrc, hbuf] at hb
      have := hw.2.1 c hrc
      simp at hb; omega
  · rfl

theorem LiveInv_stepC_b (hS : SafeInv s) (hV : LiveInv s) (hw : WellCfg s.cfg) (h : stepC s = some s')
    (hc : loopPc s.cpc = true) : LiveInv s' := by
  have hpre : preStart s = false := by
    unfold preStart; cases hcp : s.cpc <;> simp [hcp, loopPc] at hc ⊢
  have hex : exitPc s.cpc = false := by
    cases hcp : s.cpc <;> simp [hcp, loopPc, exitPc] at hc ⊢
  have hcur := cur_isSome_of hS hpre hex
  obtain ⟨call, hcall⟩ := Option.isSome_iff_exists.1 hcur
  cases hpc : s.cpc <;> simp only [hpc, loopPc] at hc <;> simp only [stepC, hpc] at h <;> try cases hc
  case rdSending =>
    split at h <;> simp only [Option.some.injEq] at h <;> subst h
    · rename_i hsend
      apply LiveInv_move hV (by samec) (by rfl) (by rfl) <;> (try dsimp only) <;> try cls hpc
      intro _ _ hf _
      have := (hS.sendingTrue hpre hcur).1 hsend
      rw [hf] at this; simp at this
    · apply LiveInv_move hV (by samec) (by rfl) (by rfl) <;> (try dsimp only) <;> try cls hpc
  case rdDataCnt =>
    split at h <;> simp only [Option.some.injEq] at h <;> subst h
    · rename_i hlt
      apply LiveInv_move hV (by samec) (by rfl) (by rfl) <;> (try dsimp only) <;> try cls hpc
      intro _ _ hf hfin
      have := hS.cntDone hpre hcur (Or.inr (Or.inr hf))
      omega
    · apply LiveInv_move hV (by samec) (by rfl) (by rfl) <;> (try dsimp only) <;> try cls hpc
  case qsize1 =>
    have hb : s.batch = [] := hS.batchEmpty (by rw [hpc]; trivial)
    have hwk := woken_false_of hV (by rw [hpc]; rfl)
    split at h <;> simp only [Option.some.injEq] at h <;> subst h
    · apply LiveInv_move hV (by exact ⟨⟨rfl, rfl, rfl, rfl, rfl, rfl⟩, rfl, hwk.symm, hb.symm, rfl, rfl, rfl, rfl, rfl, rfl, rfl⟩)
        (by rfl) (by rfl) <;> (try dsimp only) <;> try cls hpc
    · apply LiveInv_move hV (by samec) (by rfl) (by rfl) <;> (try dsimp only) <;> try cls hpc
  case lockAcq =>
    split at h
    · rename_i hl
      simp only [Option.some.injEq] at h; subst h
      apply LiveInv_of hV (by constructor <;> rfl) (by rfl) (by exact id) <;> (try dsimp only) <;> try cls hpc
      · exact LockI_acquire hV.lk (by simpa using hl) rfl rfl rfl
      · apply ConsI_move hV.cs (by samec) <;> (try dsimp only) <;> try cls hpc
    · cases h
  case qsize2 =>
    split at h <;> simp only [Option.some.injEq] at h <;> subst h <;>
      apply LiveInv_move hV (by samec) (by rfl) (by rfl) <;> (try dsimp only) <;> try cls hpc
  case getNowait =>
    split at h <;> simp only [Option.some.injEq] at h <;> subst h
    · apply LiveInv_move hV (by samec) (by rfl) (by rfl) <;> (try dsimp only) <;> try cls hpc
    · apply LiveInv_of hV (by constructor <;> rfl) (by rfl) (by exact id) <;> (try dsimp only) <;> try cls hpc
      · exact LockI_congr hV.lk rfl (by cls hpc) rfl
      · apply ConsI_gen hV.cs (by rfl) (by rfl) (by rfl) (by rfl) <;> (try dsimp only) <;> try cls hpc
        intro hfr
        exact hV.cs.flow (by rw [hpc]; rfl) (by rw [hpc]; rfl) (Or.inl hfr)
    · apply LiveInv_of hV (by constructor <;> rfl) (by rfl) (by exact id) <;> (try dsimp only) <;> try cls hpc
      · exact LockI_congr hV.lk rfl (by cls hpc) rfl
      · apply ConsI_gen hV.cs (by rfl) (by rfl) (by rfl) (by rfl) <;> (try dsimp only) <;> try cls hpc
        intro hfr
        exact hV.cs.flow (by rw [hpc]; rfl) (by rw [hpc]; rfl) (Or.inl hfr)
  case lockRel =>
    have hun : call.ordered = false → s.fRun = true := fun ho =>
      fRun_of_unordered hS hV hw (by rw [hpc]; rfl) (by rw [hpc]; rfl) hcall ho
    split at h <;> simp only [Option.some.injEq] at h <;> subst h
    · -- results: process them
      have hc0 : ({ s with lock := none, cpc := .lockRel } : St).cur = some call := hcall
      have hwf : ({ s with lock := none, cpc := .lockRel } : St).wf ∉ ({ s with lock := none, cpc := .lockRel } : St).buffer := hV.cs.wfBuf
      obtain ⟨hcl, f1, f2, f3, f4, f5, f6, f7, f8⟩ := afterResults_frame _ call hc0 hwf
      obtain ⟨h1, h2, h3⟩ := Rest_afterResults hV.pr hV.rp hV.ct (s0 := { s with lock := none, cpc := .lockRel }) (by constructor <;> rfl) rfl
        (by rw [hpc]; rfl) call hc0 hwf
      refine ⟨LockI_release hV.lk (by rw [hpc]; rfl) f7 ?_ f1, h1, h2, ?_, h3⟩
      · rcases hcl with hh | hh | hh <;> rw [hh] <;> rfl
      · exact ConsI_afterResults _ call hc0 hwf hun
    · rename_i hnb
      have hb : s.batch = [] := by
        cases hbb : s.batch with
        | nil => rfl
        | cons a r => exfalso; apply hnb; left; show s.batch.length > 0; rw [hbb]; simp
      have hwk : s.woken = false := by
        cases hww : s.woken
        · rfl
        · exfalso; apply hnb; right; exact hww
      apply LiveInv_of hV (by constructor <;> rfl) (by rfl) (by exact id) <;> (try dsimp only) <;> try cls hpc
      · exact LockI_release hV.lk (by rw [hpc]; rfl) rfl rfl rfl
      · apply ConsI_gen hV.cs (by rfl) (by rfl) (by rfl) (by rfl) <;> (try dsimp only) <;> try cls hpc
        · exact hwk
        · exact hV.cs.token (by rw [hpc]; rfl)
        · intro hfr
          exact hV.cs.flow (by rw [hpc]; rfl) (by rw [hpc]; rfl) (Or.inl hfr)
  case getBlock =>
    have hun : call.ordered = false → s.fRun = true := fun ho =>
      fRun_of_unordered hS hV hw (by rw [hpc]; rfl) (by rw [hpc]; rfl) hcall ho
    split at h
    · cases h
    · rename_i r hq
      simp only [Option.some.injEq] at h; subst h
      have hc0 : ({ s with resQ := r, batch := [], cpc := .getBlock } : St).cur = some call := hcall
      have hwf : ({ s with resQ := r, batch := [], cpc := .getBlock } : St).wf ∉ ({ s with resQ := r, batch := [], cpc := .getBlock } : St).buffer := hV.cs.wfBuf
      obtain ⟨hcl, f1, f2, f3, f4, f5, f6, f7, f8⟩ := afterResults_frame _ call hc0 hwf
      obtain ⟨h1, h2, h3⟩ := Rest_afterResults hV.pr hV.rp hV.ct (s0 := { s with resQ := r, batch := [], cpc := .getBlock })
        (by constructor <;> rfl) rfl (by rw [hpc]; rfl) call hc0 hwf
      refine ⟨LockI_congr hV.lk f7 ?_ f1, h1, h2, ConsI_afterResults _ call hc0 hwf hun, h3⟩
      rw [hpc]; rcases hcl with hh | hh | hh <;> rw [hh] <;> rfl
    · rename_i i r hq
      simp only [Option.some.injEq] at h; subst h
      have hc0 : ({ s with resQ := r, batch := [i], cpc := .getBlock } : St).cur = some call := hcall
      have hwf : ({ s with resQ := r, batch := [i], cpc := .getBlock } : St).wf ∉ ({ s with resQ := r, batch := [i], cpc := .getBlock } : St).buffer := hV.cs.wfBuf
      obtain ⟨hcl, f1, f2, f3, f4, f5, f6, f7, f8⟩ := afterResults_frame _ call hc0 hwf
      obtain ⟨h1, h2, h3⟩ := Rest_afterResults hV.pr hV.rp hV.ct (s0 := { s with resQ := r, batch := [i], cpc := .getBlock })
        (by constructor <;> rfl) rfl (by rw [hpc]; rfl) call hc0 hwf
      refine ⟨LockI_congr hV.lk f7 ?_ f1, h1, h2, ConsI_afterResults _ call hc0 hwf hun, h3⟩
      rw [hpc]; rcases hcl with hh | hh | hh <;> rw [hh] <;> rfl
  case flowClear =>
    simp only [Option.some.injEq] at h; subst h
    have hwk := woken_false_of hV (by rw [hpc]; rfl)
    have hbf := hV.cs.flow (by rw [hpc]; rfl) (by rw [hpc]; rfl) (Or.inr hpc)
    apply LiveInv_of hV (by constructor <;> rfl) (by rfl) (by exact id) <;> (try dsimp only) <;> try cls hpc
    · exact LockI_congr hV.lk rfl (by cls hpc) rfl
    · apply ConsI_gen hV.cs (by rfl) (by rfl) (by rfl) (by rfl) <;> (try dsimp only) <;> try cls hpc
      · exact hwk
      · exact hbf
  case flowIsSet =>
    split at h <;> simp only [Option.some.injEq] at h <;> subst h
    · rename_i hrun
      apply LiveInv_move hV (by samec) (by rfl) (by rfl) <;> (try dsimp only) <;> try cls hpc
      exact hrun
    · apply LiveInv_move hV (by samec) (by rfl) (by rfl) <;> (try dsimp only) <;> try cls hpc
  case flowSet =>
    simp only [Option.some.injEq] at h; subst h
    have hwk := woken_false_of hV (by rw [hpc]; rfl)
    apply LiveInv_of hV (by constructor <;> rfl) (by rfl) (by exact id) <;> (try dsimp only) <;> try cls hpc
    · exact LockI_congr hV.lk rfl (by cls hpc) rfl
    · apply ConsI_gen hV.cs (by rfl) (by rfl) (by rfl) (by rfl) <;> (try dsimp only) <;> try cls hpc
      exact hwk

end WindVerif.Pool
