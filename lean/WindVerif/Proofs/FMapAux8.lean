import WindVerif.Proofs.FMapAux7
/-! Progress: in every reachable state in which the caller has not finished, some thread can move. -/
namespace WindVerif.FMap

theorem stepW_put_enabled {cfg : Cfg} {s : St} (h : Main cfg s) {w : Worker} (hw : w ∈ s.workers) (hpc : w.pc = .put) :
    (stepW s w.wid).isSome := by
  have hg : getWorker s w.wid = some w := find_wid_of_mem (wids_nodup h.wids) hw
  have hh := (h.held_put w hw).1 hpc
  unfold stepW
  simp only [hg, hpc]
  cases hwh : w.held with
  | none => exact absurd hwh hh
  | some c => simp

theorem stepW_get_enabled {cfg : Cfg} {s : St} (h : Main cfg s) {w : Worker} (hw : w ∈ s.workers) (hpc : w.pc = .get)
    (hq : s.workQ ≠ []) : (stepW s w.wid).isSome := by
  have hg : getWorker s w.wid = some w := find_wid_of_mem (wids_nodup h.wids) hw
  unfold stepW
  simp only [hg, hpc]
  cases hwq : s.workQ with
  | nil => exact absurd hwq hq
  | cons a r => cases a <;> simp

/-- a worker that has not exited can move when the work queue is not empty -/
theorem worker_enabled {cfg : Cfg} {s : St} (h : Main cfg s) (hns : ∀ i, s.ppc ≠ .start i) (hl : 0 < live s.workers)
    (hq : s.workQ ≠ []) : ∃ t, (step s t).isSome := by
  obtain ⟨w, hw, hne⟩ := live_pos_iff.1 hl
  refine ⟨.w w.wid, ?_⟩
  show (stepW s w.wid).isSome
  cases hpc : w.pc with
  | notStarted => exact absurd hpc (no_notStarted h hns w hw)
  | get => exact stepW_get_enabled h hw hpc hq
  | put => exact stepW_put_enabled h hw hpc
  | exited => exact absurd hpc hne

theorem queue_ne_nil_of_full {s : St} (hc : 1 ≤ s.cfg.workCap) (hf : s.workQ.length ≥ s.cfg.workCap) : s.workQ ≠ [] := by
  intro h; rw [h] at hf; simp at hf; omega

theorem progress_of_inv {cfg : Cfg} (hw1 : 1 ≤ cfg.nWorkers) (hw2 : 1 ≤ cfg.workCap) {s : St} (h : Inv cfg s)
    (hnd : s.ppc ≠ .done) : ∃ t, (step s t).isSome := by
  have hm := h.toMain
  have hcap : 1 ≤ s.cfg.workCap := by rw [hm.cfg_eq]; exact hw2
  have hph := hm.phase; unfold PhaseOK at hph
  have hlen : s.workers.length = s.base + cfg.nWorkers := by
    rcases hm.len with h' | h'
    · exact h'
    · exact absurd h'.2 hnd
  cases hp : s.ppc with
  | start i =>
    simp only [hp] at hph
    obtain ⟨w, hg⟩ := find_wid_isSome hm.wids (i := s.base + i) (by omega)
    refine ⟨.p, ?_⟩
    show (stepP s).isSome
    unfold stepP getWorker
    simp only [hp, hg]
    split
    · rfl
    · split
      · split <;> rfl
      · rfl
  | put =>
    by_cases hf : s.workQ.length ≥ s.cfg.workCap
    · apply worker_enabled hm (by simp [hp]) _ (queue_ne_nil_of_full hcap hf)
      have := hm.count; rw [hp] at this; simp only [posted] at this; omega
    · refine ⟨.p, ?_⟩
      show (stepP s).isSome
      unfold stepP; simp only [hp, hf, if_false]; rfl
  | nowait =>
    refine ⟨.p, ?_⟩
    show (stepP s).isSome
    cases hq : s.resQ with
    | cons i r => rw [stepP_nowait_cons hp hq]; split <;> rfl
    | nil => rw [stepP_nowait_nil hp hq]; split <;> rfl
  | stopPut i =>
    simp only [hp] at hph
    by_cases hf : s.workQ.length ≥ s.cfg.workCap
    · apply worker_enabled hm (by simp [hp]) _ (queue_ne_nil_of_full hcap hf)
      have := hm.count; rw [hp] at this; simp only [posted] at this; omega
    · refine ⟨.p, ?_⟩
      show (stepP s).isSome
      rw [stepP_stopPut hp]; simp only [hf, if_false]
      split
      · rfl
      · split <;> rfl
  | finalGet =>
    cases hq : s.resQ with
    | cons i r =>
      refine ⟨.p, ?_⟩
      show (stepP s).isSome
      rw [stepP_finalGet_cons hp hq]; rfl
    | nil =>
      have hlt := h.strict hp
      have hfin := hm.fin
      have hcons := hm.cons
      rw [hq] at hcons
      -- some chunk is in the work queue or held by a worker
      have hex : (∃ c, c ∈ chunksQ s.workQ) ∨ (∃ c, c ∈ heldL s.workers) := by
        cases hmm : cfg.mulP
        · have hg := hm.modeF hmm
          rw [hg] at hfin hcons
          simp only [List.length_nil, Nat.zero_add] at hfin
          have hmem : s.wf ∈ List.range s.dataCnt := by simp; omega
          rw [← hcons.mem_iff] at hmem
          simp only [List.append_nil, List.mem_append, List.mem_range, Nat.lt_irrefl, or_false] at hmem
          rcases hmem with (h1 | h1) | h1
          · exact Or.inl ⟨_, h1⟩
          · exact Or.inr ⟨_, h1⟩
          · exact absurd h1 hm.wfbuf
        · obtain ⟨hb, hwf⟩ := hm.modeP hmm
          have hl := hcons.length_eq
          rw [hb, hwf] at hl
          simp only [List.length_append, List.length_nil, List.length_range, Nat.add_zero] at hl
          by_cases hc : chunksQ s.workQ = []
          · right
            have : heldL s.workers ≠ [] := by
              intro hh; rw [hc, hh] at hl; simp at hl; omega
            obtain ⟨c, hc'⟩ := List.exists_mem_of_ne_nil _ this
            exact ⟨c, hc'⟩
          · left
            obtain ⟨c, hc'⟩ := List.exists_mem_of_ne_nil _ hc
            exact ⟨c, hc'⟩
      rcases hex with ⟨c, hc⟩ | ⟨c, hc⟩
      · have hsome : some c ∈ s.workQ := mem_chunksQ.1 hc
        have hne : s.workQ ≠ [] := List.ne_nil_of_mem hsome
        apply worker_enabled hm (by simp [hp]) _ hne
        have : ¬ live s.workers < cfg.nWorkers := by
          intro hl
          have := hm.exitedQ hl _ hsome
          cases this
        omega
      · simp only [heldL, List.mem_filterMap] at hc
        obtain ⟨w, hw, hwh⟩ := hc
        have hpc : w.pc = .put := (hm.held_put w hw).2 (by rw [hwh]; simp)
        exact ⟨.w w.wid, stepW_put_enabled hm hw hpc⟩
  | join i =>
    simp only [hp] at hph
    by_cases hex : exitedW s (s.base + i) = true
    · refine ⟨.p, ?_⟩
      show (stepP s).isSome
      unfold stepP; simp only [hp, hex, if_true]
      split
      · rfl
      · split <;> rfl
    · obtain ⟨w, hg⟩ := find_wid_isSome hm.wids (i := s.base + i) (by omega)
      have hw : w ∈ s.workers := List.mem_of_find?_eq_some hg
      have hne : w.pc ≠ .exited := by
        intro hpc
        apply hex
        unfold exitedW getWorker
        simp [hg, hpc]
      have hl : 0 < live s.workers := live_pos_iff.2 ⟨w, hw, hne⟩
      apply worker_enabled hm (by simp [hp]) hl
      intro hq
      have := hm.count; rw [hp, hq] at this; simp only [posted, nonesQ_nil] at this; omega
  | done => exact absurd hp hnd

end WindVerif.FMap
