import WindVerif.Model.SortedMixins
import WindVerif.Proofs.Sorted
import WindVerif.Proofs.SortedCopy
/-!
Theorems about the inherited `collections.abc` interface of `SortedMap` / `SortedSet` (`Model/SortedMixins.lean`): the mixin
methods agree with dict / set semantics (`mapLookup` is the dict a map state stands for; sets are characterised by
membership, which with `Strict` determines the list — `strict_unique`).
-/
namespace WindVerif.Sorted

/-! ### justification of the totalised branches of the model -/

/-- in a well-formed state the only error `self[key]` can give is `KeyError` (so "`except KeyError`" catches everything) -/
theorem mapGet_error_wf (m : SMap) (p : Probe) (e : Err) (h : MapWf m) (he : mapGet m p = .error e) :
    e = .keyError := by
  cases p with
  | foreign => rw [mapGet_foreign] at he; cases he; rfl
  | num k =>
    rw [mapGet_num m k h] at he
    cases hl : mapLookup m k with
    | none => rw [hl] at he; cases he; rfl
    | some v => rw [hl] at he; cases he

/-- after `self[key]` succeeded, `del self[key]` succeeds (in any state) -/
theorem mapDel_ok_of_get_ok (m : SMap) (p : Probe) (v : Nat) (h : mapGet m p = .ok v) :
    ∃ m', mapDel m p = .ok m' := by
  unfold mapGet at h
  unfold mapDel
  cases hi : mapIndex m p with
  | error e => rw [hi] at h; cases h
  | ok r =>
    obtain ⟨i, b⟩ := r
    cases b with
    | false => rw [hi] at h; cases h
    | true => exact ⟨_, rfl⟩

/-! ### Mapping.get / MutableMapping.pop with a default -/

theorem mapGetD_num (m : SMap) (k : Int) (d : Nat) (h : MapWf m) :
    mapGetD m (.num k) d = (mapLookup m k).getD d := by
  unfold mapGetD
  rw [mapGet_num m k h]
  cases mapLookup m k <;> rfl

theorem mapGetD_foreign (m : SMap) (d : Nat) : mapGetD m .foreign d = d := by
  unfold mapGetD; rw [mapGet_foreign]

/-- `get(key, default)` is the dict lookup, or the default; the default for a foreign-typed key -/
theorem mapGetD_spec (m : SMap) (d : Nat) (h : MapWf m) :
    (∀ k, mapGetD m (.num k) d = (mapLookup m k).getD d) ∧ mapGetD m .foreign d = d :=
  ⟨fun k => mapGetD_num m k d h, mapGetD_foreign m d⟩

theorem mapPopD_foreign (m : SMap) (d : Nat) : mapPopD m .foreign d = (m, d) := by
  unfold mapPopD; rw [mapGet_foreign]

/-- `pop(key, default)` of an absent key (also of a foreign-typed one): the state is unchanged, the default comes back -/
theorem mapPopD_absent (m : SMap) (d : Nat) (h : MapWf m) :
    (∀ k, mapLookup m k = none → mapPopD m (.num k) d = (m, d)) ∧ mapPopD m .foreign d = (m, d) := by
  refine ⟨?_, mapPopD_foreign m d⟩
  intro k hk
  unfold mapPopD
  rw [mapGet_num m k h, hk]

/-- `pop(key, default)` of a present key is `del m[key]` and returns the value: the new state is well formed and stands for
the dict without the key -/
theorem mapPopD_present (m : SMap) (k : Int) (v d : Nat) (h : MapWf m) (hk : mapLookup m k = some v) :
    ∃ m', mapDel m (.num k) = .ok m' ∧ mapPopD m (.num k) d = (m', v) ∧ MapWf m' ∧
      ∀ k', mapLookup m' k' = if k' = k then none else mapLookup m k' := by
  have hd := mapDel_spec m k h
  rw [hk] at hd
  obtain ⟨m', hd1, hwf, hl⟩ := hd
  refine ⟨m', hd1, ?_, hwf, hl⟩
  unfold mapPopD
  rw [mapGet_num m k h, hk]
  simp only [hd1]

/-! ### the views -/

theorem mapKeysContains_iff (m : SMap) (h : MapWf m) :
    (∀ k, mapKeysContains m (.num k) = true ↔ (mapLookup m k).isSome = true) ∧
    mapKeysContains m .foreign = false := by
  unfold mapKeysContains
  refine ⟨fun k => by rw [mapContains_num m k h], mapContains_foreign m⟩

theorem mapItemsContains_iff (m : SMap) (v : Nat) (h : MapWf m) :
    (∀ k, mapItemsContains m (.num k) v = true ↔ mapLookup m k = some v) ∧
    mapItemsContains m .foreign v = false := by
  unfold mapItemsContains
  constructor
  · intro k
    rw [mapGet_num m k h]
    cases mapLookup m k with
    | none => simp
    | some w => simp
  · rw [mapGet_foreign]

theorem mapLookup_some_mem {m : SMap} {k : Int} {v : Nat} (hk : mapLookup m k = some v) : k ∈ m.keys := by
  unfold mapLookup at hk
  have hs : ((m.keys.zip m.vals).lookup k).isSome = true := by rw [hk]; rfl
  rw [List.lookup_isSome_iff] at hs
  obtain ⟨q, hq, hqk⟩ := hs
  have : k = q.1 := by simpa using hqk
  rw [this]
  exact (List.of_mem_zip (a := q.1) (b := q.2) hq).1

theorem mapLookup_isSome_of_mem {m : SMap} {k : Int} (h : MapWf m) (hk : k ∈ m.keys) :
    ∃ v, mapLookup m k = some v := by
  have := mapIndex_num m k h
  have hg := mapGet_num m k h
  cases hl : mapLookup m k with
  | some v => exact ⟨v, rfl⟩
  | none =>
    exfalso
    rw [hl] at hg
    unfold mapGet at hg
    rw [this] at hg
    simp only [hk, decide_true] at hg
    have hlt : (List.filter (fun x => decide (x < k)) m.keys).length < m.vals.length := by
      rw [h.2]
      have hsplit := strict_split m.keys k h.1
      have hpos : 0 < (m.keys.filter (k ≤ ·)).length := by
        apply List.length_pos_of_mem (a := k)
        simp [hk]
      calc (List.filter (fun x => decide (x < k)) m.keys).length
          < (List.filter (fun x => decide (x < k)) m.keys).length + (m.keys.filter (k ≤ ·)).length := by omega
        _ = m.keys.length := by rw [← List.length_append, hsplit]
    rw [List.getElem?_eq_getElem hlt] at hg
    cases hg

theorem mapValuesContains_iff (m : SMap) (v : Nat) (h : MapWf m) :
    mapValuesContains m v = true ↔ ∃ k, mapLookup m k = some v := by
  unfold mapValuesContains
  rw [List.any_eq_true]
  constructor
  · rintro ⟨k, hk, hv⟩
    rw [mapGet_num m k h] at hv
    refine ⟨k, ?_⟩
    cases hl : mapLookup m k with
    | none => rw [hl] at hv; cases hv
    | some w => rw [hl] at hv; simp only [beq_iff_eq] at hv; rw [hv]
  · rintro ⟨k, hk⟩
    refine ⟨k, mapLookup_some_mem hk, ?_⟩
    rw [mapGet_num m k h, hk]
    simp

/-! ### Mapping.__eq__ -/

theorem lookup_isSome_iff_mem_keys (l : List (Int × Nat)) (k : Int) :
    (l.lookup k).isSome = true ↔ k ∈ l.map (·.1) := by
  rw [List.lookup_isSome_iff, List.mem_map]
  constructor
  · rintro ⟨q, hq, hqk⟩
    exact ⟨q, hq, by simpa using Eq.symm (by simpa using hqk : k = q.1)⟩
  · rintro ⟨q, hq, rfl⟩
    exact ⟨q, hq, by simp⟩

/-- pigeonhole: a duplicate-free list inside a duplicate-free list that is not longer covers it -/
theorem subset_of_nodup_length_le {α : Type} [DecidableEq α] : ∀ (l₁ l₂ : List α), l₁.Nodup → l₂.Nodup → l₁ ⊆ l₂ →
    l₂.length ≤ l₁.length → l₂ ⊆ l₁ := by
  intro l₁
  induction l₁ with
  | nil =>
    intro l₂ _ _ _ hlen
    have : l₂ = [] := List.eq_nil_of_length_eq_zero (by simpa using hlen)
    subst this; exact fun _ h => h
  | cons a t ih =>
    intro l₂ h₁ h₂ hsub hlen
    rw [List.nodup_cons] at h₁
    have ha : a ∈ l₂ := hsub List.mem_cons_self
    have htsub : t ⊆ l₂.erase a := by
      intro x hx
      have hxa : x ≠ a := fun h => h₁.1 (h ▸ hx)
      exact (List.mem_erase_of_ne hxa).2 (hsub (List.mem_cons_of_mem _ hx))
    have hl : (l₂.erase a).length = l₂.length - 1 := by rw [List.length_erase]; simp [ha]
    have hpos : 1 ≤ l₂.length := List.length_pos_of_mem ha
    have hih := ih (l₂.erase a) h₁.2 (h₂.erase a) htsub (by rw [hl]; simp only [List.length_cons] at hlen; omega)
    intro x hx
    by_cases hxa : x = a
    · subst hxa; exact List.mem_cons_self
    · exact List.mem_cons_of_mem _ (hih ((List.mem_erase_of_ne hxa).2 hx))

theorem lookup_none_of_not_mem_keys {l : List (Int × Nat)} {k : Int} (h : k ∉ l.map (·.1)) : l.lookup k = none := by
  cases hl : l.lookup k with
  | none => rfl
  | some v =>
    exfalso
    apply h
    rw [← lookup_isSome_iff_mem_keys, hl]; rfl

/-- dict equality of two key-distinct item lists says: the same finite map -/
theorem dictEq_iff (a b : List (Int × Nat)) (ha : (a.map (·.1)).Nodup) (hb : (b.map (·.1)).Nodup) :
    dictEq a b = true ↔ ∀ k, a.lookup k = b.lookup k := by
  unfold dictEq
  rw [Bool.and_eq_true, List.all_eq_true, beq_iff_eq]
  constructor
  · rintro ⟨hlen, hall⟩ k
    have hsub : a.map (·.1) ⊆ b.map (·.1) := by
      intro x hx
      obtain ⟨p, hp, rfl⟩ := List.mem_map.1 hx
      rw [← lookup_isSome_iff_mem_keys]
      have := hall p hp
      rw [beq_iff_eq] at this
      rw [this]; rfl
    have hsup := subset_of_nodup_length_le _ _ ha hb hsub (by simp [hlen])
    cases hl : a.lookup k with
    | some v =>
      have hm := (lookup_eq_some_of_nodup a ha k v).1 hl
      have := hall (k, v) hm
      rw [beq_iff_eq] at this
      exact this.symm
    | none =>
      have hk : k ∉ a.map (·.1) := by
        intro hk
        rw [← lookup_isSome_iff_mem_keys, hl] at hk
        cases hk
      exact (lookup_none_of_not_mem_keys (fun hk' => hk (hsup hk'))).symm
  · intro h
    have hmem : ∀ x, x ∈ a.map (·.1) ↔ x ∈ b.map (·.1) := by
      intro x
      rw [← lookup_isSome_iff_mem_keys, ← lookup_isSome_iff_mem_keys, h x]
    constructor
    · have := ((List.perm_ext_iff_of_nodup ha hb).2 hmem).length_eq
      simpa using this
    · intro p hp
      rw [beq_iff_eq, ← h p.1]
      exact (lookup_eq_some_of_nodup a ha p.1 p.2).2 hp

theorem filterMap_eq_self_of {α : Type} {f : α → Option α} {l : List α} (h : ∀ a ∈ l, f a = some a) :
    l.filterMap f = l := by
  induction l with
  | nil => rfl
  | cons a l ih =>
    rw [List.filterMap_cons, h a (by simp)]
    simp only
    rw [ih (fun b hb => h b (List.mem_cons_of_mem _ hb))]

theorem keys_nodup_of_wf {m : SMap} (h : MapWf m) : ((mapItems m).map (·.1)).Nodup := by
  rw [(mapItems_spec m h).1]
  exact List.Pairwise.imp (fun {a b : Int} (hab : a < b) => by omega) h.1

/-- iterating the items view yields the items in key order -/
theorem mapIterItems_eq (m : SMap) (h : MapWf m) : mapIterItems m = mapItems m := by
  have hnd := keys_nodup_of_wf h
  have hk : m.keys = (mapItems m).map (·.1) := (mapItems_spec m h).1.symm
  unfold mapIterItems
  rw [hk, List.filterMap_map]
  apply filterMap_eq_self_of
  intro p hp
  simp only [Function.comp]
  rw [mapGet_num m p.1 h]
  have : mapLookup m p.1 = some p.2 := (lookup_eq_some_of_nodup (mapItems m) hnd p.1 p.2).2 hp
  rw [this]

/-- `m == d` for a dict `d` (given by its items, distinct keys) holds exactly when both stand for the same finite map -/
theorem mapEq_iff (m : SMap) (other : List (Int × Nat)) (h : MapWf m) (ho : (other.map (·.1)).Nodup) :
    mapEq m other = true ↔ ∀ k, mapLookup m k = other.lookup k := by
  have hnd := keys_nodup_of_wf h
  unfold mapEq
  rw [mapIterItems_eq m h]
  have hd : dictOf [] (mapItems m) = mapItems m := by
    have := dictOf_append_fresh [] (mapItems m) (by simpa using hnd)
    simpa using this
  rw [hd, dictEq_iff _ _ hnd ho]
  rfl

/-! ### MutableMapping.clear -/

theorem mapClear_spec (m : SMap) (h : MapWf m) :
    mapClear (m.keys.length + 1) m = ⟨[], []⟩ ∧ MapWf (mapClear (m.keys.length + 1) m) := by
  have key : ∀ (keys : List Int) (vals : List Nat), MapWf ⟨keys, vals⟩ →
      mapClear (keys.length + 1) ⟨keys, vals⟩ = ⟨[], []⟩ := by
    intro keys
    induction keys with
    | nil =>
      intro vals hw
      cases vals with
      | nil => rfl
      | cons v vs => exact absurd hw.2 (by simp)
    | cons k ks ih =>
      intro vals hw
      cases vals with
      | nil => exact absurd hw.2 (by simp)
      | cons v vs =>
        have hp := mapPopitem_spec ⟨k :: ks, v :: vs⟩ hw
        simp only at hp
        rw [List.length_cons, mapClear, hp]
        simp only
        apply ih
        exact ⟨(List.pairwise_cons.1 hw.1).2, by have := hw.2; simpa using this⟩
  obtain ⟨keys, vals⟩ := m
  have := key keys vals h
  refine ⟨this, ?_⟩
  rw [this]
  exact ⟨List.Pairwise.nil, rfl⟩

/-! ### Set: comparisons -/

theorem strict_nodup {s : List Int} (h : Strict s) : s.Nodup :=
  List.Pairwise.imp (fun {a b : Int} (hab : a < b) => by omega) h

theorem setLe_iff (s t : List Int) (h : Strict s) : setLe s t = true ↔ ∀ y, y ∈ s → y ∈ t := by
  unfold setLe
  constructor
  · intro hle
    split at hle
    · cases hle
    · rw [List.all_eq_true] at hle
      intro y hy
      have := hle y hy
      simpa using this
  · intro hsub
    have hlen : s.length ≤ t.length := (strict_nodup h).length_le_of_subset (fun y hy => hsub y hy)
    rw [if_neg (by omega), List.all_eq_true]
    intro y hy
    simpa using hsub y hy

theorem setEq_iff (s t : List Int) (h : Strict s) (ht : t.Nodup) : setEq s t = true ↔ ∀ y, y ∈ s ↔ y ∈ t := by
  unfold setEq
  rw [Bool.and_eq_true, beq_iff_eq, setLe_iff s t h]
  constructor
  · rintro ⟨hlen, hsub⟩ y
    refine ⟨hsub y, fun hy => ?_⟩
    exact subset_of_nodup_length_le s t (strict_nodup h) ht (fun y hy => hsub y hy) (by omega) hy
  · intro hm
    exact ⟨((List.perm_ext_iff_of_nodup (strict_nodup h) ht).2 hm).length_eq, fun y => (hm y).1⟩

theorem setIsDisjoint_iff (s t : List Int) (h : Strict s) :
    setIsDisjoint s t = true ↔ ∀ y, ¬ (y ∈ s ∧ y ∈ t) := by
  unfold setIsDisjoint
  rw [List.all_eq_true]
  constructor
  · intro hd y ⟨hs, ht⟩
    have := hd y ht
    rw [setContains_num s y h] at this
    simp [hs] at this
  · intro hd y hy
    rw [setContains_num s y h]
    have := hd y
    simp only [not_and] at this
    simp only [Bool.not_eq_eq_eq_not, Bool.not_true, decide_eq_false_iff_not]
    exact fun hs => this hs hy

/-! ### Set: operators (each result is built by the class constructor, so it is strictly ascending) -/

theorem setAnd_strict (s t : List Int) : Strict (setAnd s t) := setInit_strict _
theorem setOr_strict (s t : List Int) : Strict (setOr s t) := setInit_strict _
theorem setSub_strict (s t : List Int) : Strict (setSub s t) := setInit_strict _
theorem setRSub_strict (s t : List Int) : Strict (setRSub s t) := setInit_strict _
theorem setXor_strict (s t : List Int) : Strict (setXor s t) := setInit_strict _

theorem setAnd_mem (s t : List Int) (y : Int) (h : Strict s) : y ∈ setAnd s t ↔ (y ∈ s ∧ y ∈ t) := by
  unfold setAnd
  rw [setInit_mem, List.mem_filter, setContains_num s y h]
  simp only [decide_eq_true_eq]
  exact And.comm

theorem setOr_mem (s t : List Int) (y : Int) : y ∈ setOr s t ↔ (y ∈ s ∨ y ∈ t) := by
  unfold setOr
  rw [setInit_mem, List.mem_append]

theorem setSub_mem (s t : List Int) (y : Int) : y ∈ setSub s t ↔ (y ∈ s ∧ y ∉ t) := by
  unfold setSub
  rw [setInit_mem, List.mem_filter]
  simp

theorem setRSub_mem (s t : List Int) (y : Int) (h : Strict s) : y ∈ setRSub s t ↔ (y ∈ t ∧ y ∉ s) := by
  unfold setRSub
  rw [setInit_mem, List.mem_filter, setContains_num s y h]
  simp

theorem setXor_mem (s t : List Int) (y : Int) (h : Strict s) :
    y ∈ setXor s t ↔ ((y ∈ s ∧ y ∉ t) ∨ (y ∈ t ∧ y ∉ s)) := by
  unfold setXor
  rw [setOr_mem, setSub_mem, setRSub_mem s t y h]

/-! ### MutableSet: the in-place operators -/

theorem foldl_setAdd (t : List Int) : ∀ (s : List Int), Strict s →
    Strict (t.foldl setAdd s) ∧ ∀ y, y ∈ t.foldl setAdd s ↔ (y ∈ s ∨ y ∈ t) := by
  induction t with
  | nil => intro s h; exact ⟨h, fun y => by simp⟩
  | cons v r ih =>
    intro s h
    obtain ⟨h1, h2⟩ := ih (setAdd s v) (setAdd_strict s v h)
    refine ⟨h1, fun y => ?_⟩
    rw [List.foldl_cons, h2 y, setAdd_mem s v y h, List.mem_cons]
    constructor
    · rintro ((h' | h') | h')
      · exact Or.inr (Or.inl h')
      · exact Or.inl h'
      · exact Or.inr (Or.inr h')
    · rintro (h' | h' | h')
      · exact Or.inl (Or.inr h')
      · exact Or.inl (Or.inl h')
      · exact Or.inr h'

theorem foldl_setDiscard (t : List Int) : ∀ (s : List Int), Strict s →
    Strict (t.foldl setDiscard s) ∧ ∀ y, y ∈ t.foldl setDiscard s ↔ (y ∈ s ∧ y ∉ t) := by
  induction t with
  | nil => intro s h; exact ⟨h, fun y => by simp⟩
  | cons v r ih =>
    intro s h
    obtain ⟨h1, h2⟩ := ih (setDiscard s v) (setDiscard_strict s v h)
    refine ⟨h1, fun y => ?_⟩
    rw [List.foldl_cons, h2 y, setDiscard_mem s v y h, List.mem_cons]
    constructor
    · rintro ⟨⟨h3, h4⟩, h5⟩
      exact ⟨h4, fun hc => hc.elim h3 h5⟩
    · rintro ⟨h3, h4⟩
      exact ⟨⟨fun hc => h4 (Or.inl hc), h3⟩, fun hc => h4 (Or.inr hc)⟩

theorem setToggle_strict (s : List Int) (v : Int) (h : Strict s) :
    Strict (if setContains s (.num v) then setDiscard s v else setAdd s v) := by
  split
  · exact setDiscard_strict s v h
  · exact setAdd_strict s v h

theorem setToggle_mem (s : List Int) (v y : Int) (h : Strict s) :
    y ∈ (if setContains s (.num v) then setDiscard s v else setAdd s v) ↔
      ((y ∈ s ∧ y ≠ v) ∨ (y = v ∧ v ∉ s)) := by
  rw [setContains_num s v h]
  by_cases hv : v ∈ s
  · simp only [hv, decide_true, if_true, setDiscard_mem s v y h, not_true_eq_false, and_false, or_false]
    exact And.comm
  · simp only [hv, decide_false, Bool.false_eq_true, if_false, setAdd_mem s v y h, not_false_eq_true, and_true]
    constructor
    · rintro (h' | h')
      · exact Or.inr h'
      · exact Or.inl ⟨h', fun hc => hv (hc ▸ h')⟩
    · rintro (h' | h')
      · exact Or.inr h'.1
      · exact Or.inl h'

theorem foldl_setToggle (t : List Int) : ∀ (s : List Int), Strict s → t.Nodup →
    Strict (t.foldl (fun s v => if setContains s (.num v) then setDiscard s v else setAdd s v) s) ∧
    ∀ y, y ∈ t.foldl (fun s v => if setContains s (.num v) then setDiscard s v else setAdd s v) s ↔
      ((y ∈ s ∧ y ∉ t) ∨ (y ∈ t ∧ y ∉ s)) := by
  induction t with
  | nil => intro s h _; exact ⟨h, fun y => by simp⟩
  | cons v r ih =>
    intro s h hnd
    rw [List.nodup_cons] at hnd
    obtain ⟨h1, h2⟩ := ih _ (setToggle_strict s v h) hnd.2
    refine ⟨h1, fun y => ?_⟩
    rw [List.foldl_cons, h2 y, setToggle_mem s v y h, List.mem_cons]
    by_cases hyv : y = v
    · subst hyv
      have := hnd.1
      by_cases hys : y ∈ s <;> simp [this, hys]
    · by_cases hys : y ∈ s <;> by_cases hyr : y ∈ r <;> simp [hyv, hys, hyr]

theorem setIor_strict (s t : List Int) (h : Strict s) : Strict (setIor s t) := (foldl_setAdd t s h).1
theorem setIsub_strict (s t : List Int) (h : Strict s) : Strict (setIsub s t) := (foldl_setDiscard t s h).1
theorem setIand_strict (s t : List Int) (h : Strict s) : Strict (setIand s t) := (foldl_setDiscard _ s h).1
theorem setIxor_strict (s t : List Int) (h : Strict s) (ht : t.Nodup) : Strict (setIxor s t) :=
  (foldl_setToggle t s h ht).1

theorem setIor_mem (s t : List Int) (y : Int) (h : Strict s) : y ∈ setIor s t ↔ (y ∈ s ∨ y ∈ t) :=
  (foldl_setAdd t s h).2 y

theorem setIsub_mem (s t : List Int) (y : Int) (h : Strict s) : y ∈ setIsub s t ↔ (y ∈ s ∧ y ∉ t) :=
  (foldl_setDiscard t s h).2 y

theorem setIand_mem (s t : List Int) (y : Int) (h : Strict s) : y ∈ setIand s t ↔ (y ∈ s ∧ y ∈ t) := by
  unfold setIand
  rw [(foldl_setDiscard _ s h).2 y, setSub_mem]
  constructor
  · rintro ⟨h1, h2⟩
    refine ⟨h1, ?_⟩
    apply Classical.byContradiction
    intro hn; exact h2 ⟨h1, hn⟩
  · rintro ⟨h1, h2⟩
    exact ⟨h1, fun hc => hc.2 h2⟩

theorem setIxor_mem (s t : List Int) (y : Int) (h : Strict s) (ht : t.Nodup) :
    y ∈ setIxor s t ↔ ((y ∈ s ∧ y ∉ t) ∨ (y ∈ t ∧ y ∉ s)) :=
  (foldl_setToggle t s h ht).2 y

/-- the in-place operators leave exactly the list the pure operator builds -/
theorem setIor_eq (s t : List Int) (h : Strict s) : setIor s t = setOr s t :=
  strict_unique _ _ (setIor_strict s t h) (setOr_strict s t)
    (fun y => by rw [setIor_mem s t y h, setOr_mem])

theorem setIand_eq (s t : List Int) (h : Strict s) : setIand s t = setAnd s t :=
  strict_unique _ _ (setIand_strict s t h) (setAnd_strict s t)
    (fun y => by rw [setIand_mem s t y h, setAnd_mem s t y h])

theorem setIsub_eq (s t : List Int) (h : Strict s) : setIsub s t = setSub s t :=
  strict_unique _ _ (setIsub_strict s t h) (setSub_strict s t)
    (fun y => by rw [setIsub_mem s t y h, setSub_mem])

theorem setIxor_eq (s t : List Int) (h : Strict s) (ht : t.Nodup) : setIxor s t = setXor s t :=
  strict_unique _ _ (setIxor_strict s t h ht) (setXor_strict s t)
    (fun y => by rw [setIxor_mem s t y h ht, setXor_mem s t y h])

/-! ### summaries used by the property file -/

theorem setAnd_spec (s t : List Int) (h : Strict s) :
    Strict (setAnd s t) ∧ ∀ y, y ∈ setAnd s t ↔ (y ∈ s ∧ y ∈ t) :=
  ⟨setAnd_strict s t, fun y => setAnd_mem s t y h⟩

theorem setOr_spec (s t : List Int) :
    Strict (setOr s t) ∧ ∀ y, y ∈ setOr s t ↔ (y ∈ s ∨ y ∈ t) :=
  ⟨setOr_strict s t, fun y => setOr_mem s t y⟩

theorem setSub_spec (s t : List Int) :
    Strict (setSub s t) ∧ ∀ y, y ∈ setSub s t ↔ (y ∈ s ∧ y ∉ t) :=
  ⟨setSub_strict s t, fun y => setSub_mem s t y⟩

theorem setXor_spec (s t : List Int) (h : Strict s) :
    Strict (setXor s t) ∧ ∀ y, y ∈ setXor s t ↔ ((y ∈ s ∧ y ∉ t) ∨ (y ∈ t ∧ y ∉ s)) :=
  ⟨setXor_strict s t, fun y => setXor_mem s t y h⟩

theorem setIor_spec (s t : List Int) (h : Strict s) :
    Strict (setIor s t) ∧ ∀ y, y ∈ setIor s t ↔ (y ∈ s ∨ y ∈ t) :=
  ⟨setIor_strict s t h, fun y => setIor_mem s t y h⟩

theorem setIand_spec (s t : List Int) (h : Strict s) :
    Strict (setIand s t) ∧ ∀ y, y ∈ setIand s t ↔ (y ∈ s ∧ y ∈ t) :=
  ⟨setIand_strict s t h, fun y => setIand_mem s t y h⟩

theorem setIsub_spec (s t : List Int) (h : Strict s) :
    Strict (setIsub s t) ∧ ∀ y, y ∈ setIsub s t ↔ (y ∈ s ∧ y ∉ t) :=
  ⟨setIsub_strict s t h, fun y => setIsub_mem s t y h⟩

theorem setIxor_spec (s t : List Int) (h : Strict s) (ht : t.Nodup) :
    Strict (setIxor s t) ∧ ∀ y, y ∈ setIxor s t ↔ ((y ∈ s ∧ y ∉ t) ∨ (y ∈ t ∧ y ∉ s)) :=
  ⟨setIxor_strict s t h ht, fun y => setIxor_mem s t y h ht⟩

end WindVerif.Sorted
