import WindVerif.Proofs.PoolSafeAux5
/-!
Auxiliary development for `PoolSafe.lean`, part 6: the invariant is preserved by every step of the consumer.
-/
namespace WindVerif.Pool
open List

/-- once `_sending_work` has been read as `False`, the feeder has sent everything -/
theorem sentV_of_not_sending {g : CSig} {cur : Option Call} {fpc : FPc} {dataCnt fNext fTotal fRead : Nat}
    {fAlive fStop : Bool} {finished : Nat}
    (hc : CtlV g cur fpc false dataCnt fNext fTotal fRead fAlive fStop finished) (hpre : g.pre = false)
    (hcur : cur.isSome = true) : sentV g.pre cur fpc fNext fTotal = fTotal := by
  have h2 := hc.sendingTrue hpre hcur
  obtain ⟨c, hcc⟩ := Option.isSome_iff_exists.1 hcur
  rw [hpre, hcc]
  cases fpc <;> simp_all [sentV]

theorem safe_stepC (s s' : St) (h : SafeInv s) (hs : stepC s = some s') : SafeInv s' := by
  obtain ⟨hc, hd, ho, hw⟩ := (safe_iff s).1 h
  unfold stepC at hs
  split at hs
  · -- enterStart
    rename_i i hpc
    split at hs
    · simp at hs
    · split at hs
      · simp at hs
      · rename_i wid _ _ w hg
        have hpre : (csig s.cpc).pre = true := by rw [hpc]; rfl
        have hquiet := data_quiet hd (by intro _; rw [hpre]; simp [sentV])
        have hheld : w.held = none :=
          held_none_of_heldL_nil s.workers ((flight_nil_iff _ _ _).1 hquiet.1).2.1 w (mem_of_find?_eq_some hg)
        have hridle : s.rpc = .idle := hw.enterR (by rw [hpc]; rfl)
        have h1 : SafeInv (setWorker s { w with pc := .bfClear }) :=
          safe_setWorkerG s h wid w _ hg (by exact (getWorker_wid hg : w.wid = wid)) s.workQ s.resQ s.replQ s.lock s.rpc
            (Perm.refl _) (by exact heldOk_of_none hheld) (by intro nw hr; rw [hridle] at hr; simp at hr)
            (fun _ => hridle)
        simp only [] at hs
        split at hs
        · simp only [Option.some.injEq] at hs
          subst hs
          exact safe_cpc' _ h1 (.enterStart (i + 1)) (by show ctlBits _ = ctlBits (csig s.cpc); rw [hpc]; rfl)
            (fun _ => hquiet.2.1) (fun _ => hridle)
        · simp only [Option.some.injEq] at hs
          subst hs
          unfold afterEnter
          split
          · exact safe_cpc' _ h1 (.readyWait 0) (by show ctlBits _ = ctlBits (csig s.cpc); rw [hpc]; rfl)
              (fun _ => hquiet.2.1) (fun _ => hridle)
          · rw [toNextCall_cpc]
            exact safe_toNextCall _ h1 (Or.inl hpre)
  · -- readyWait
    rename_i i hpc
    have hpre : (csig s.cpc).pre = true := by rw [hpc]; rfl
    have hbt : s.batch = [] := hd.batchEmpty (by rw [hpc]; rfl)
    split at hs
    · simp at hs
    · split at hs
      · simp at hs
      · split at hs
        · split at hs
          · simp only [Option.some.injEq] at hs
            subst hs
            exact safe_cpc' s h (.readyWait (i + 1)) (by rw [hpc]; rfl) (fun _ => hbt)
              (by intro he; simp [csig, enPc] at he)
          · simp only [Option.some.injEq] at hs
            subst hs
            rw [toNextCall_cpc]
            exact safe_toNextCall s h (Or.inl hpre)
        · simp at hs
  · -- nextCall
    rename_i hpc
    simp only [Option.some.injEq] at hs
    subst hs
    exact safe_toNextCall s h (Or.inl (by rw [hpc]; rfl))
  · -- rInitSet
    rename_i hpc
    have hbt : s.batch = [] := hd.batchEmpty (by rw [hpc]; rfl)
    simp only [Option.some.injEq] at hs
    subst hs
    exact safe_cpc s h .rStart s.workQ s.resQ s.replQ s.lock s.fRun true false s.woken s.rAlive s.batch s.rpc
      (by rw [hpc]; rfl) rfl rfl rfl (fun _ => hbt) (fun _ hr => hr) (by intro he; simp [csig, enPc] at he)
  · -- rStart
    rename_i hpc
    have hbt : s.batch = [] := hd.batchEmpty (by rw [hpc]; rfl)
    simp only [Option.some.injEq] at hs
    subst hs
    exact safe_cpc s h .fInitSet s.workQ s.resQ s.replQ s.lock s.fRun s.rRun s.rStop s.woken true s.batch .get
      (by rw [hpc]; rfl) rfl rfl rfl (fun _ => hbt) (by intro nw hr; simp at hr) (by intro he; simp [csig, enPc] at he)
  · -- fInitSet
    rename_i hpc
    rw [hpc] at hc hd hw
    simp only [Option.some.injEq] at hs
    subst hs
    exact (safe_iff _).2 ⟨ctl_C_fInitSet hc, hd, ho, hw⟩
  · -- wrSending
    rename_i hpc
    rw [hpc] at hc hd hw
    simp only [Option.some.injEq] at hs
    subst hs
    exact (safe_iff _).2 ⟨ctl_C_wrSending hc, hd, ho, hw⟩
  · -- wrDataCnt
    rename_i hpc
    rw [hpc] at hc hd hw
    simp only [Option.some.injEq] at hs
    subst hs
    exact (safe_iff _).2 ⟨ctl_C_wrDataCnt hc, hd, ho, hw⟩
  · -- fStart
    rename_i hpc
    rw [hpc] at hc hd hw
    split at hs
    · simp at hs
    · rename_i call hcur
      simp only [Option.some.injEq] at hs
      subst hs
      rw [hcur] at hc hd
      rw [safe_iff]
      show CtlV (csig .rdSending) s.cur _ _ _ _ _ _ _ _ _ ∧ DataV (csig .rdSending).be s.cur
        (sentV (csig .rdSending).pre s.cur _ _ _) _ _ _ _ _ _ ∧ _ ∧ _
      rw [hcur]
      refine ⟨ctl_C_fStart hc, data_n hd (fun _ => ?_), ho, hw⟩
      show sentV false _ _ _ _ = sentV true _ _ _ _
      by_cases hz : call.chunks = 0 <;> simp [sentV, hz]
  · -- rdSending
    rename_i hpc
    have hbt : s.batch = [] := hd.batchEmpty (by rw [hpc]; rfl)
    split at hs
    · simp only [Option.some.injEq] at hs
      subst hs
      exact safe_cpc' s h .qsize1 (by rw [hpc]; rfl) (fun _ => hbt) (by intro he; simp [csig, enPc] at he)
    · rename_i hsend
      rw [hpc] at hc hd hw
      simp only [Option.some.injEq] at hs
      subst hs
      exact (safe_iff _).2 ⟨ctl_C_rdSending_f hc (by simpa using hsend), hd, ho, hw⟩
  · -- rdDataCnt
    rename_i hpc
    rw [hpc] at hc hd hw
    split at hs
    · simp only [Option.some.injEq] at hs
      subst hs
      exact (safe_iff _).2 ⟨ctl_C_rdDataCnt_t hc, hd, ho, hw⟩
    · rename_i hn
      simp only [Option.some.injEq] at hs
      subst hs
      refine (safe_iff _).2 ⟨ctl_C_rdDataCnt_f hc hn ?_, hd, ho, hw⟩
      intro hcur hsend
      have := data_fin_le hd hcur
      rw [hsend] at hc
      rw [sentV_of_not_sending hc rfl hcur] at this
      exact this
  · -- qsize1
    rename_i hpc
    have hbt : s.batch = [] := hd.batchEmpty (by rw [hpc]; rfl)
    split at hs
    · simp only [Option.some.injEq] at hs
      subst hs
      exact safe_cpc s h .lockAcq s.workQ s.resQ s.replQ s.lock s.fRun s.rRun s.rStop false s.rAlive [] s.rpc
        (by rw [hpc]; rfl) rfl rfl hbt.symm (fun _ => hbt) (fun _ hr => hr) (by intro he; simp [csig, enPc] at he)
    · simp only [Option.some.injEq] at hs
      subst hs
      exact safe_cpc' s h .getBlock (by rw [hpc]; rfl) (fun _ => hbt) (by intro he; simp [csig, enPc] at he)
  · -- lockAcq
    rename_i hpc
    split at hs
    · simp only [Option.some.injEq] at hs
      subst hs
      exact safe_cpc s h .qsize2 s.workQ s.resQ s.replQ (some .c) s.fRun s.rRun s.rStop s.woken s.rAlive s.batch s.rpc
        (by rw [hpc]; rfl) rfl rfl rfl (by intro he; simp [csig, bePc] at he) (fun _ hr => hr)
        (by intro he; simp [csig, enPc] at he)
    · simp at hs
  · -- qsize2
    rename_i hpc
    split at hs
    · simp only [Option.some.injEq] at hs
      subst hs
      exact safe_cpc' s h .getNowait (by rw [hpc]; rfl) (by intro he; simp [csig, bePc] at he)
        (by intro he; simp [csig, enPc] at he)
    · simp only [Option.some.injEq] at hs
      subst hs
      exact safe_cpc' s h .lockRel (by rw [hpc]; rfl) (by intro he; simp [csig, bePc] at he)
        (by intro he; simp [csig, enPc] at he)
  · -- getNowait
    rename_i hpc
    split at hs
    · simp only [Option.some.injEq] at hs
      subst hs
      exact safe_cpc' s h .lockRel (by rw [hpc]; rfl) (by intro he; simp [csig, bePc] at he)
        (by intro he; simp [csig, enPc] at he)
    · rename_i r hq
      simp only [Option.some.injEq] at hs
      subst hs
      exact safe_cpc s h .qsize2 s.workQ r s.replQ s.lock s.fRun s.rRun s.rStop true s.rAlive s.batch s.rpc
        (by rw [hpc]; rfl) rfl (by rw [hq]; simp) rfl (by intro he; simp [csig, bePc] at he) (fun _ hr => hr)
        (by intro he; simp [csig, enPc] at he)
    · rename_i i r hq
      rw [hpc] at hc hd hw
      simp only [Option.some.injEq] at hs
      subst hs
      refine (safe_iff _).2 ⟨hc, data_take hd ?_ rfl, ho, hw⟩
      rw [hq]; unfold flightL; perm_solve
  · -- lockRel
    rename_i hpc
    simp only [] at hs
    split at hs
    · simp only [Option.some.injEq] at hs
      subst hs
      exact safe_afterResults { s with lock := none } (by show ctlBits (csig s.cpc) = _; rw [hpc]; rfl) hc
        (data_be hd (by intro hb; simp at hb)) ho hw
    · rename_i hno
      have hbt : s.batch = [] := by
        have : ¬ s.batch.length > 0 := fun hb => hno (Or.inl hb)
        exact length_eq_zero_iff.1 (by omega)
      simp only [Option.some.injEq] at hs
      subst hs
      exact safe_cpc s h .getBlock s.workQ s.resQ s.replQ none s.fRun s.rRun s.rStop s.woken s.rAlive s.batch s.rpc
        (by rw [hpc]; rfl) rfl rfl rfl (fun _ => hbt) (fun _ hr => hr) (by intro he; simp [csig, enPc] at he)
  · -- getBlock
    rename_i hpc
    have hbt : s.batch = [] := hd.batchEmpty (by rw [hpc]; rfl)
    rw [hbt] at hd
    split at hs
    · simp at hs
    · rename_i r hq
      simp only [Option.some.injEq] at hs
      subst hs
      refine safe_afterResults { s with resQ := r, batch := [] } (by show ctlBits (csig s.cpc) = _; rw [hpc]; rfl) hc
        ?_ ho hw
      refine data_batch_nil (data_perm hd ?_) rfl
      rw [hq]
      show (flightL s.workQ s.workers r).Perm _
      simp [flightL]
    · rename_i i r hq
      simp only [Option.some.injEq] at hs
      subst hs
      refine safe_afterResults { s with resQ := r, batch := [i] } (by show ctlBits (csig s.cpc) = _; rw [hpc]; rfl) hc
        ?_ ho hw
      refine data_take (batch := []) hd ?_ rfl
      rw [hq]; unfold flightL; perm_solve
  · -- flowClear
    rename_i hpc
    have hbt : s.batch = [] := hd.batchEmpty (by rw [hpc]; rfl)
    simp only [Option.some.injEq] at hs
    subst hs
    exact safe_cpc s h .rdSending s.workQ s.resQ s.replQ s.lock false s.rRun s.rStop s.woken s.rAlive s.batch s.rpc
      (by rw [hpc]; rfl) rfl rfl rfl (fun _ => hbt) (fun _ hr => hr) (by intro he; simp [csig, enPc] at he)
  · -- flowIsSet
    rename_i hpc
    have hbt : s.batch = [] := hd.batchEmpty (by rw [hpc]; rfl)
    split at hs
    · simp only [Option.some.injEq] at hs
      subst hs
      exact safe_cpc' s h .rdSending (by rw [hpc]; rfl) (fun _ => hbt) (by intro he; simp [csig, enPc] at he)
    · simp only [Option.some.injEq] at hs
      subst hs
      exact safe_cpc' s h .flowSet (by rw [hpc]; rfl) (fun _ => hbt) (by intro he; simp [csig, enPc] at he)
  · -- flowSet
    rename_i hpc
    have hbt : s.batch = [] := hd.batchEmpty (by rw [hpc]; rfl)
    simp only [Option.some.injEq] at hs
    subst hs
    exact safe_cpc s h .rdSending s.workQ s.resQ s.replQ s.lock true s.rRun s.rStop s.woken s.rAlive s.batch s.rpc
      (by rw [hpc]; rfl) rfl rfl rfl (fun _ => hbt) (fun _ hr => hr) (by intro he; simp [csig, enPc] at he)
  · -- fStopSet
    rename_i hpc
    rw [hpc] at hc hd hw
    simp only [Option.some.injEq] at hs
    subst hs
    exact (safe_iff _).2 ⟨ctl_C_fStopSet hc, hd, ho, hw⟩
  · -- fJoin
    rename_i hpc
    split at hs
    · simp at hs
    · rename_i ha
      have ha' : s.fAlive = false := by simpa using ha
      split at hs
      · rw [hpc] at hc hd hw
        simp only [Option.some.injEq] at hs
        subst hs
        exact (safe_iff _).2 ⟨ctl_C_fJoin hc ha', hd, ho, hw⟩
      · simp only [Option.some.injEq] at hs
        subst hs
        rw [toNextCall_cpc]
        exact safe_toNextCall s h (Or.inr ⟨by rw [hpc]; rfl, ctl_idle_of_dead hc ha'⟩)
  · -- rPutNone
    rename_i hpc
    have hbt : s.batch = [] := hd.batchEmpty (by rw [hpc]; rfl)
    simp only [Option.some.injEq] at hs
    subst hs
    exact safe_cpc s h .rStopSet s.workQ s.resQ (s.replQ ++ [none]) s.lock s.fRun s.rRun s.rStop s.woken s.rAlive
      s.batch s.rpc (by rw [hpc]; rfl) rfl rfl rfl (fun _ => hbt) (fun _ hr => hr)
      (by intro he; simp [csig, enPc] at he)
  · -- rStopSet
    rename_i hpc
    have hbt : s.batch = [] := hd.batchEmpty (by rw [hpc]; rfl)
    simp only [Option.some.injEq] at hs
    subst hs
    exact safe_cpc s h .rJoin s.workQ s.resQ s.replQ s.lock s.fRun s.rRun true s.woken s.rAlive
      s.batch s.rpc (by rw [hpc]; rfl) rfl rfl rfl (fun _ => hbt) (fun _ hr => hr)
      (by intro he; simp [csig, enPc] at he)
  · -- rJoin
    rename_i hpc
    split at hs
    · simp at hs
    · simp only [Option.some.injEq] at hs
      subst hs
      rw [toNextCall_cpc]
      exact safe_toNextCall s h (Or.inr ⟨by rw [hpc]; rfl, hc.postF (by rw [hpc]; rfl)⟩)
  · -- exitPut
    rename_i i hpc
    have hbt : s.batch = [] := hd.batchEmpty (by rw [hpc]; rfl)
    split at hs
    · split at hs
      · simp only [Option.some.injEq] at hs
        subst hs
        exact safe_cpc' s h .done (by rw [hpc]; rfl) (fun _ => hbt) (by intro he; simp [csig, enPc] at he)
      · simp at hs
    · simp only [] at hs
      split at hs
      · simp only [Option.some.injEq] at hs
        subst hs
        exact safe_cpc s h (.exitPut (i + 1)) (s.workQ ++ [none]) s.resQ s.replQ s.lock s.fRun s.rRun s.rStop s.woken
          s.rAlive s.batch s.rpc (by rw [hpc]; rfl) (by simp) rfl rfl (fun _ => hbt) (fun _ hr => hr)
          (by intro he; simp [csig, enPc] at he)
      · simp only [Option.some.injEq] at hs
        subst hs
        exact safe_cpc s h _ (s.workQ ++ [none]) s.resQ s.replQ s.lock s.fRun s.rRun s.rStop s.woken
          s.rAlive s.batch s.rpc (by rw [exitJoinFrom_sig, hpc]; rfl) (by simp) rfl rfl (fun _ => hbt) (fun _ hr => hr)
          (by intro he; rw [exitJoinFrom_sig] at he; simp [csig, enPc] at he)
  · -- exitJoin
    rename_i i hpc
    have hbt : s.batch = [] := hd.batchEmpty (by rw [hpc]; rfl)
    split at hs
    · simp at hs
    · split at hs
      · simp only [Option.some.injEq] at hs
        subst hs
        exact safe_cpc' s h _ (by rw [exitJoinFrom_sig, hpc]; rfl) (fun _ => hbt)
          (by intro he; rw [exitJoinFrom_sig] at he; simp [csig, enPc] at he)
      · simp at hs
  · -- midReady
    rename_i i wid hpc
    have hbt : s.batch = [] := hd.batchEmpty (by rw [hpc]; rfl)
    split at hs
    · simp at hs
    · split at hs
      · split at hs
        · simp only [Option.some.injEq] at hs
          subst hs
          exact safe_cpc' s h _ (by rw [hpc]; rfl) (fun _ => hbt) (by intro he; simp [csig, enPc] at he)
        · simp only [Option.some.injEq] at hs
          subst hs
          exact safe_afterBatch s h (by rw [hpc]; rfl) hbt
      · simp at hs
  · -- done
    simp at hs

end WindVerif.Pool
