import WindVerif.Proofs.PoolSafeAux4
/-!
Auxiliary development for `PoolSafe.lean`, part 5: the invariant is preserved by the steps of the consumer.
-/
namespace WindVerif.Pool
open List

/-- the bits of the signature the control part looks at -/
def ctlBits (g : CSig) : List Bool := [g.pre, g.post, g.exit, g.rd, g.rj, g.ws, g.wd, g.fs]

/-- the consumer moves to a pc with the same control signature; fields the invariant does not look at may change, queues
may change by wake-up tokens / stop orders -/
theorem safe_cpc (s : St) (h : SafeInv s) (pc' : CPc) (wq' rq' pq' : List (Option Nat)) (lk' : Option Tid)
    (fr' rr' rs' wk' ra' : Bool) (batch' : List Nat) (rpc' : RPc)
    (hbits : ctlBits (csig pc') = ctlBits (csig s.cpc))
    (hwq : chunksOf wq' = chunksOf s.workQ) (hrq : chunksOf rq' = chunksOf s.resQ) (hbt : batch' = s.batch)
    (hbe : (csig pc').be = true → s.batch = [])
    (hrs : ∀ nw, rpc' = .start nw → s.rpc = .start nw) (hen : (csig pc').en = true → rpc' = .idle) :
    SafeInv { s with workQ := wq', resQ := rq', replQ := pq', lock := lk', fRun := fr', rRun := rr', rStop := rs',
                     cpc := pc', woken := wk', rAlive := ra', batch := batch', rpc := rpc' } := by
  subst hbt
  rw [safe_iff] at h ⊢
  obtain ⟨hc, hd, ho, hw⟩ := h
  simp only [ctlBits, cons.injEq, and_true] at hbits
  obtain ⟨e1, e2, e3, e4, e5, e6, e7, e8⟩ := hbits
  refine ⟨ctl_congr hc (sigOk_csig _) e1 e2 e3 e4 e5 e6 e7 e8, ?_, ho, wrk_rpc hw hrs hen⟩
  show DataV (csig pc').be s.cur (sentV (csig pc').pre s.cur s.fpc s.fNext s.fTotal) (flightL wq' s.workers rq') s.batch
    s.buffer s.finished s.wf (curOutL s.out s.callNo)
  rw [e1]
  have : flightL wq' s.workers rq' = flightL s.workQ s.workers s.resQ := by unfold flightL; rw [hwq, hrq]
  rw [this]
  exact data_be hd hbe

/-- only the pc changes -/
theorem safe_cpc' (s : St) (h : SafeInv s) (pc' : CPc) (hbits : ctlBits (csig pc') = ctlBits (csig s.cpc))
    (hbe : (csig pc').be = true → s.batch = []) (hen : (csig pc').en = true → s.rpc = .idle) :
    SafeInv { s with cpc := pc' } :=
  safe_cpc s h pc' s.workQ s.resQ s.replQ s.lock s.fRun s.rRun s.rStop s.woken s.rAlive s.batch s.rpc hbits rfl rfl rfl
    hbe (fun _ hr => hr) hen

/-! ## `toNextCall` -/

theorem toNextCall_cpc (s : St) (pc : CPc) : toNextCall { s with cpc := pc } = toNextCall s := by
  unfold toNextCall
  cases s.callsLeft <;> rfl

theorem safe_toNextCall (s : St) (h : SafeInv s)
    (hq : (csig s.cpc).pre = true ∨ ((csig s.cpc).post = true ∧ s.fpc = .idle)) : SafeInv (toNextCall s) := by
  obtain ⟨hc, hd, ho, hw⟩ := (safe_iff s).1 h
  have hf : s.fpc = .idle := by
    rcases hq with hq | hq
    · exact hc.preIdle hq
    · exact hq.2
  have hquiet := data_quiet hd (by
    intro hcur
    rcases hq with hq | hq
    · rw [hq]; simp [sentV]
    · have hpre : (csig s.cpc).pre = false := by
        cases hp : (csig s.cpc).pre
        · rfl
        · have := (hc.sigOk.prePost hp).1; rw [hq.1] at this; simp at this
      obtain ⟨c, hcc⟩ := Option.isSome_iff_exists.1 hcur
      rw [hpre, hcc, hf]
      simp only [sentV, Bool.false_or, Option.isNone_some, Bool.false_eq_true, if_false]
      rw [(hc.post hq.1).2]
      exact Nat.le_refl _)
  have hw' : WrkV false s.rpc s.workers s.widCounter :=
    ⟨hw.wids, hw.widLt, hw.heldPc, hw.startFresh, fun he => by simp at he⟩
  unfold toNextCall
  split
  · rename_i call rest hcl
    have hd' : DataV true (some call) 0 (flightL s.workQ s.workers s.resQ) [] [] 0 0 (curOutL s.out (s.callNo + 1)) := by
      rw [curOutL_of_lt s.out s.callNo (s.callNo + 1) ho (Nat.lt_succ_self _)]
      exact data_next_some hquiet.1
    have ho' : OutLe s.out (s.callNo + 1) := OutLe_mono _ _ _ ho (Nat.le_succ _)
    simp only []
    split
    · exact (safe_iff _).2 ⟨ctl_next_some hc hf, hd', ho', hw'⟩
    · exact (safe_iff _).2 ⟨ctl_next_some hc hf, hd', ho', hw'⟩
  · have hd' : DataV true none (sentV false none s.fpc s.fNext s.fTotal) (flightL s.workQ s.workers s.resQ) s.batch
        s.buffer s.finished s.wf (curOutL s.out s.callNo) := by
      rw [hquiet.2.1, hquiet.2.2.1]
      exact data_next_none hquiet.1
    simp only []
    split
    · exact (safe_iff _).2 ⟨ctl_next_none hc hf, hd', ho, hw'⟩
    · exact (safe_iff _).2 ⟨ctl_next_none hc hf, hd', ho, hw'⟩

/-! ## `afterResults` -/

theorem bits_loop_pre {pc : CPc} (hb : ctlBits (csig pc) = ctlBits (csig .rdSending)) :
    (csig pc).pre = false ∧ (csig pc).post = false ∧ (csig pc).exit = false := by
  simp only [ctlBits, cons.injEq, and_true] at hb
  exact ⟨hb.1, hb.2.1, hb.2.2.1⟩

/-- a `_get_results` has returned: the state is as the invariant says, except that the batch is not empty -/
theorem safe_afterResults (s : St) (hloop : ctlBits (csig s.cpc) = ctlBits (csig .rdSending))
    (hc : CtlV (csig s.cpc) s.cur s.fpc s.sending s.dataCnt s.fNext s.fTotal s.fRead s.fAlive s.fStop s.finished)
    (hd : DataV false s.cur (sentV (csig s.cpc).pre s.cur s.fpc s.fNext s.fTotal) (flightL s.workQ s.workers s.resQ)
      s.batch s.buffer s.finished s.wf (curOutL s.out s.callNo))
    (ho : OutLe s.out s.callNo) (hw : WrkV (csig s.cpc).en s.rpc s.workers s.widCounter) :
    SafeInv (afterResults s) := by
  obtain ⟨hpre, hpost, hexit⟩ := bits_loop_pre hloop
  have hcur : s.cur.isSome = true := by
    cases hcc : s.cur with
    | none => have := hc.noCall hcc; simp [hpre, hexit] at this
    | some c => rfl
  obtain ⟨call, hcall⟩ := Option.isSome_iff_exists.1 hcur
  obtain ⟨buf', wf', em, hcb, hp, hord, hun⟩ := consumeBatch_spec s call hcall
  have hw' : WrkV false s.rpc s.workers s.widCounter :=
    ⟨hw.wids, hw.widLt, hw.heldPc, hw.startFresh, fun he => by simp at he⟩
  simp only [ctlBits, cons.injEq, and_true] at hloop
  obtain ⟨e1, e2, e3, e4, e5, e6, e7, e8⟩ := hloop
  have hc' : CtlV (csig .rdSending) s.cur s.fpc s.sending s.dataCnt s.fNext s.fTotal s.fRead s.fAlive s.fStop
      (s.finished + em.length) :=
    ctl_fin (ctl_congr hc (sigOk_csig _) e1.symm e2.symm e3.symm e4.symm e5.symm e6.symm e7.symm e8.symm) rfl
  have hd' : DataV true s.cur (sentV false s.cur s.fpc s.fNext s.fTotal) (flightL s.workQ s.workers s.resQ) [] buf'
      (s.finished + em.length) wf' (curOutL (s.out ++ em.map (fun j => (s.callNo, j))) s.callNo) := by
    rw [curOutL_append, curOutL_map_same]
    rw [hpre] at hd
    exact data_consume hd hcall hp hord hun
  have ho' : OutLe (s.out ++ em.map (fun j => (s.callNo, j))) s.callNo := OutLe_append_map _ _ _ ho
  have key : ∀ pc', csig pc' = csig .rdSending → SafeInv { consumeBatch s with cpc := pc' } := by
    intro pc' hpc'
    rw [hcb, safe_iff]
    show CtlV (csig pc') _ _ _ _ _ _ _ _ _ _ ∧ DataV (csig pc').be _ (sentV (csig pc').pre _ _ _ _) _ _ _ _ _ _ ∧ _ ∧
      WrkV (csig pc').en _ _ _
    rw [hpc']
    exact ⟨hc', hd', ho', hw'⟩
  obtain ⟨c', heq, hcl⟩ := afterResults_pc s
  rw [heq]
  rcases hcl with h | h | h | ⟨wid, h⟩ <;> subst h <;> exact key _ rfl

/-- leaving the mid-call `until_all_ready()`: only the pc changes, within the loop -/
theorem safe_afterBatch (s : St) (h : SafeInv s) (hloop : ctlBits (csig s.cpc) = ctlBits (csig .rdSending))
    (hbt : s.batch = []) : SafeInv (afterBatch s) := by
  obtain ⟨c', heq, hcl⟩ := afterBatch_eq s
  rw [heq]
  refine safe_cpc' s h c' ?_ (fun _ => hbt) ?_
  · rw [hloop]; rcases hcl with h | h | h <;> subst h <;> rfl
  · intro he; rcases hcl with h | h | h <;> subst h <;> simp [csig, enPc] at he

/-! ## the position in the join loop of `__exit__` -/

theorem exitJoinFrom_sig (s : St) (fuel : Nat) : ∀ i, csig (exitJoinFrom s fuel i) = csig .done := by
  induction fuel with
  | zero => intro i; rfl
  | succ f ih =>
    intro i
    unfold exitJoinFrom
    split
    · rfl
    · split
      · exact ih _
      · rfl

end WindVerif.Pool
