import WindVerif.Proofs.StorageInv6
/-! Auxiliary development for `Storage.lean`, part 7: the history layer `InvC` is inductive. -/
namespace WindVerif.Storage
set_option linter.unusedSimpArgs false

theorem LocC1.congr {scripts : List (List Op)} {s : St} {i : Nat} {p p' : Proc} (hq : p'.results = p.results)
    (h : LocC1 scripts s i p) : LocC1 scripts s i p' := by
  obtain ⟨h1, h2⟩ := h
  constructor
  · rw [hq]; exact h1
  · rw [hq]; exact h2

theorem UniqOk.of_step {scripts : List (List Op)} {s s' : St} {i : Nat} {p p' : Proc} (hp : s.procs[i]? = some p)
    (hF : StepA s s' i p p') (hL : LocA scripts s i p) (hpc : p.pc ≠ .sRel) (h : UniqOk scripts s) :
    UniqOk scripts s' := by
  intro a k b k' g t t' h1 h2
  exact h a k b k' g t t' (resultOf'_back_ok hp hF hL hpc h1) (resultOf'_back_ok hp hF hL hpc h2)

theorem EntC.of_step {scripts : List (List Op)} {s s' : St} {i : Nat} {p p' : Proc} (hp : s.procs[i]? = some p)
    (hF : StepA s s' i p p') (hS : StepB s s') (hB : InvB s) (hE : EntC scripts s)
    (hback : ∀ (g : Nat) (e : Nat × Nat), s'.index[g]? = some (some e) → s.index[g]? = some (some e))
    (hpost : postStore p.pc = true → postStore p'.pc = true ∧ p'.gid = p.gid ∧ p'.text = p.text) :
    EntC scripts s' := by
  intro g w off c' t h1 h2 h3
  have h1' := hback g _ h1
  obtain ⟨c, t0, e1, e2, e3⟩ := hB.ent g w off h1'
  obtain ⟨d, hd⟩ := hS.fileMono w c e1
  rw [hd] at h2; cases h2
  rw [getElem?_append_of_some e2] at h3; cases h3
  rcases hE g w off c t h1' e1 e2 with hf | ⟨j, q, hq, hq1, hq2, hq3⟩
  · exact Or.inl (hf.mono hp hF)
  · right
    by_cases hji : j = i
    · subst hji
      rw [hp] at hq; cases hq
      obtain ⟨p1, p2, p3⟩ := hpost hq1
      refine ⟨j, p', ?_, p1, p2.trans hq2, p3.trans hq3⟩
      rw [hF.procs, getElem?_set_proc _ _ _ _ _ _ hp]; exact Or.inl ⟨rfl, rfl⟩
    · refine ⟨j, q, ?_, hq1, hq2, hq3⟩
      rw [hF.procs, getElem?_set_proc _ _ _ _ _ _ hp]; exact Or.inr ⟨hji, hq⟩

/-- general form of the preservation of `InvC` -/
theorem InvC.step_gen {scripts : List (List Op)} {s s' : St} {i : Nat} {p p' : Proc} (hA : InvA scripts s)
    (hC : InvC scripts s) (hp : s.procs[i]? = some p) (hF : StepA s s' i p p') (hS : StepB s s')
    (h1 : LocC1 scripts s' i p') (h2 : LocC2 scripts s' p') (hent : EntC scripts s') (huniq : UniqOk scripts s') :
    InvC scripts s' := by
  refine ⟨?_, ?_, hent, huniq⟩
  · intro j q hq
    rw [hF.procs, getElem?_set_proc _ _ _ _ _ _ hp] at hq
    rcases hq with ⟨rfl, rfl⟩ | ⟨hji, hq⟩
    · exact h1
    · exact (hC.loc1 j q hq).mono hp hF hS
  · intro j q hq
    rw [hF.procs, getElem?_set_proc _ _ _ _ _ _ hp] at hq
    rcases hq with ⟨rfl, rfl⟩ | ⟨hji, hq⟩
    · exact h2
    · exact (hC.loc2 j q hq).frame hp hF hS (hA.loc j q hq) hji (hA.loc i p hp)

/-- steps that neither finish an operation nor publish an entry -/
theorem InvC.step_quiet {scripts : List (List Op)} {s s' : St} {i : Nat} {p p' : Proc} (hA : InvA scripts s)
    (hB : InvB s) (hC : InvC scripts s) (hp : s.procs[i]? = some p) (hF : StepA s s' i p p') (hS : StepB s s')
    (hq : p'.results = p.results)
    (hback : ∀ (g : Nat) (e : Nat × Nat), s'.index[g]? = some (some e) → s.index[g]? = some (some e))
    (hpost : postStore p.pc = true → postStore p'.pc = true ∧ p'.gid = p.gid ∧ p'.text = p.text)
    (hpc : p.pc ≠ .sRel) (h2 : LocC2 scripts s' p') : InvC scripts s' :=
  hC.step_gen hA hp hF hS (((hC.loc1 i p hp).mono hp hF hS).congr hq) h2
    (hC.entC.of_step hp hF hS hB hback hpost) (hC.uniqOk.of_step hp hF (hA.loc i p hp) hpc)

theorem LocA.op_at {scripts : List (List Op)} {s : St} {i : Nat} {p : Proc} (hL : LocA scripts s i p) {op : Op}
    (hop : curOp p = some op) : ∃ sc, scripts[i]? = some sc ∧ sc[p.results.length]? = some op := by
  obtain ⟨sc, h1, h2⟩ := hL.hist
  refine ⟨sc, h1, ?_⟩
  rw [hop] at h2
  have : (sc.drop p.results.length)[0]? = some op := by rw [h2]; rfl
  simpa using this

/-- steps that finish an operation other than a successful store -/
theorem InvC.step_finish {scripts : List (List Op)} {s s' : St} {i : Nat} {p p' : Proc} (hA : InvA scripts s)
    (hB : InvB s) (hC : InvC scripts s) (hp : s.procs[i]? = some p) (hF : StepA s s' i p p') (hS : StepB s s')
    {r : Res} (hres : p'.results = p.results ++ [r])
    (hback : ∀ (g : Nat) (e : Nat × Nat), s'.index[g]? = some (some e) → s.index[g]? = some (some e))
    (hpost : postStore p.pc = false) (hent : isEntry p'.pc = true) {op : Op} (hop : curOp p = some op)
    (hst : ∀ g t, op = .store g t → (r = .ok ∨ r = .valueError) ∧ stored' s g = true)
    (hrd : ∀ g, op = .read g → r = .indexError ∨ ∃ t, Fin scripts s g t ∧ r = .text [some t, none]) :
    InvC scripts s' := by
  obtain ⟨sc, hsc, hat⟩ := (hA.loc i p hp).op_at hop
  have hpc : p.pc ≠ .sRel := by intro h; simp [h, postStore] at hpost
  refine hC.step_gen hA hp hF hS ?_ (LocC2.of_entry hent)
    (hC.entC.of_step hp hF hS hB hback (by simp [hpost])) (hC.uniqOk.of_step hp hF (hA.loc i p hp) hpc)
  refine ((hC.loc1 i p hp).mono hp hF hS).finish hsc hat hres ?_ ?_
  · intro g t h
    obtain ⟨h1, h2⟩ := hst g t h
    exact ⟨h1, stored'_mono hS h2⟩
  · intro g h
    rcases hrd g h with h1 | ⟨t, h1, h2⟩
    · exact Or.inl h1
    · exact Or.inr ⟨t, h1.mono hp hF, h2⟩

theorem InvC.fin_stored {scripts : List (List Op)} {s : St} (hC : InvC scripts s) {g t : Nat}
    (h : Fin scripts s g t) : stored' s g = true := by
  obtain ⟨j, k, h⟩ := h
  rw [resultOf'_some] at h
  obtain ⟨sc, p, h1, h2, h3, h4⟩ := h
  exact ((hC.loc1 j p h2).resStore sc k g t _ h1 h3 h4).2

set_option hygiene false in
macro "stepC " name:ident pc:term " => " tac:tacticSeq : command =>
  `(theorem $name {scripts : List (List Op)} {s s' : St} {i : Nat} {p : Proc} (hA : InvA scripts s) (hB : InvB s)
      (hC : InvC scripts s) (hp : s.procs[i]? = some p) (hpc : p.pc = $pc) (hs : step s i = some s') :
      InvC scripts s' := by
    have hL := hA.loc i p hp
    have hLB := hB.loc i p hp
    have hLC := hC.loc2 i p hp
    have hS := StepB.of_step hA hB hs
    have hs0 := hs
    simp only [step, getProc_eq, hp, hpc] at hs0
    ($tac))

set_option hygiene false in
macro "quietC" : tactic =>
  `(tactic| (
      have hF := StepA.of_step' hA hp hs (p'' := _) (by first | rfl | rw [setProc_procs, release_fst_procs])
      have hfin := fun g t => (⟨Fin.back hp hF hL (g := g) (t := t) (by simp [hpc]), Fin.mono hp hF⟩ : _ ↔ Fin scripts s g t)
      refine InvC.step_quiet hA hB hC hp hF hS (by simp) (by intro g e h; simpa using h) (by simp [hpc, postStore])
        (by simp [hpc]) ?_
      clear hs hF hS
      obtain ⟨c1, c2, c3⟩ := hLC
      constructor <;> simp_all [postStore, midStore, rdPc]))

theorem extend_back {α : Type} {l : List (Option α)} {n g : Nat} {e : α}
    (h : (l ++ List.replicate n none)[g]? = some (some e)) : l[g]? = some (some e) := by
  rcases Nat.lt_or_ge g l.length with h' | h'
  · rw [List.getElem?_append_left h'] at h; exact h
  · rw [List.getElem?_append_right h'] at h
    simp [List.getElem?_replicate] at h

set_option hygiene false in
macro "quietC'" : tactic =>
  `(tactic| (
      have hF := StepA.of_step' hA hp hs (p'' := _) (by first | rfl | rw [setProc_procs, release_fst_procs])
      have hfin := fun g t => (⟨Fin.back hp hF hL (g := g) (t := t) (by simp [hpc]), Fin.mono hp hF⟩ : _ ↔ Fin scripts s g t)
      refine InvC.step_quiet hA hB hC hp hF hS (by simp) (by intro g e h; exact extend_back h) (by simp [hpc, postStore])
        (by simp [hpc]) ?_
      clear hs hF hS
      obtain ⟨c1, c2, c3⟩ := hLC
      constructor <;> simp_all [postStore, midStore, rdPc]))

set_option hygiene false in
macro "localC" : tactic =>
  `(tactic| (simp only [Option.some.injEq] at hs0; subst hs0; quietC))

stepC InvC.s_oPathsLen .oPathsLen => localC
stepC InvC.s_oPathsAppend .oPathsAppend => localC
stepC InvC.s_oOpenW .oOpenW => localC
stepC InvC.s_oPathsGet .oPathsGet => localC
stepC InvC.s_oOpenA .oOpenA => localC
stepC InvC.s_sIdxLen2 .sIdxLen2 => localC
stepC InvC.s_sTell .sTell => localC
stepC InvC.s_sWriteText .sWriteText => localC
stepC InvC.s_sWriteNl .sWriteNl => localC
stepC InvC.s_sFlush .sFlush => localC
stepC InvC.s_sCntRead .sCntRead => localC
stepC InvC.s_sCntWrite .sCntWrite => localC
stepC InvC.s_sWfRead2 .sWfRead2 => localC
stepC InvC.s_sWfWrite1 .sWfWrite1 => localC
stepC InvC.s_sLoopWf .sLoopWf => localC
stepC InvC.s_sLoopWf2 .sLoopWf2 => localC
stepC InvC.s_sLoopWfR .sLoopWfR => localC
stepC InvC.s_sLoopWfW .sLoopWfW => localC
stepC InvC.s_gPathsGet .gPathsGet => localC
stepC InvC.s_gOpenR .gOpenR => localC
stepC InvC.s_gSeek .gSeek => localC
stepC InvC.s_cWf .cWf => localC
stepC InvC.s_oRel .oRel => localC
stepC InvC.s_sIdxLen1 .sIdxLen1 => split at hs0 <;> localC
stepC InvC.s_sWfRead1 .sWfRead1 => split at hs0 <;> localC
stepC InvC.s_sLoopCnt .sLoopCnt => split at hs0 <;> localC
stepC InvC.s_sLoopIdx .sLoopIdx => split at hs0 <;> localC
stepC InvC.s_gIdxLen .gIdxLen => split at hs0 <;> localC
stepC InvC.s_iIdxLen .iIdxLen => split at hs0 <;> localC
stepC InvC.s_gRel .gRel => split at hs0 <;> localC
stepC InvC.s_fAcq .fAcq => flushA
stepC InvC.s_fPathsGet .fPathsGet => flushA
stepC InvC.s_fRemove .fRemove => flushA
stepC InvC.s_fPathsClear .fPathsClear => flushA
stepC InvC.s_fIdxClear .fIdxClear => flushA
stepC InvC.s_fCntZero .fCntZero => flushA
stepC InvC.s_fWfZero .fWfZero => flushA
stepC InvC.s_fRel .fRel => flushA

set_option hygiene false in
macro "acqC" : tactic =>
  `(tactic| (obtain ⟨d, rfl, hl⟩ := acquire_shape hs0; quietC))

stepC InvC.s_oAcq .oAcq => acqC
stepC InvC.s_sAcq .sAcq => acqC
stepC InvC.s_gAcq .gAcq => acqC
stepC InvC.s_iAcq .iAcq => acqC

stepC InvC.s_sIdxExtend .sIdxExtend => simp only [Option.some.injEq] at hs0; subst hs0; quietC'

stepC InvC.s_sIdxGet .sIdxGet =>
  split at hs0
  · rename_i v hv
    have hst : stored' s p.gid = true := stored'_iff.2 ⟨v, hv⟩
    localC
  · rename_i hne
    have hnf : ∀ t, ¬ Fin scripts s p.gid t := by
      intro t hf
      obtain ⟨e, he⟩ := stored'_iff.1 (hC.fin_stored hf)
      exact hne e he
    localC

theorem LocA.lock_of_postStore {scripts : List (List Op)} {s : St} {j : Nat} {q : Proc} (h : LocA scripts s j q)
    (hq : postStore q.pc = true) : s.lock = some j :=
  h.lock.1 (by unfold dep; cases hpc : q.pc <;> simp_all [postStore])

stepC InvC.s_gIdxGet .gIdxGet =>
  split at hs0
  · rename_i w off hv
    obtain ⟨c, t, e1, e2, e3⟩ := hB.ent _ _ _ hv
    have hf : Fin scripts s p.gid t := by
      rcases hC.entC _ _ _ _ _ hv e1 e2 with hf | ⟨j, q, hq, hq1, hq2, hq3⟩
      · exact hf
      · exfalso
        have h1 := (hA.loc j q hq).lock_of_postStore hq1
        have h2 : s.lock = some i := hL.lock.1 (by simp [dep, hpc]; split <;> simp)
        rw [h1] at h2; simp only [Option.some.injEq] at h2; subst h2
        rw [hp] at hq; cases hq
        simp [hpc, postStore] at hq1
    have hrd : ∃ c t, fileOf s w = some c ∧ c[off]? = some (some t) ∧ Fin scripts s p.gid t := ⟨c, t, e1, e2, hf⟩
    localC
  · localC

set_option hygiene false in
macro "finC " op:term:max r:term:max : tactic =>
  `(tactic| (
      simp only [Option.some.injEq] at hs0; subst hs0
      have hF := StepA.of_step' hA hp hs (p'' := _) (by first | rfl | rw [setProc_procs, release_fst_procs])
      refine InvC.step_finish hA hB hC hp hF hS (r := $r) (by simp) (by intro g e h; simpa using h)
        (by simp [hpc, postStore]) (finish_entry _ _) (op := $op) (by simp [curOp, hpc]) ?_ ?_))

stepC InvC.s_lCnt .lCnt => finC Op.len (Res.nat s.cnt) <;> simp
stepC InvC.s_cCnt .cCnt => finC Op.contig (Res.bool (p.tmp == s.cnt)) <;> simp
stepC InvC.s_iRel .iRel => finC Op.iter (Res.texts p.iterAcc) <;> simp
stepC InvC.s_xClose .xClose => finC Op.close Res.ok <;> simp
stepC InvC.s_sRelErr .sRelErr =>
  have hst := hLC.postSt (Or.inr hpc)
  finC (Op.store p.gid p.text) Res.valueError
  · intro g t h; cases h; exact ⟨Or.inr rfl, hst⟩
  · simp

set_option hygiene false in
macro "iterC" : tactic =>
  `(tactic| (
      simp only [Option.some.injEq] at hs0; subst hs0
      have hF := StepA.of_step' hA hp hs (p'' := _) (by first | rfl | rw [setProc_procs, release_fst_procs])
      exact InvC.step_quiet hA hB hC hp hF hS (by simp) (by intro g e h; simpa using h) (by simp [hpc, postStore])
        (by simp [hpc]) LocC2.iterAdvance))

stepC InvC.s_gRelErr .gRelErr =>
  cases hin : p.inIter
  · simp only [release_snd_inIter, hin, Bool.false_eq_true, if_false] at hs0
    simp only [Option.some.injEq] at hs0; subst hs0
    have hF := StepA.of_step' hA hp hs (p'' := _) (by first | rfl | rw [setProc_procs, release_fst_procs])
    refine InvC.step_finish hA hB hC hp hF hS (r := .indexError) (by simp) (by intro g e h; simpa using h)
      (by simp [hpc, postStore]) (finish_entry _ _) (op := .read p.gid) (by simp [curOp, hpc, hin]) ?_ ?_ <;> simp
  · simp only [release_snd_inIter, hin, if_true] at hs0
    iterC

stepC InvC.s_gReadline .gReadline =>
  cases hin : p.inIter
  · simp only [hin, Bool.false_eq_true, if_false] at hs0
    simp only [Option.some.injEq] at hs0; subst hs0
    have hF := StepA.of_step' hA hp hs (p'' := _) rfl
    obtain ⟨c, t, e1, e2, e3⟩ := hLC.rd (by simp [hpc, rdPc])
    obtain ⟨c', t', e1', e2', e3'⟩ := hB.ent _ _ _ (hLB.rdIdx (Or.inr (Or.inr (Or.inr (Or.inr hpc)))))
    rw [e1] at e1'; cases e1'
    refine InvC.step_finish hA hB hC hp hF hS (r := .text (readlineAt ((fileOf s p.target).getD []) p.off)) (by simp)
      (by intro g e h; simpa using h)
      (by simp [hpc, postStore]) (finish_entry _ _) (op := .read p.gid) (by simp [curOp, hpc, hin]) (by simp) ?_
    intro g hg; cases hg
    refine Or.inr ⟨t, e3, ?_⟩
    rw [e1]; simp only [Option.getD_some]
    rw [readlineAt_complete c p.off t e2 e3']
  · simp only [hin, if_true] at hs0
    iterC

stepC InvC.s_sIdxSet .sIdxSet =>
  simp only [Option.some.injEq] at hs0; subst hs0
  have hF := StepA.of_step' hA hp hs (p'' := _) rfl
  have hlt := hLB.gidLt (Or.inr (Or.inr (Or.inr (Or.inr (Or.inr hpc)))))
  obtain ⟨c, hc1, hc2, hc3⟩ := hLB.wrDone (Or.inr hpc)
  have hi : i < s.procs.length := by
    rcases Nat.lt_or_ge i s.procs.length with h' | h'
    · exact h'
    · simp [List.getElem?_eq_none h'] at hp
  refine hC.step_gen hA hp hF hS (LocC1.congr (p := p) rfl ((hC.loc1 i p hp).mono hp hF hS)) ?_ ?_
    (hC.uniqOk.of_step hp hF hL (by simp [hpc]))
  · constructor
    · intro _
      rw [stored'_iff]
      exact ⟨(p.ident.getD 0, p.off), by simp [List.getElem?_set_self hlt]⟩
    · intro _ t hf
      exact hLC.noFin (by simp [hpc, midStore]) t (hf.back hp hF hL (by simp [hpc]))
    · intro h; simp [rdPc] at h
  · intro g w off c' t h1 h2 h3
    simp only [setProc_index, fileOf_setProc, fileOf_mk_files] at h1 h2
    by_cases hg : p.gid = g
    · subst hg
      rw [List.getElem?_set_self hlt] at h1
      simp only [Option.some.injEq, Prod.mk.injEq] at h1
      obtain ⟨rfl, rfl⟩ := h1
      rw [hc1] at h2; cases h2
      rw [hc2] at h3; cases h3
      right
      refine ⟨i, ?w, ?h1, ?h2, ?h3, ?h4⟩
      case h1 => rw [hF.procs, List.getElem?_set_self hi]
      all_goals rfl
    · rw [List.getElem?_set_ne hg] at h1
      rcases hC.entC g w off c' t h1 h2 h3 with hf | ⟨j, q, hq, hq1, hq2, hq3⟩
      · exact Or.inl (hf.mono hp hF)
      · right
        have hji : j ≠ i := by
          intro hji; subst hji; rw [hp] at hq; cases hq; simp [hpc, postStore] at hq1
        refine ⟨j, q, ?_, hq1, hq2, hq3⟩
        rw [hF.procs, getElem?_set_proc _ _ _ _ _ _ hp]; exact Or.inr ⟨hji, hq⟩

stepC InvC.s_sRel .sRel =>
  simp only [Option.some.injEq] at hs0; subst hs0
  have hF := StepA.of_step' hA hp hs (p'' := _) (by rw [setProc_procs, release_fst_procs])
  obtain ⟨sc, hsc, hat⟩ := hL.op_at (op := .store p.gid p.text) (by simp [curOp, hpc])
  have hi : i < s.procs.length := by
    rcases Nat.lt_or_ge i s.procs.length with h' | h'
    · exact h'
    · simp [List.getElem?_eq_none h'] at hp
  have hnew : resultOf' scripts (setProc (release s i p).1 i (finish (release s i p).2 .ok)) i p.results.length =
      some (.store p.gid p.text, .ok) := by
    rw [resultOf'_some]
    refine ⟨sc, ?w, hsc, ?h1, hat, ?h2⟩
    case h1 => rw [hF.procs, List.getElem?_set_self hi]
    simp
  have hnf := hLC.noFin (by simp [hpc, midStore])
  have hext : ∀ {a k g t}, resultOf' scripts (setProc (release s i p).1 i (finish (release s i p).2 .ok)) a k =
      some (.store g t, .ok) → resultOf' scripts s a k = some (.store g t, .ok) ∨
        (a = i ∧ k = p.results.length ∧ g = p.gid) := by
    intro a k g t h
    rcases resultOf'_back hp hF (l := [.ok]) (by simp) h with h | ⟨rfl, hk, hl, sc', hsc', hat'⟩
    · exact Or.inl h
    · right
      have hk' : k = p.results.length := by
        rcases Nat.lt_or_ge (k - p.results.length) 1 with h' | h'
        · omega
        · rw [List.getElem?_eq_none (by simpa using h')] at hl; cases hl
      subst hk'
      rw [hsc] at hsc'; cases hsc'
      rw [hat] at hat'; cases hat'
      exact ⟨rfl, rfl, rfl⟩
  refine hC.step_gen hA hp hF hS ?_ (LocC2.of_entry (finish_entry _ _)) ?_ ?_
  · refine ((hC.loc1 i p hp).mono hp hF hS).finish hsc hat (r := .ok) (by simp) ?_ (by simp)
    intro g t h; cases h
    exact ⟨Or.inl rfl, stored'_mono hS (hLC.postSt (Or.inl (by simp [hpc, postStore])))⟩
  · intro g w off c' t h1 h2 h3
    simp only [setProc_index, release_fst_index, fileOf_setProc, release_fst_fileOf] at h1 h2
    rcases hC.entC g w off c' t h1 h2 h3 with hf | ⟨j, q, hq, hq1, hq2, hq3⟩
    · exact Or.inl (hf.mono hp hF)
    · by_cases hji : j = i
      · subst hji; rw [hp] at hq; cases hq
        subst hq2; subst hq3
        exact Or.inl ⟨j, _, hnew⟩
      · right
        refine ⟨j, q, ?_, hq1, hq2, hq3⟩
        rw [hF.procs, getElem?_set_proc _ _ _ _ _ _ hp]; exact Or.inr ⟨hji, hq⟩
  · intro a k b k' g t t' h1 h2
    rcases hext h1 with o1 | ⟨e1, e2, e3⟩ <;> rcases hext h2 with o2 | ⟨e4, e5, e6⟩
    · exact hC.uniqOk a k b k' g t t' o1 o2
    · subst e6; exact absurd ⟨a, k, o1⟩ (hnf t)
    · subst e3; exact absurd ⟨b, k', o2⟩ (hnf t')
    · exact ⟨e1.trans e4.symm, e2.trans e5.symm⟩

/-- the history layer is preserved by every step -/
theorem InvC.step {scripts : List (List Op)} {s s' : St} {i : Nat} (hA : InvA scripts s) (hB : InvB s)
    (hC : InvC scripts s) (hs : step s i = some s') : InvC scripts s' := by
  obtain ⟨p, hp⟩ := step_proc hs
  cases hpc : p.pc with
    | idle => simp [Storage.step, hp, hpc] at hs
    | oAcq => exact InvC.s_oAcq hA hB hC hp hpc hs
    | oPathsLen => exact InvC.s_oPathsLen hA hB hC hp hpc hs
    | oPathsAppend => exact InvC.s_oPathsAppend hA hB hC hp hpc hs
    | oRel => exact InvC.s_oRel hA hB hC hp hpc hs
    | oOpenW => exact InvC.s_oOpenW hA hB hC hp hpc hs
    | oPathsGet => exact InvC.s_oPathsGet hA hB hC hp hpc hs
    | oOpenA => exact InvC.s_oOpenA hA hB hC hp hpc hs
    | sAcq => exact InvC.s_sAcq hA hB hC hp hpc hs
    | sIdxLen1 => exact InvC.s_sIdxLen1 hA hB hC hp hpc hs
    | sIdxLen2 => exact InvC.s_sIdxLen2 hA hB hC hp hpc hs
    | sIdxExtend => exact InvC.s_sIdxExtend hA hB hC hp hpc hs
    | sIdxGet => exact InvC.s_sIdxGet hA hB hC hp hpc hs
    | sTell => exact InvC.s_sTell hA hB hC hp hpc hs
    | sWriteText => exact InvC.s_sWriteText hA hB hC hp hpc hs
    | sWriteNl => exact InvC.s_sWriteNl hA hB hC hp hpc hs
    | sFlush => exact InvC.s_sFlush hA hB hC hp hpc hs
    | sIdxSet => exact InvC.s_sIdxSet hA hB hC hp hpc hs
    | sCntRead => exact InvC.s_sCntRead hA hB hC hp hpc hs
    | sCntWrite => exact InvC.s_sCntWrite hA hB hC hp hpc hs
    | sWfRead1 => exact InvC.s_sWfRead1 hA hB hC hp hpc hs
    | sWfRead2 => exact InvC.s_sWfRead2 hA hB hC hp hpc hs
    | sWfWrite1 => exact InvC.s_sWfWrite1 hA hB hC hp hpc hs
    | sLoopWf => exact InvC.s_sLoopWf hA hB hC hp hpc hs
    | sLoopCnt => exact InvC.s_sLoopCnt hA hB hC hp hpc hs
    | sLoopWf2 => exact InvC.s_sLoopWf2 hA hB hC hp hpc hs
    | sLoopIdx => exact InvC.s_sLoopIdx hA hB hC hp hpc hs
    | sLoopWfR => exact InvC.s_sLoopWfR hA hB hC hp hpc hs
    | sLoopWfW => exact InvC.s_sLoopWfW hA hB hC hp hpc hs
    | sRelErr => exact InvC.s_sRelErr hA hB hC hp hpc hs
    | sRel => exact InvC.s_sRel hA hB hC hp hpc hs
    | gAcq => exact InvC.s_gAcq hA hB hC hp hpc hs
    | gIdxLen => exact InvC.s_gIdxLen hA hB hC hp hpc hs
    | gIdxGet => exact InvC.s_gIdxGet hA hB hC hp hpc hs
    | gRelErr => exact InvC.s_gRelErr hA hB hC hp hpc hs
    | gRel => exact InvC.s_gRel hA hB hC hp hpc hs
    | gPathsGet => exact InvC.s_gPathsGet hA hB hC hp hpc hs
    | gOpenR => exact InvC.s_gOpenR hA hB hC hp hpc hs
    | gSeek => exact InvC.s_gSeek hA hB hC hp hpc hs
    | gReadline => exact InvC.s_gReadline hA hB hC hp hpc hs
    | lCnt => exact InvC.s_lCnt hA hB hC hp hpc hs
    | cWf => exact InvC.s_cWf hA hB hC hp hpc hs
    | cCnt => exact InvC.s_cCnt hA hB hC hp hpc hs
    | iAcq => exact InvC.s_iAcq hA hB hC hp hpc hs
    | iIdxLen => exact InvC.s_iIdxLen hA hB hC hp hpc hs
    | iRel => exact InvC.s_iRel hA hB hC hp hpc hs
    | fAcq => exact InvC.s_fAcq hA hB hC hp hpc hs
    | fPathsGet => exact InvC.s_fPathsGet hA hB hC hp hpc hs
    | fRemove => exact InvC.s_fRemove hA hB hC hp hpc hs
    | fPathsClear => exact InvC.s_fPathsClear hA hB hC hp hpc hs
    | fIdxClear => exact InvC.s_fIdxClear hA hB hC hp hpc hs
    | fCntZero => exact InvC.s_fCntZero hA hB hC hp hpc hs
    | fWfZero => exact InvC.s_fWfZero hA hB hC hp hpc hs
    | fRel => exact InvC.s_fRel hA hB hC hp hpc hs
    | xClose => exact InvC.s_xClose hA hB hC hp hpc hs

theorem InvC.init (presize : Nat) (scripts : List (List Op)) : InvC scripts (start (init presize scripts)) := by
  have hres : ∀ (i : Nat) (p : Proc), (start (Storage.init presize scripts)).procs[i]? = some p → p.results = [] := by
    intro i p hp
    simp only [start, Storage.init, List.map_map, List.getElem?_map, Option.map_eq_some_iff] at hp
    obtain ⟨sc, _, rfl⟩ := hp
    simp [mkProc]
  have hno : ∀ (j k : Nat) (x : Op × Res), resultOf' scripts (start (Storage.init presize scripts)) j k ≠ some x := by
    intro j k ⟨op, r⟩ h
    rw [resultOf'_some] at h
    obtain ⟨sc, p, _, h2, _, h4⟩ := h
    rw [hres j p h2] at h4; simp at h4
  refine ⟨?_, ?_, ?_, ?_⟩
  · intro i p hp
    have := hres i p hp
    constructor <;> intro sc k <;> intros <;> simp_all
  · intro i p hp
    simp only [start, Storage.init, List.map_map, List.getElem?_map, Option.map_eq_some_iff] at hp
    obtain ⟨sc, _, rfl⟩ := hp
    exact LocC2.of_entry (fetch_entry _ rfl)
  · intro g w off c t h
    simp [start, Storage.init, List.getElem?_replicate] at h
  · intro i k j k' g t t' h
    exact absurd h (hno _ _ _)

theorem reach_ABC {scripts : List (List Op)} (hnf : ∀ sc ∈ scripts, Op.flush ∉ sc) {presize : Nat} {s : St}
    {sched : List Nat} (hr : run (start (init presize scripts)) sched = some s) :
    InvA scripts s ∧ InvB s ∧ InvC scripts s :=
  run_preserves (fun s => InvA scripts s ∧ InvB s ∧ InvC scripts s)
    (fun _ _ _ h hs => ⟨h.1.step hs, h.2.1.step h.1 hs, h.2.2.step h.1 h.2.1 hs⟩)
    ⟨InvA.init hnf presize, InvB.init presize scripts, InvC.init presize scripts⟩ hr

end WindVerif.Storage
