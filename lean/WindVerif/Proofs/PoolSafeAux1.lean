import WindVerif.Spec.Pool
import WindVerif.Proofs.PoolMidAux
/-!
Auxiliary development for `PoolSafe.lean`, part 1: the invariant `SafeInv` re-expressed over plain values (`SafeV`) so that
the preservation lemmas can be stated and proved without the 36-field state record, and the list lemmas about the
observables.
-/
namespace WindVerif.Pool

/-! ## what the invariant needs to know about the consumer's pc -/

structure CSig where
  pre : Bool      -- `preStart`
  post : Bool     -- `postLoop`
  exit : Bool     -- `exitPut` / `exitJoin` / `done`
  rd : Bool       -- `rdDataCnt`
  rj : Bool       -- `rPutNone` / `rStopSet` / `rJoin`
  ws : Bool       -- `wrSending`
  wd : Bool       -- `wrDataCnt`
  fs : Bool       -- `fStart`
  be : Bool       -- batch must be empty here
  en : Bool       -- `enterStart`

def preStartPc : CPc → Bool
  | .enterStart _ | .readyWait _ | .nextCall | .rInitSet | .rStart | .fInitSet | .wrSending | .wrDataCnt | .fStart => true
  | _ => false

def postLoopPc : CPc → Bool
  | .fStopSet | .fJoin | .rPutNone | .rStopSet | .rJoin => true
  | _ => false

def exitPc : CPc → Bool
  | .exitPut _ | .exitJoin _ | .done => true
  | _ => false

def rjPc : CPc → Bool
  | .rPutNone | .rStopSet | .rJoin => true
  | _ => false

def bePc : CPc → Bool
  | .qsize2 | .getNowait | .lockRel => false
  | _ => true

def enPc : CPc → Bool
  | .enterStart _ => true
  | _ => false

def rdPc : CPc → Bool
  | .rdDataCnt => true
  | _ => false

def wsPc : CPc → Bool
  | .wrSending => true
  | _ => false

def wdPc : CPc → Bool
  | .wrDataCnt => true
  | _ => false

def fsPc : CPc → Bool
  | .fStart => true
  | _ => false

def csig (pc : CPc) : CSig :=
  { pre := preStartPc pc, post := postLoopPc pc, exit := exitPc pc, rd := rdPc pc, rj := rjPc pc,
    ws := wsPc pc, wd := wdPc pc, fs := fsPc pc, be := bePc pc, en := enPc pc }

theorem preStart_eq (s : St) : preStart s = preStartPc s.cpc := by
  unfold preStart preStartPc; cases s.cpc <;> rfl

theorem postLoop_eq (s : St) : postLoop s = postLoopPc s.cpc := by
  unfold postLoop postLoopPc; cases s.cpc <;> rfl

/-! ## observables over plain values -/

def sentV (pre : Bool) (cur : Option Call) (fpc : FPc) (fNext fTotal : Nat) : Nat :=
  if pre || cur.isNone then 0 else
  match fpc with
  | .put => fNext
  | .rdCnt | .wrCnt | .stopIsSet | .runWait => fNext + 1
  | .wrSending | .token | .idle => fTotal

theorem sent_eq (s : St) : sent s = sentV (preStartPc s.cpc) s.cur s.fpc s.fNext s.fTotal := by
  unfold sent sentV; rw [preStart_eq]; cases s.fpc <;> rfl

def curOutL (out : List (Nat × Nat)) (k : Nat) : List Nat := (out.filter (fun p => p.1 == k)).map (·.2)

theorem curOut_eq (s : St) : curOut s = curOutL s.out s.callNo := rfl
theorem outOf_eq (s : St) (k : Nat) : outOf s k = curOutL s.out k := rfl

def heldL (ws : List Worker) : List Nat := ws.filterMap (·.held)

/-- chunks on the way between the feeder and the consumer -/
def flightL (workQ : List (Option Nat)) (ws : List Worker) (resQ : List (Option Nat)) : List Nat :=
  chunksOf workQ ++ heldL ws ++ chunksOf resQ

theorem places_eq (s : St) :
    places s = flightL s.workQ s.workers s.resQ ++ s.batch ++ s.buffer ++ curOutL s.out s.callNo := rfl

/-- consistency of the signature of a pc -/
structure SigOk (g : CSig) : Prop where
  setupPre : (g.ws = true ∨ g.wd = true ∨ g.fs = true) → g.pre = true
  rjPost : g.rj = true → g.post = true
  prePost : g.pre = true → g.post = false ∧ g.exit = false ∧ g.rd = false
  postExit : g.post = true → g.exit = false ∧ g.rd = false
  enPre : g.en = true → g.pre = true

theorem sigOk_csig (pc : CPc) : SigOk (csig pc) := by
  constructor <;> cases pc <;> simp [csig, preStartPc, postLoopPc, exitPc, rjPc, enPc, rdPc, wsPc, wdPc, fsPc]

/-! ## the three parts of the invariant over plain values -/

structure CtlV (g : CSig) (cur : Option Call) (fpc : FPc) (sending : Bool) (dataCnt fNext fTotal fRead : Nat)
    (fAlive fStop : Bool) (finished : Nat) : Prop where
  sigOk : SigOk g
  total : ∀ c, cur = some c → g.pre = false → fTotal = c.chunks
  sendingTrue : g.pre = false → cur.isSome →
    (sending = true ↔ (fpc = .put ∨ fpc = .rdCnt ∨ fpc = .wrCnt ∨ fpc = .stopIsSet ∨ fpc = .runWait ∨ fpc = .wrSending))
  cntPut : g.pre = false → cur.isSome → (fpc = .put ∨ fpc = .rdCnt) → dataCnt = fNext ∧ fNext < fTotal
  cntWr : g.pre = false → cur.isSome → fpc = .wrCnt → dataCnt = fNext ∧ fRead = fNext ∧ fNext < fTotal
  cntAfter : g.pre = false → cur.isSome → (fpc = .stopIsSet ∨ fpc = .runWait) → dataCnt = fNext + 1 ∧ fNext < fTotal
  cntDone : g.pre = false → cur.isSome → (fpc = .wrSending ∨ fpc = .token ∨ fpc = .idle) → dataCnt = fTotal
  alive : fAlive = (fpc != .idle)
  preIdle : g.pre = true → fpc = .idle
  readCnt : g.rd = true → sending = false
  post : g.post = true → sending = false ∧ finished = fTotal
  noCall : cur = none → g.pre = true ∨ g.exit = true
  noCallF : cur = none → fpc = .idle
  postF : g.rj = true → fpc = .idle
  stopF : fStop = true → (fpc = .token ∨ fpc = .idle)
  setupStop : (g.ws = true ∨ g.wd = true ∨ g.fs = true) → fStop = false
  setupSending : (g.wd = true ∨ g.fs = true) → sending = true
  setupCnt : g.fs = true → dataCnt = 0

structure DataV (be : Bool) (cur : Option Call) (n : Nat) (fl batch buffer : List Nat) (finished wf : Nat)
    (co : List Nat) : Prop where
  conserve : cur.isSome → (fl ++ batch ++ buffer ++ co).Perm (List.range n)
  idle : cur = none → fl = [] ∧ batch = [] ∧ buffer = []
  fin : cur.isSome → finished = co.length
  ordered : ∀ c, cur = some c → c.ordered = true → co = List.range wf
  unordered : ∀ c, cur = some c → c.ordered = false → buffer = []
  batchEmpty : be = true → batch = []

def OutLe (out : List (Nat × Nat)) (k : Nat) : Prop := ∀ p ∈ out, p.1 ≤ k

structure WrkV (en : Bool) (rpc : RPc) (ws : List Worker) (widCounter : Nat) : Prop where
  wids : (ws.map (·.wid)).Nodup
  widLt : ∀ w ∈ ws, w.wid < widCounter
  heldPc : ∀ w ∈ ws, w.held.isSome →
    (w.pc = .lockAcq ∨ w.pc = .putNowait ∨ w.pc = .putBlock ∨ (w.pc = .lockRel ∧ w.full = true))
  startFresh : ∀ nw, rpc = .start nw → ∀ w ∈ ws, w.wid = nw → w.pc = .notStarted
  enterR : en = true → rpc = .idle

/-- `SafeInv` over plain values -/
def SafeV (cpc : CPc) (cur : Option Call) (fpc : FPc) (sending : Bool) (dataCnt fNext fTotal fRead : Nat)
    (fAlive fStop : Bool) (finished : Nat) (workQ : List (Option Nat)) (ws : List Worker) (resQ : List (Option Nat))
    (batch buffer : List Nat) (wf : Nat) (out : List (Nat × Nat)) (callNo : Nat) (rpc : RPc) (widCounter : Nat) : Prop :=
  CtlV (csig cpc) cur fpc sending dataCnt fNext fTotal fRead fAlive fStop finished ∧
  DataV (csig cpc).be cur (sentV (csig cpc).pre cur fpc fNext fTotal) (flightL workQ ws resQ) batch buffer finished wf
    (curOutL out callNo) ∧
  OutLe out callNo ∧
  WrkV (csig cpc).en rpc ws widCounter

theorem csig_rd (pc : CPc) : (csig pc).rd = true ↔ pc = .rdDataCnt := by cases pc <;> simp [csig, rdPc]
theorem csig_ws (pc : CPc) : (csig pc).ws = true ↔ pc = .wrSending := by cases pc <;> simp [csig, wsPc]
theorem csig_wd (pc : CPc) : (csig pc).wd = true ↔ pc = .wrDataCnt := by cases pc <;> simp [csig, wdPc]
theorem csig_fs (pc : CPc) : (csig pc).fs = true ↔ pc = .fStart := by cases pc <;> simp [csig, fsPc]
theorem csig_rj (pc : CPc) : (csig pc).rj = true ↔ (pc = .rPutNone ∨ pc = .rStopSet ∨ pc = .rJoin) := by
  cases pc <;> simp [csig, rjPc]
theorem csig_en (pc : CPc) : (csig pc).en = true ↔ ∃ i, pc = .enterStart i := by
  cases pc <;> simp [csig, enPc]
theorem csig_pre (pc : CPc) : (csig pc).pre = preStartPc pc := rfl
theorem csig_post (pc : CPc) : (csig pc).post = postLoopPc pc := rfl

theorem flight_nil_iff (workQ : List (Option Nat)) (ws : List Worker) (resQ : List (Option Nat)) :
    flightL workQ ws resQ = [] ↔ chunksOf workQ = [] ∧ heldL ws = [] ∧ chunksOf resQ = [] := by
  simp [flightL]

theorem safe_iff (s : St) :
    SafeInv s ↔ SafeV s.cpc s.cur s.fpc s.sending s.dataCnt s.fNext s.fTotal s.fRead s.fAlive s.fStop s.finished
      s.workQ s.workers s.resQ s.batch s.buffer s.wf s.out s.callNo s.rpc s.widCounter := by
  constructor
  · intro h
    refine ⟨⟨sigOk_csig _, ?_, ?_, ?_, ?_, ?_, ?_, ?_, ?_, ?_, ?_, ?_, ?_, ?_, ?_, ?_, ?_, ?_⟩, ⟨?_, ?_, ?_, ?_, ?_, ?_⟩,
      ?_, ⟨?_, ?_, ?_, ?_, ?_⟩⟩
    · simpa [csig_pre, preStart_eq] using h.total
    · simpa [csig_pre, preStart_eq] using h.sendingTrue
    · simpa [csig_pre, preStart_eq] using h.cntPut
    · simpa [csig_pre, preStart_eq] using h.cntWr
    · simpa [csig_pre, preStart_eq] using h.cntAfter
    · simpa [csig_pre, preStart_eq] using h.cntDone
    · exact h.alive
    · simpa [csig_pre, preStart_eq] using h.preIdle
    · simpa only [csig_rd] using h.readCnt
    · simpa [csig_post, postLoop_eq] using h.post
    · intro hcur
      have := h.noCall hcur
      rw [preStart_eq] at this
      generalize s.cpc = pc at this ⊢
      cases pc <;> simp_all [csig, exitPc, preStartPc]
    · exact h.noCallF
    · simpa only [csig_rj] using h.postF
    · exact h.stopF
    · simpa only [csig_ws, csig_wd, csig_fs] using h.setupStop
    · simpa only [csig_wd, csig_fs] using h.setupSending
    · simpa only [csig_fs] using h.setupCnt
    · have := h.conserve
      rw [places_eq, sent_eq] at this
      exact this
    · intro hc
      have := h.idle hc
      exact ⟨(flight_nil_iff _ _ _).2 ⟨this.1, this.2.1, this.2.2.1⟩, this.2.2.2.1, this.2.2.2.2⟩
    · exact h.fin
    · exact h.ordered
    · exact h.unordered
    · have := h.batchEmpty
      generalize s.cpc = pc at this ⊢
      cases pc <;> simp_all [csig, bePc]
    · exact h.outLe
    · exact h.wids
    · exact h.widLt
    · exact h.heldPc
    · exact h.startFresh
    · intro he
      obtain ⟨i, hi⟩ := (csig_en _).1 he
      exact h.enterR i hi
  · rintro ⟨hc, hd, ho, hw⟩
    refine ⟨?_, ?_, ?_, ?_, ?_, ?_, ?_, ?_, ?_, ?_, ?_, ?_, ?_, ?_, ?_, ?_, ?_, ?_, ?_, ?_, ?_, ?_, ?_, ?_, ?_, ?_, ?_,
      ?_, ?_⟩
    · have := hd.conserve
      rw [places_eq, sent_eq]
      exact this
    · intro hcur
      have := hd.idle hcur
      have h2 := (flight_nil_iff _ _ _).1 this.1
      exact ⟨h2.1, h2.2.1, h2.2.2, this.2.1, this.2.2⟩
    · exact hd.fin
    · exact hd.ordered
    · exact hd.unordered
    · simpa [csig_pre, preStart_eq] using hc.total
    · simpa [csig_pre, preStart_eq] using hc.sendingTrue
    · simpa [csig_pre, preStart_eq] using hc.cntPut
    · simpa [csig_pre, preStart_eq] using hc.cntWr
    · simpa [csig_pre, preStart_eq] using hc.cntAfter
    · simpa [csig_pre, preStart_eq] using hc.cntDone
    · exact hc.alive
    · simpa [csig_pre, preStart_eq] using hc.preIdle
    · simpa only [csig_rd] using hc.readCnt
    · simpa [csig_post, postLoop_eq] using hc.post
    · intro hcur
      have := hc.noCall hcur
      rw [preStart_eq]
      generalize s.cpc = pc at this ⊢
      cases pc <;> simp_all [csig, exitPc, preStartPc]
    · have := hd.batchEmpty
      generalize s.cpc = pc at this ⊢
      cases pc <;> simp_all [csig, bePc]
    · exact hw.wids
    · exact hw.widLt
    · exact hw.heldPc
    · exact hw.startFresh
    · intro i hi
      exact hw.enterR ((csig_en _).2 ⟨i, hi⟩)
    · exact hc.noCallF
    · simpa only [csig_rj] using hc.postF
    · exact hc.stopF
    · simpa only [csig_ws, csig_wd, csig_fs] using hc.setupStop
    · simpa only [csig_wd, csig_fs] using hc.setupSending
    · simpa only [csig_fs] using hc.setupCnt
    · exact ho

end WindVerif.Pool
