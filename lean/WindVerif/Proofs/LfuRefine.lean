import WindVerif.Spec.CacheOps
import WindVerif.Proofs.Dll
/-! The dict + linked-list model of `LFUCache` simulates the abstract counted list. -/
namespace WindVerif.Cache
open WindVerif.Dll

/-! ### dictionary lemmas -/

namespace LfuRefine

theorem lookup_none_iff (c : PyDict) (k : Key) : c.lookup k = none ↔ ∀ n, (k, n) ∉ c := by
  induction c with
  | nil => simp
  | cons p c ih =>
    obtain ⟨k', n'⟩ := p
    by_cases hk : k = k'
    · subst hk
      simp
      exact ⟨n', fun h => absurd rfl h⟩
    · have : (k == k') = false := by simpa using hk
      simp [List.lookup_cons, this, ih, hk]

theorem lookup_some_iff (c : PyDict) (k : Key) (n : Node) (hnd : (c.map (·.1)).Nodup) :
    c.lookup k = some n ↔ (k, n) ∈ c := by
  induction c with
  | nil => simp
  | cons p c ih =>
    obtain ⟨k', n'⟩ := p
    simp only [List.map_cons, List.nodup_cons] at hnd
    by_cases hk : k = k'
    · subst hk
      have : ∀ m, (k, m) ∉ c := fun m hm => hnd.1 (List.mem_map.2 ⟨_, hm, rfl⟩)
      simp [this, eq_comm]
    · have : (k == k') = false := by simpa using hk
      simp [List.lookup_cons, this, ih hnd.2, hk]

theorem dictDel_mem (c : PyDict) (k k' : Key) (n : Node) : (k', n) ∈ dictDel c k ↔ (k', n) ∈ c ∧ k' ≠ k := by
  simp [dictDel]

theorem dictDel_nodup (c : PyDict) (k : Key) (h : (c.map (·.1)).Nodup) : ((dictDel c k).map (·.1)).Nodup :=
  h.sublist (List.Sublist.map _ List.filter_sublist)

theorem dictDel_length (c : PyDict) (k : Key) (n : Node) (hnd : (c.map (·.1)).Nodup) (h : (k, n) ∈ c) :
    (dictDel c k).length + 1 = c.length := by
  induction c with
  | nil => simp at h
  | cons p c ih =>
    simp only [List.map_cons, List.nodup_cons] at hnd
    by_cases hp : p.1 = k
    · have hc : dictDel c k = c := by
        apply List.filter_eq_self.2
        intro q hq
        have : q.1 ≠ k := fun he => hnd.1 (List.mem_map.2 ⟨q, hq, by rw [he, hp]⟩)
        simpa using this
      have : dictDel (p :: c) k = dictDel c k := by simp [dictDel, hp]
      rw [this, hc]; simp
    · have hc : (k, n) ∈ c := by
        rcases List.mem_cons.1 h with h | h
        · exact absurd (by rw [← h]) hp
        · exact h
      have := ih hnd.2 hc
      have h2 : dictDel (p :: c) k = p :: dictDel c k := by simp [dictDel, hp]
      rw [h2]; simp [this]

theorem dictSet_new (c : PyDict) (k : Key) (n : Node) (h : c.lookup k = none) : dictSet c k n = c ++ [(k, n)] := by
  simp [dictSet, h]

end LfuRefine
open LfuRefine

/-! ### the invariant with its witness list made explicit -/

structure Lfu.Good (s : Lfu) (l : List Node) : Prop where
  cap_pos : 1 ≤ s.cap
  rep     : Rep s.dll l
  len     : l.length ≤ s.cap
  keys    : (l.map (fun n => (s.data n).1)).Nodup
  mem     : ∀ k n, (k, n) ∈ s.cache ↔ (n ∈ l ∧ (s.data n).1 = k)
  clen    : s.cache.length = l.length
  sorted  : (l.map (fun n => (s.data n).2.2)).Pairwise (· ≤ ·)
  pos     : ∀ n ∈ l, 1 ≤ (s.data n).2.2
  dict    : (s.cache.map (·.1)).Nodup

theorem Lfu.inv_iff (s : Lfu) : s.Inv ↔ ∃ l, s.Good l := by
  constructor
  · rintro ⟨h1, ⟨l, h2, h3, h4, h5, h6, h7, h8⟩, h9⟩
    exact ⟨l, h1, h2, h3, h4, h5, h6, h7, h8, h9⟩
  · rintro ⟨l, h1, h2, h3, h4, h5, h6, h7, h8, h9⟩
    exact ⟨h1, ⟨l, h2, h3, h4, h5, h6, h7, h8⟩, h9⟩

namespace Lfu.Good
variable {s : Lfu} {l : List Node}

theorem nodes_eq (g : s.Good l) : s.nodes = l := by
  have := walkF_eq s.dll l g.rep 0
  have hs : s.dll.size.toNat = l.length := by rw [g.rep.size]; simp
  simpa [Lfu.nodes, hs] using this

theorem abs_eq (g : s.Good l) : s.abs = l.map s.data := by
  have := g.nodes_eq
  simp only [Lfu.nodes] at this
  simp [Lfu.abs, this]

theorem key_inj (g : s.Good l) {a b : Node} (ha : a ∈ l) (hb : b ∈ l) (h : (s.data a).1 = (s.data b).1) : a = b := by
  have := g.keys
  clear g
  induction l with
  | nil => simp at ha
  | cons x xs ih =>
    simp only [List.map_cons, List.nodup_cons, List.mem_map, not_exists, not_and] at this
    rcases List.mem_cons.1 ha with ha' | ha' <;> rcases List.mem_cons.1 hb with hb' | hb'
    · rw [ha', hb']
    · subst ha'; exact absurd h.symm (this.1 b hb')
    · subst hb'; exact absurd h (this.1 a ha')
    · exact ih ha' hb' this.2

theorem dictGet_some (g : s.Good l) {k : Key} {n : Node} (h : dictGet s.cache k = some n) :
    n ∈ l ∧ (s.data n).1 = k :=
  (g.mem k n).1 ((lookup_some_iff _ _ _ g.dict).1 h)

theorem dictGet_of_mem (g : s.Good l) {n : Node} (h : n ∈ l) : dictGet s.cache (s.data n).1 = some n :=
  (lookup_some_iff _ _ _ g.dict).2 ((g.mem _ n).2 ⟨h, rfl⟩)

theorem dictGet_none (g : s.Good l) {k : Key} (h : dictGet s.cache k = none) : ∀ n ∈ l, (s.data n).1 ≠ k := by
  intro n hn he
  exact (lookup_none_iff _ _).1 h n ((g.mem k n).2 ⟨hn, he⟩)

/-- replacing state components that keep keys and counts pointwise -/
theorem congr {s' : Lfu} (g : s.Good l) (hc : s'.cap = s.cap) (hd : s'.dll = s.dll) (hca : s'.cache = s.cache)
    (hk : ∀ x, (s'.data x).1 = (s.data x).1) (hm : ∀ x, (s'.data x).2.2 = (s.data x).2.2) : s'.Good l := by
  obtain ⟨h1, h2, h3, h4, h5, h6, h7, h8, h9⟩ := g
  refine ⟨hc ▸ h1, hd ▸ h2, hc ▸ h3, ?_, ?_, hca ▸ h6, ?_, ?_, hca ▸ h9⟩
  · simpa [hk] using h4
  · simpa [hk, hca] using h5
  · simpa [hm] using h7
  · simpa [hm] using h8

end Lfu.Good

/-! ### the abstract list: lookup, bump, insertBump -/

namespace LfuRefine

theorem lookup_map_none (f : Node → Key × Val × Nat) (l : List Node) (k : Key) (h : ∀ n ∈ l, (f n).1 ≠ k) :
    LfuSpec.lookup (l.map f) k = none := by
  induction l with
  | nil => rfl
  | cons x xs ih =>
    have hx : (k == (f x).1) = false := beq_false_of_ne (Ne.symm (h x (by simp)))
    have := ih (fun n hn => h n (by simp [hn]))
    simp only [LfuSpec.lookup] at this ⊢
    simp only [List.map_cons, List.lookup_cons, hx]
    exact this

theorem lookup_map_some (f : Node → Key × Val × Nat) (l1 l2 : List Node) (n : Node)
    (h : ∀ x ∈ l1, (f x).1 ≠ (f n).1) :
    LfuSpec.lookup ((l1 ++ n :: l2).map f) (f n).1 = some ((f n).2.1, (f n).2.2) := by
  induction l1 with
  | nil => simp [LfuSpec.lookup]
  | cons x xs ih =>
    have hx : ((f n).1 == (f x).1) = false := beq_false_of_ne (Ne.symm (h x (by simp)))
    have := ih (fun n hn => h n (by simp [hn]))
    simp only [LfuSpec.lookup] at this ⊢
    simp only [List.cons_append, List.map_cons, List.lookup_cons, hx]
    exact this

theorem bump_map (f : Node → Key × Val × Nat) (nv : Option Val) (l1 l2 : List Node) (n : Node)
    (h : ∀ x ∈ l1, (f x).1 ≠ (f n).1) :
    LfuSpec.bump (f n).1 nv ((l1 ++ n :: l2).map f) =
      l1.map f ++ LfuSpec.insertBump ((f n).1, nv.getD (f n).2.1, (f n).2.2 + 1) (l2.map f) := by
  induction l1 with
  | nil => simp [LfuSpec.bump]
  | cons x xs ih =>
    have hx : (f x).1 ≠ (f n).1 := h x (by simp)
    have := ih (fun n hn => h n (by simp [hn]))
    simp only [List.cons_append, List.map_cons, LfuSpec.bump, if_neg hx, this]

theorem insertBump_map (f : Node → Key × Val × Nat) (e : Key × Val × Nat) (xs : List Node) :
    LfuSpec.insertBump e (xs.map f) =
      (xs.takeWhile (fun x => (f x).2.2 < e.2.2)).map f ++ e :: (xs.dropWhile (fun x => (f x).2.2 < e.2.2)).map f := by
  induction xs with
  | nil => simp [LfuSpec.insertBump]
  | cons x xs ih =>
    by_cases hx : (f x).2.2 < e.2.2
    · simp [LfuSpec.insertBump, hx, ih]
    · simp [LfuSpec.insertBump, hx]

theorem mem_insertBump (e x : Key × Val × Nat) (xs : LfuSpec.St) :
    x ∈ LfuSpec.insertBump e xs ↔ x = e ∨ x ∈ xs := by
  induction xs with
  | nil => simp [LfuSpec.insertBump]
  | cons y ys ih =>
    simp only [LfuSpec.insertBump]
    split
    · simp [ih]; grind
    · simp

theorem insertBump_sorted (e : Key × Val × Nat) (c : Nat) (he : e.2.2 = c + 1) (xs : LfuSpec.St)
    (hge : ∀ x ∈ xs, c ≤ x.2.2) (hs : (xs.map (·.2.2)).Pairwise (· ≤ ·)) :
    ((LfuSpec.insertBump e xs).map (·.2.2)).Pairwise (· ≤ ·) := by
  induction xs with
  | nil => simp [LfuSpec.insertBump]
  | cons y ys ih =>
    simp only [List.map_cons, List.pairwise_cons, List.mem_map, forall_exists_index, and_imp,
      forall_apply_eq_imp_iff₂] at hs
    simp only [LfuSpec.insertBump]
    split
    · rename_i hlt
      simp only [List.map_cons, List.pairwise_cons, List.mem_map, forall_exists_index, and_imp,
        forall_apply_eq_imp_iff₂]
      refine ⟨?_, ih (fun x hx => hge x (by simp [hx])) hs.2⟩
      intro a ha
      rcases (mem_insertBump _ _ _).1 ha with rfl | ha
      · omega
      · exact hs.1 a ha
    · rename_i hlt
      simp only [List.map_cons, List.pairwise_cons, List.mem_cons, List.mem_map, forall_eq_or_imp,
        forall_exists_index, and_imp, forall_apply_eq_imp_iff₂]
      refine ⟨⟨by omega, ?_⟩, hs.1, hs.2⟩
      intro a ha
      have := hs.1 a ha
      omega

theorem sorted_bump (A : List Nat) (c : Nat) (xs : LfuSpec.St) (e : Key × Val × Nat) (he : e.2.2 = c + 1)
    (h : (A ++ c :: xs.map (·.2.2)).Pairwise (· ≤ ·)) :
    (A ++ (LfuSpec.insertBump e xs).map (·.2.2)).Pairwise (· ≤ ·) := by
  rw [List.pairwise_append] at h ⊢
  obtain ⟨h1, h2, h3⟩ := h
  simp only [List.pairwise_cons, List.mem_map, forall_exists_index, and_imp, forall_apply_eq_imp_iff₂] at h2
  refine ⟨h1, insertBump_sorted e c he xs h2.1 h2.2, ?_⟩
  intro a ha b hb
  obtain ⟨x, hx, rfl⟩ := List.mem_map.1 hb
  have hc := h3 a ha c (by simp)
  rcases (mem_insertBump _ _ _).1 hx with rfl | hx
  · omega
  · have := h2.1 x hx
    omega

/-! ### `_inc_freq` -/

theorem swapWalk_eq (s : Lfu) (cnt : Nat) : ∀ (l2 : List Node) (fuel : Nat) (cur : Node), l2.length ≤ fuel →
    s.dll.next cur = l2.head? → Seg s.dll (some cur) l2 none →
    Lfu.swapWalk s cnt fuel cur = ((l2.takeWhile (fun x => (s.data x).2.2 < cnt)).getLast?).getD cur := by
  intro l2
  induction l2 with
  | nil =>
    intro fuel cur _ hn _
    cases fuel with
    | zero => simp [Lfu.swapWalk]
    | succ f => simp [Lfu.swapWalk, hn]
  | cons x xs ih =>
    intro fuel cur hf hn hs
    cases fuel with
    | zero => simp at hf
    | succ f =>
      rw [seg_cons] at hs
      simp only [List.head?_cons] at hn
      simp only [Lfu.swapWalk, hn]
      by_cases hx : (s.data x).2.2 < cnt
      · rw [if_pos hx, ih f x (by simpa using hf) (by simpa using hs.2.1) hs.2.2]
        simp [hx, List.getLast?_cons]
      · rw [if_neg hx]
        simp [hx]

theorem incFreq_eq (s : Lfu) (n : Node) :
    Lfu.incFreq s n =
      { s with
        data := updD s.data n ((s.data n).1, (s.data n).2.1, (s.data n).2.2 + 1)
        dll := moveAfter s.dll n
          (Lfu.swapWalk { s with data := updD s.data n ((s.data n).1, (s.data n).2.1, (s.data n).2.2 + 1) }
            ((s.data n).2.2 + 1) s.dll.size.toNat n) } := by
  unfold Lfu.incFreq
  simp only
  split
  · rename_i h
    rw [h]
    simp [moveAfter]
  · rfl

/-- the reference list after the move -/
theorem moved_list {l1 l2 p rest : List Node} {n : Node} (hnd : (l1 ++ n :: l2).Nodup) (hl2 : l2 = p ++ rest) :
    (if n = p.getLast?.getD n then l1 ++ n :: l2
      else insertAfter n (p.getLast?.getD n) ((l1 ++ n :: l2).erase n)) = l1 ++ p ++ n :: rest := by
  subst hl2
  have hn1 : n ∉ l1 := by
    intro h; rw [List.nodup_append] at hnd; exact hnd.2.2 n h n (by simp) rfl
  by_cases hp : p = []
  · subst hp; simp
  · obtain ⟨p', a, rfl⟩ := exists_snoc hp
    have hna : n ≠ a := by
      rintro rfl
      rw [List.nodup_append] at hnd
      have := hnd.2.1
      simp at this
    have ha : a ∉ l1 ++ p' := by
      intro h
      rw [List.nodup_append] at hnd
      rcases List.mem_append.1 h with h | h
      · exact hnd.2.2 a h a (by simp) rfl
      · have := hnd.2.1
        simp only [List.nodup_cons, List.append_assoc, List.nodup_append] at this
        exact this.2.2.2 a h a (by simp) rfl
    simp only [List.getLast?_append, List.getLast?_singleton, Option.some_or, Option.getD_some, if_neg hna]
    rw [erase_split hn1]
    have : l1 ++ (p' ++ [a] ++ rest) = (l1 ++ p') ++ a :: rest := by simp
    rw [this, insertAfter_split ha]
    simp

theorem incFreq_good {s : Lfu} {l1 l2 : List Node} {n : Node} (g : s.Good (l1 ++ n :: l2)) :
    ∃ l', (Lfu.incFreq s n).Good l' ∧
      l'.map (Lfu.incFreq s n).data = l1.map s.data ++
        LfuSpec.insertBump ((s.data n).1, (s.data n).2.1, (s.data n).2.2 + 1) (l2.map s.data) ∧
      (Lfu.incFreq s n).data n = ((s.data n).1, (s.data n).2.1, (s.data n).2.2 + 1) ∧
      (Lfu.incFreq s n).cap = s.cap := by
  have sp := g.rep.split
  rw [incFreq_eq]
  generalize he : ((s.data n).1, (s.data n).2.1, (s.data n).2.2 + 1) = e
  have he1 : e.1 = (s.data n).1 := by rw [← he]
  have he2 : e.2.2 = (s.data n).2.2 + 1 := by rw [← he]
  generalize hd2 : updD s.data n e = data2
  have hdn : data2 n = e := by simp [← hd2, updD]
  have hdo : ∀ x, x ≠ n → data2 x = s.data x := by intro x hx; simp [← hd2, updD, hx]
  have hk : ∀ x, (data2 x).1 = (s.data x).1 := by
    intro x; by_cases hx : x = n
    · rw [hx, hdn, he1]
    · rw [hdo x hx]
  -- the walk
  have hsz : s.dll.size.toNat = l2.length + (l1.length + 1) := by
    rw [sp.size]; omega
  have hw := swapWalk_eq { s with data := data2 } ((s.data n).2.2 + 1) l2 s.dll.size.toNat n
    (by rw [hsz]; omega) sp.next sp.seg2
  simp only at hw
  rw [hw]
  generalize hp : l2.takeWhile (fun x => (data2 x).2.2 < (s.data n).2.2 + 1) = p
  generalize hr : l2.dropWhile (fun x => (data2 x).2.2 < (s.data n).2.2 + 1) = rest
  have hl2 : l2 = p ++ rest := by rw [← hp, ← hr, List.takeWhile_append_dropWhile]
  have hsw : p.getLast?.getD n ∈ l1 ++ n :: l2 := by
    cases hgl : p.getLast? with
    | none => simp
    | some a =>
      have : a ∈ p := List.mem_of_getLast? hgl
      simp [hl2, this]
  have hrep := repr_moveAfter g.rep (by simp : n ∈ l1 ++ n :: l2) hsw
  rw [moved_list g.rep.nodup hl2] at hrep
  have hperm : (l1 ++ p ++ n :: rest).Perm (l1 ++ n :: l2) := by
    rw [hl2, List.append_assoc]
    exact List.Perm.append_left l1 List.perm_middle
  have hmem : ∀ x, x ∈ l1 ++ p ++ n :: rest ↔ x ∈ l1 ++ n :: l2 := fun x => hperm.mem_iff
  have hn1 : ∀ x ∈ l1, data2 x = s.data x := fun x hx => hdo x (by rintro rfl; exact sp.n1 hx)
  have hn2 : ∀ x ∈ l2, data2 x = s.data x := fun x hx => hdo x (by rintro rfl; exact sp.n2 hx)
  have hmap : (l1 ++ p ++ n :: rest).map data2 = l1.map s.data ++ LfuSpec.insertBump e (l2.map s.data) := by
    rw [← List.map_congr_left hn2, insertBump_map, he2, hp, hr, ← List.map_congr_left hn1]
    simp [hdn]
  refine ⟨l1 ++ p ++ n :: rest, ?_, hmap, hdn, rfl⟩
  refine ⟨g.cap_pos, hrep, ?_, ?_, ?_, ?_, ?_, ?_, g.dict⟩
  · rw [hperm.length_eq]; exact g.len
  · show (List.map (fun x => (data2 x).1) _).Nodup
    simp only [hk]
    exact (hperm.map _).nodup_iff.2 g.keys
  · intro k x
    show (k, x) ∈ s.cache ↔ _ ∧ (data2 x).1 = k
    rw [g.mem, hmem, hk]
  · show s.cache.length = _
    rw [hperm.length_eq]; exact g.clen
  · show (List.map (fun x => (data2 x).2.2) _).Pairwise (· ≤ ·)
    have : List.map (fun x => (data2 x).2.2) (l1 ++ p ++ n :: rest) =
        ((l1 ++ p ++ n :: rest).map data2).map (·.2.2) := by rw [List.map_map]; rfl
    rw [this, hmap, List.map_append]
    apply sorted_bump _ _ _ _ he2
    simpa [Function.comp_def] using g.sorted
  · intro x hx
    show 1 ≤ (data2 x).2.2
    by_cases hxn : x = n
    · rw [hxn, hdn, he2]; omega
    · rw [hdo x hxn]; exact g.pos x ((hmem x).1 hx)

/-! ### storing a new key: the new entry `(k, v, 1)` sits in the node at the front -/

theorem good_front {s s' : Lfu} {h : Node} {tl : List Node} {c' : PyDict} {k : Key} {v : Val}
    (cap_pos : 1 ≤ s'.cap) (rep : Rep s'.dll (h :: tl)) (len : tl.length + 1 ≤ s'.cap)
    (hdata : s'.data = updD s.data h (k, v, 1)) (hcache : s'.cache = c' ++ [(k, h)])
    (hkeys : (tl.map (fun n => (s.data n).1)).Nodup) (hk : ∀ x ∈ tl, (s.data x).1 ≠ k)
    (hmem : ∀ k' x, (k', x) ∈ c' ↔ (x ∈ tl ∧ (s.data x).1 = k'))
    (hclen : c'.length = tl.length) (sorted : (tl.map (fun n => (s.data n).2.2)).Pairwise (· ≤ ·))
    (pos : ∀ x ∈ tl, 1 ≤ (s.data x).2.2) (hdict : (c'.map (·.1)).Nodup) :
    s'.Good (h :: tl) ∧ (h :: tl).map s'.data = (k, v, 1) :: tl.map s.data := by
  have hh : h ∉ tl := (List.nodup_cons.1 rep.nodup).1
  have hdh : s'.data h = (k, v, 1) := by simp [hdata, updD]
  have hdo : ∀ x ∈ tl, s'.data x = s.data x := by
    intro x hx
    have : x ≠ h := by rintro rfl; exact hh hx
    simp [hdata, updD, this]
  have hmap : (h :: tl).map s'.data = (k, v, 1) :: tl.map s.data := by
    rw [List.map_cons, hdh, List.map_congr_left hdo]
  have hmapk : (h :: tl).map (fun n => (s'.data n).1) = k :: tl.map (fun n => (s.data n).1) := by
    rw [List.map_cons, hdh]
    congr 1
    exact List.map_congr_left (fun x hx => by rw [hdo x hx])
  have hmapc : (h :: tl).map (fun n => (s'.data n).2.2) = 1 :: tl.map (fun n => (s.data n).2.2) := by
    rw [List.map_cons, hdh]
    congr 1
    exact List.map_congr_left (fun x hx => by rw [hdo x hx])
  refine ⟨⟨cap_pos, rep, by simpa using len, ?_, ?_, ?_, ?_, ?_, ?_⟩, hmap⟩
  · rw [hmapk, List.nodup_cons]
    refine ⟨?_, hkeys⟩
    intro hx
    obtain ⟨x, hx, he⟩ := List.mem_map.1 hx
    exact hk x hx he
  · intro k' x
    rw [hcache, List.mem_append, hmem, List.mem_singleton, Prod.mk.injEq, List.mem_cons]
    constructor
    · rintro (⟨hx, he⟩ | ⟨rfl, rfl⟩)
      · exact ⟨Or.inr hx, by rw [hdo x hx]; exact he⟩
      · exact ⟨Or.inl rfl, by rw [hdh]⟩
    · rintro ⟨rfl | hx, he⟩
      · rw [hdh] at he
        exact Or.inr ⟨he.symm, rfl⟩
      · rw [hdo x hx] at he
        exact Or.inl ⟨hx, he⟩
  · rw [hcache]; simp [hclen]
  · rw [hmapc, List.pairwise_cons]
    refine ⟨?_, sorted⟩
    intro a ha
    obtain ⟨x, hx, rfl⟩ := List.mem_map.1 ha
    exact pos x hx
  · intro x hx
    rcases List.mem_cons.1 hx with rfl | hx
    · simp [hdh]
    · rw [hdo x hx]; exact pos x hx
  · rw [hcache, List.map_append, List.nodup_append]
    refine ⟨hdict, by simp, ?_⟩
    intro a ha b hb hab
    simp only [List.map_cons, List.map_nil, List.mem_singleton] at hb
    obtain ⟨q, hq, rfl⟩ := List.mem_map.1 ha
    have := (hmem q.1 q.2).1 hq
    exact hk q.2 this.1 (by rw [this.2, hab, hb])

theorem set_full_good {s : Lfu} {h : Node} {tl : List Node} (g : s.Good (h :: tl)) (k : Key) (v : Val)
    (hk : dictGet s.cache k = none) :
    Lfu.Good { s with cache := dictSet (dictDel s.cache (s.data h).1) k h, data := updD s.data h (k, v, 1) }
      (h :: tl) ∧
    (h :: tl).map (updD s.data h (k, v, 1)) = (k, v, 1) :: tl.map s.data := by
  have hkn := g.dictGet_none hk
  have hkeys := g.keys
  rw [List.map_cons, List.nodup_cons] at hkeys
  have hne : ∀ x ∈ tl, (s.data x).1 ≠ (s.data h).1 := by
    intro x hx he
    exact hkeys.1 (List.mem_map.2 ⟨x, hx, he⟩)
  have hlk : (dictDel s.cache (s.data h).1).lookup k = none := by
    rw [lookup_none_iff]
    intro n hn
    rw [dictDel_mem, g.mem] at hn
    exact hkn n hn.1.1 hn.1.2
  refine good_front (s := s) (c' := dictDel s.cache (s.data h).1) g.cap_pos g.rep (by simpa using g.len) rfl
    (dictSet_new _ _ _ hlk) hkeys.2 (fun x hx => hkn x (by simp [hx])) ?_ ?_ ?_ ?_ (dictDel_nodup _ _ g.dict)
  · intro k' x
    rw [dictDel_mem, g.mem]
    constructor
    · rintro ⟨⟨hx, he⟩, hne'⟩
      rcases List.mem_cons.1 hx with rfl | hx
      · exact absurd he.symm hne'
      · exact ⟨hx, he⟩
    · rintro ⟨hx, he⟩
      exact ⟨⟨by simp [hx], he⟩, by rw [← he]; exact hne x hx⟩
  · have := dictDel_length s.cache (s.data h).1 h g.dict ((g.mem _ _).2 ⟨by simp, rfl⟩)
    have hc := g.clen
    simp only [List.length_cons] at hc
    omega
  · exact (List.pairwise_cons.1 g.sorted).2
  · exact fun x hx => g.pos x (by simp [hx])

theorem set_new_good {s : Lfu} {l : List Node} (g : s.Good l) (k : Key) (v : Val)
    (hk : dictGet s.cache k = none) (hlen : s.cache.length < s.cap) :
    Lfu.Good { s with dll := (prepend s.dll).1, data := updD s.data s.dll.fresh (k, v, 1),
                      cache := dictSet s.cache k s.dll.fresh } (s.dll.fresh :: l) ∧
    (s.dll.fresh :: l).map (updD s.data s.dll.fresh (k, v, 1)) = (k, v, 1) :: l.map s.data := by
  have hkn := g.dictGet_none hk
  exact good_front (s := s) (c' := s.cache) g.cap_pos (repr_prepend g.rep) (by have := g.clen; simp only at *; omega) rfl
    (dictSet_new _ _ _ hk) g.keys hkn g.mem g.clen g.sorted g.pos g.dict

/-! ### deleting -/

theorem without_map (f : Node → Key × Val × Nat) (l : List Node) (n : Node) (hn : n ∈ l)
    (hnd : (l.map (fun x => (f x).1)).Nodup) :
    LfuSpec.without (l.map f) (f n).1 = (l.erase n).map f := by
  induction l with
  | nil => simp at hn
  | cons x xs ih =>
    rw [List.map_cons, List.nodup_cons] at hnd
    by_cases hx : x = n
    · subst hx
      rw [List.erase_cons_head]
      have : ∀ e ∈ xs.map f, e.1 ≠ (f x).1 := by
        intro e he h
        obtain ⟨y, hy, rfl⟩ := List.mem_map.1 he
        exact hnd.1 (List.mem_map.2 ⟨y, hy, h⟩)
      simp only [LfuSpec.without, List.map_cons, List.filter_cons]
      simp only [ne_eq, not_true_eq_false, decide_false, Bool.false_eq_true, ↓reduceIte]
      apply List.filter_eq_self.2
      intro e he
      simpa using this e he
    · have hn' : n ∈ xs := by
        rcases List.mem_cons.1 hn with h | h
        · exact absurd h.symm hx
        · exact h
      have hk : (f x).1 ≠ (f n).1 := by
        intro h
        exact hnd.1 (List.mem_map.2 ⟨n, hn', h.symm⟩)
      have hbeq : (x == n) = false := by simpa using hx
      rw [List.erase_cons, hbeq]
      have h2 : LfuSpec.without (f x :: xs.map f) (f n).1 = f x :: LfuSpec.without (xs.map f) (f n).1 := by
        simp [LfuSpec.without, hk]
      rw [List.map_cons, h2, ih hn' hnd.2]
      simp

theorem del_good {s : Lfu} {l : List Node} {n : Node} (g : s.Good l) (hn : n ∈ l) :
    Lfu.Good { s with cache := dictDel s.cache (s.data n).1, dll := remove s.dll n } (l.erase n) := by
  have hsub : (l.erase n).Sublist l := List.erase_sublist
  have hmemE : ∀ x, x ∈ l.erase n ↔ x ≠ n ∧ x ∈ l := fun x => g.rep.nodup.mem_erase_iff
  refine ⟨g.cap_pos, rep_remove g.rep hn, Nat.le_trans hsub.length_le g.len, g.keys.sublist (hsub.map _), ?_, ?_,
    g.sorted.sublist (hsub.map _), fun x hx => g.pos x (hsub.mem hx), dictDel_nodup _ _ g.dict⟩
  · intro k x
    show (k, x) ∈ dictDel s.cache (s.data n).1 ↔ _
    rw [dictDel_mem, g.mem, hmemE]
    constructor
    · rintro ⟨⟨hx, he⟩, hne⟩
      exact ⟨⟨by rintro rfl; exact hne he.symm, hx⟩, he⟩
    · rintro ⟨⟨hne, hx⟩, he⟩
      refine ⟨⟨hx, he⟩, ?_⟩
      intro h
      exact hne (g.key_inj hx hn (by rw [he, h]))
  · show (dictDel s.cache (s.data n).1).length = _
    have := dictDel_length s.cache (s.data n).1 n g.dict ((g.mem _ _).2 ⟨hn, rfl⟩)
    have hc := g.clen
    have := List.length_erase_of_mem hn
    have hpos : 0 < l.length := List.length_pos_of_mem hn
    omega

/-! ### the branches of the concrete operations -/

theorem set_eq_some {s : Lfu} {k : Key} {n : Node} (v : Val) (h : dictGet s.cache k = some n) :
    Lfu.set s k v = .ok (Lfu.incFreq { s with data := updD s.data n ((s.data n).1, v, (s.data n).2.2) } n) := by
  unfold Lfu.set
  simp only [h]

theorem set_eq_full {s : Lfu} {k : Key} {hd : Node} (v : Val) (h : dictGet s.cache k = none)
    (hfull : s.cache.length ≥ s.cap) (hh : s.dll.head = some hd) (hg : dictGet s.cache (s.data hd).1 = some hd) :
    Lfu.set s k v =
      .ok { s with cache := dictSet (dictDel s.cache (s.data hd).1) k hd, data := updD s.data hd (k, v, 1) } := by
  unfold Lfu.set
  simp only [h, if_pos hfull, hh, hg]

theorem set_eq_new {s : Lfu} {k : Key} (v : Val) (h : dictGet s.cache k = none) (hfull : ¬ s.cache.length ≥ s.cap) :
    Lfu.set s k v =
      .ok { s with dll := (prepend s.dll).1, data := updD s.data s.dll.fresh (k, v, 1),
                   cache := dictSet s.cache k s.dll.fresh } := by
  unfold Lfu.set
  simp only [h, if_neg hfull]
  rfl

end LfuRefine

theorem lfu_init (cap : Nat) (h : 1 ≤ cap) : Lfu.R cap (Lfu.new cap) [] := by
  have g : (Lfu.new cap).Good [] :=
    ⟨h, repr_empty, by simp, by simp, by simp [Lfu.new], rfl, by simp, by simp, by simp [Lfu.new]⟩
  exact ⟨(Lfu.inv_iff _).2 ⟨[], g⟩, rfl, by rw [g.abs_eq]; rfl⟩

namespace LfuRefine

theorem R_of_good {s : Lfu} {l : List Node} (g : s.Good l) : Lfu.R s.cap s (l.map s.data) :=
  ⟨(Lfu.inv_iff _).2 ⟨l, g⟩, rfl, g.abs_eq⟩

theorem lfu_get_sim (cap : Nat) (s : Lfu) (t : LfuSpec.St) (k : Key) (hR : Lfu.R cap s t) :
    RelRes (Lfu.R cap) s t (Lfu.get s k) (LfuSpec.get t k) := by
  obtain ⟨hinv, hcap, habs⟩ := hR
  obtain ⟨l, g⟩ := (Lfu.inv_iff s).1 hinv
  have hR : Lfu.R cap s t := ⟨hinv, hcap, habs⟩
  subst habs hcap
  cases hd : dictGet s.cache k with
  | none =>
    have hlk : LfuSpec.lookup s.abs k = none := by
      rw [g.abs_eq]; exact lookup_map_none _ _ _ (g.dictGet_none hd)
    simp only [Lfu.get, hd, LfuSpec.get, hlk, RelRes]
    exact ⟨trivial, hR⟩
  | some n =>
    obtain ⟨hn, hkn⟩ := g.dictGet_some hd
    obtain ⟨l1, l2, rfl⟩ := List.append_of_mem hn
    subst hkn
    have sp := g.rep.split
    have h1 : ∀ x ∈ l1, (s.data x).1 ≠ (s.data n).1 := by
      intro x hx he
      have := g.key_inj (by simp [hx]) hn he
      exact sp.n1 (this ▸ hx)
    have hlk := lookup_map_some s.data l1 l2 n h1
    obtain ⟨l', g', hmap, hdn, hc⟩ := incFreq_good g
    have hb := bump_map s.data none l1 l2 n h1
    simp only [Option.getD_none] at hb
    rw [g.abs_eq]
    simp only [Lfu.get, hd, LfuSpec.get, hlk, RelRes, hb, hdn, and_true]
    rw [← hmap, ← hc]
    exact R_of_good g'

theorem lfu_set_sim (cap : Nat) (s : Lfu) (t : LfuSpec.St) (k : Key) (v : Val) (hR : Lfu.R cap s t) :
    RelSt (Lfu.R cap) s t (Lfu.set s k v) (LfuSpec.set cap t k v) := by
  obtain ⟨hinv, hcap, habs⟩ := hR
  obtain ⟨l, g⟩ := (Lfu.inv_iff s).1 hinv
  subst habs hcap
  cases hd : dictGet s.cache k with
  | some n =>
    obtain ⟨hn, hkn⟩ := g.dictGet_some hd
    obtain ⟨l1, l2, rfl⟩ := List.append_of_mem hn
    subst hkn
    have sp := g.rep.split
    have h1 : ∀ x ∈ l1, (s.data x).1 ≠ (s.data n).1 := by
      intro x hx he
      have := g.key_inj (by simp [hx]) hn he
      exact sp.n1 (this ▸ hx)
    have hlk := lookup_map_some s.data l1 l2 n h1
    have hb := bump_map s.data (some v) l1 l2 n h1
    simp only [Option.getD_some] at hb
    rw [set_eq_some v hd, g.abs_eq]
    simp only [LfuSpec.set, hlk, Option.isSome_some, if_true, RelSt, hb]
    -- the state with the value stored
    generalize hs1 : ({ s with data := updD s.data n ((s.data n).1, v, (s.data n).2.2) } : Lfu) = s1
    have hd1 : s1.data = updD s.data n ((s.data n).1, v, (s.data n).2.2) := by rw [← hs1]
    have hdn1 : s1.data n = ((s.data n).1, v, (s.data n).2.2) := by simp [hd1, updD]
    have hdo1 : ∀ x, x ≠ n → s1.data x = s.data x := by intro x hx; simp [hd1, updD, hx]
    have g1 : s1.Good (l1 ++ n :: l2) := by
      refine g.congr (by rw [← hs1]) (by rw [← hs1]) (by rw [← hs1]) ?_ ?_
      · intro x; by_cases hx : x = n
        · rw [hx, hdn1]
        · rw [hdo1 x hx]
      · intro x; by_cases hx : x = n
        · rw [hx, hdn1]
        · rw [hdo1 x hx]
    obtain ⟨l', g', hmap, _, hc⟩ := incFreq_good g1
    have e1 : l1.map s1.data = l1.map s.data :=
      List.map_congr_left (fun x hx => hdo1 x (by rintro rfl; exact sp.n1 hx))
    have e2 : l2.map s1.data = l2.map s.data :=
      List.map_congr_left (fun x hx => hdo1 x (by rintro rfl; exact sp.n2 hx))
    rw [e1, e2, hdn1] at hmap
    simp only at hmap
    rw [← hmap]
    have hc' : (Lfu.incFreq s1 n).cap = s.cap := by rw [hc, ← hs1]
    rw [← hc']
    exact R_of_good g'
  | none =>
    have hlk : LfuSpec.lookup s.abs k = none := by
      rw [g.abs_eq]; exact lookup_map_none _ _ _ (g.dictGet_none hd)
    by_cases hfull : s.cache.length ≥ s.cap
    · cases l with
      | nil =>
        have := g.clen
        have := g.cap_pos
        simp only [List.length_nil] at *
        omega
      | cons h tl =>
        have hh : s.dll.head = some h := by rw [g.rep.head]; rfl
        have hg := g.dictGet_of_mem (n := h) (by simp)
        obtain ⟨g', hmap⟩ := set_full_good g k v hd
        have hlen : (h :: tl).length ≥ s.cap := by rw [← g.clen]; exact hfull
        rw [g.abs_eq] at hlk
        rw [set_eq_full v hd hfull hh hg, g.abs_eq]
        simp only [List.map_cons] at hlk
        simp only [List.length_cons] at hlen
        simp only [LfuSpec.set, List.map_cons, hlk, Option.isSome_none, Bool.false_eq_true, if_false, List.length_map,
          List.length_cons, if_pos hlen, RelSt]
        have := R_of_good g'
        rw [hmap] at this
        exact this
    · obtain ⟨g', hmap⟩ := set_new_good g k v hd (by omega)
      have hlen : ¬ l.length ≥ s.cap := by rw [← g.clen]; exact hfull
      rw [g.abs_eq] at hlk
      rw [set_eq_new v hd hfull, g.abs_eq]
      simp only [LfuSpec.set, hlk, Option.isSome_none, Bool.false_eq_true, if_false, List.length_map,
        if_neg hlen, RelSt]
      have := R_of_good g'
      rw [hmap] at this
      exact this

theorem lfu_del_sim (cap : Nat) (s : Lfu) (t : LfuSpec.St) (k : Key) (hR : Lfu.R cap s t) :
    RelSt (Lfu.R cap) s t (Lfu.del s k) (LfuSpec.del t k) := by
  obtain ⟨hinv, hcap, habs⟩ := hR
  obtain ⟨l, g⟩ := (Lfu.inv_iff s).1 hinv
  have hR : Lfu.R cap s t := ⟨hinv, hcap, habs⟩
  subst habs hcap
  cases hd : dictGet s.cache k with
  | none =>
    have hlk : LfuSpec.lookup s.abs k = none := by
      rw [g.abs_eq]; exact lookup_map_none _ _ _ (g.dictGet_none hd)
    simp only [Lfu.del, hd, LfuSpec.del, hlk, RelSt]
    exact ⟨rfl, hR⟩
  | some n =>
    obtain ⟨hn, hkn⟩ := g.dictGet_some hd
    subst hkn
    have hw := without_map s.data l n hn g.keys
    obtain ⟨l1, l2, rfl⟩ := List.append_of_mem hn
    have sp := g.rep.split
    have h1 : ∀ x ∈ l1, (s.data x).1 ≠ (s.data n).1 := by
      intro x hx he
      have := g.key_inj (by simp [hx]) hn he
      exact sp.n1 (this ▸ hx)
    have hlk := lookup_map_some s.data l1 l2 n h1
    rw [g.abs_eq]
    simp only [Lfu.del, hd, LfuSpec.del, hlk, Option.isSome_some, if_true, RelSt, hw]
    exact R_of_good (del_good g hn)

end LfuRefine

theorem lfu_sim (cap : Nat) : Sim lfuPrim (LfuSpec.prim cap) (Lfu.R cap) := by
  refine ⟨lfu_get_sim cap, lfu_set_sim cap, lfu_del_sim cap, ?_, ?_⟩
  · rintro s t ⟨hinv, hcap, habs⟩
    obtain ⟨l, g⟩ := (Lfu.inv_iff s).1 hinv
    subst habs
    show Lfu.keys s = s.abs.map (·.1)
    rw [Lfu.keys, g.nodes_eq, g.abs_eq, List.map_map]
    rfl
  · rintro s t ⟨hinv, hcap, habs⟩
    obtain ⟨l, g⟩ := (Lfu.inv_iff s).1 hinv
    subst habs
    show s.cache.length = s.abs.length
    rw [g.abs_eq, g.clen, List.length_map]

theorem lfu_R_wf (cap : Nat) (s : Lfu) (t : LfuSpec.St) (h : Lfu.R cap s t) : LfuSpec.Wf cap t ∧ 1 ≤ cap := by
  obtain ⟨hinv, hcap, habs⟩ := h
  obtain ⟨l, g⟩ := (Lfu.inv_iff s).1 hinv
  subst habs hcap
  rw [g.abs_eq]
  refine ⟨⟨?_, by simpa using g.len, ?_, ?_⟩, g.cap_pos⟩
  · rw [List.map_map]; exact g.keys
  · rw [List.map_map]; exact g.sorted
  · intro e he
    obtain ⟨x, hx, rfl⟩ := List.mem_map.1 he
    exact g.pos x hx

end WindVerif.Cache
