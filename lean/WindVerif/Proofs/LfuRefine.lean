import WindVerif.Spec.CacheOps
import WindVerif.Proofs.Dll
/-! The dict + linked-list model of `LFUCache` simulates the abstract counted list. -/
namespace WindVerif.Cache
open WindVerif.Dll

/-! ### dictionary lemmas -/

theorem lookup_none_iff (c : PyDict) (k : Key) : c.lookup k = none ↔ ∀ n, (k, n) ∉ c := by
  induction c with
  | nil => simp
  | cons p c ih =>
    obtain ⟨k', n'⟩ := p
    by_cases hk : k = k'
    · subst hk
      simp
      exact ⟨n', fun h => absurd rfl h⟩
    · have : (k == k') = false := by simpa using hk
      simp [List.lookup_cons, this, ih, hk]

theorem lookup_some_iff (c : PyDict) (k : Key) (n : Node) (hnd : (c.map (·.1)).Nodup) :
    c.lookup k = some n ↔ (k, n) ∈ c := by
  induction c with
  | nil => simp
  | cons p c ih =>
    obtain ⟨k', n'⟩ := p
    simp only [List.map_cons, List.nodup_cons] at hnd
    by_cases hk : k = k'
    · subst hk
      have : ∀ m, (k, m) ∉ c := fun m hm => hnd.1 (List.mem_map.2 ⟨_, hm, rfl⟩)
      simp [this, eq_comm]
    · have : (k == k') = false := by simpa using hk
      simp [List.lookup_cons, this, ih hnd.2, hk]

theorem dictDel_mem (c : PyDict) (k k' : Key) (n : Node) : (k', n) ∈ dictDel c k ↔ (k', n) ∈ c ∧ k' ≠ k := by
  simp [dictDel]

theorem dictDel_nodup (c : PyDict) (k : Key) (h : (c.map (·.1)).Nodup) : ((dictDel c k).map (·.1)).Nodup :=
  h.sublist (List.Sublist.map _ List.filter_sublist)

theorem dictDel_length (c : PyDict) (k : Key) (n : Node) (hnd : (c.map (·.1)).Nodup) (h : (k, n) ∈ c) :
    (dictDel c k).length + 1 = c.length := by
  induction c with
  | nil => simp at h
  | cons p c ih =>
    simp only [List.map_cons, List.nodup_cons] at hnd
    by_cases hp : p.1 = k
    · have hc : dictDel c k = c := by
        apply List.filter_eq_self.2
        intro q hq
        have : q.1 ≠ k := fun he => hnd.1 (List.mem_map.2 ⟨q, hq, by rw [he, hp]⟩)
        simpa using this
      have : dictDel (p :: c) k = dictDel c k := by simp [dictDel, hp]
      rw [this, hc]; simp
    · have hc : (k, n) ∈ c := by
        rcases List.mem_cons.1 h with h | h
        · exact absurd (by rw [← h]) hp
        · exact h
      have := ih hnd.2 hc
      have h2 : dictDel (p :: c) k = p :: dictDel c k := by simp [dictDel, hp]
      rw [h2]; simp [this]

theorem dictSet_new (c : PyDict) (k : Key) (n : Node) (h : c.lookup k = none) : dictSet c k n = c ++ [(k, n)] := by
  simp [dictSet, h]

/-! ### the invariant with its witness list made explicit -/

structure Lfu.Good (s : Lfu) (l : List Node) : Prop where
  cap_pos : 1 ≤ s.cap
  rep     : Rep s.dll l
  len     : l.length ≤ s.cap
  keys    : (l.map (fun n => (s.data n).1)).Nodup
  mem     : ∀ k n, (k, n) ∈ s.cache ↔ (n ∈ l ∧ (s.data n).1 = k)
  clen    : s.cache.length = l.length
  sorted  : (l.map (fun n => (s.data n).2.2)).Pairwise (· ≤ ·)
  pos     : ∀ n ∈ l, 1 ≤ (s.data n).2.2
  dict    : (s.cache.map (·.1)).Nodup

theorem Lfu.inv_iff (s : Lfu) : s.Inv ↔ ∃ l, s.Good l := by
  constructor
  · rintro ⟨h1, ⟨l, h2, h3, h4, h5, h6, h7, h8⟩, h9⟩
    exact ⟨l, h1, h2, h3, h4, h5, h6, h7, h8, h9⟩
  · rintro ⟨l, h1, h2, h3, h4, h5, h6, h7, h8, h9⟩
    exact ⟨h1, ⟨l, h2, h3, h4, h5, h6, h7, h8⟩, h9⟩

namespace Lfu.Good
variable {s : Lfu} {l : List Node}

theorem nodes_eq (g : s.Good l) : s.nodes = l := by
  have := walkF_eq s.dll l g.rep 0
  have hs : s.dll.size.toNat = l.length := by rw [g.rep.size]; simp
  simpa [Lfu.nodes, hs] using this

theorem abs_eq (g : s.Good l) : s.abs = l.map s.data := by
  have := g.nodes_eq
  simp only [Lfu.nodes] at this
  simp [Lfu.abs, this]

theorem key_inj (g : s.Good l) {a b : Node} (ha : a ∈ l) (hb : b ∈ l) (h : (s.data a).1 = (s.data b).1) : a = b := by
  have := g.keys
  clear g
  induction l with
  | nil => simp at ha
  | cons x xs ih =>
    simp only [List.map_cons, List.nodup_cons, List.mem_map, not_exists, not_and] at this
    rcases List.mem_cons.1 ha with ha' | ha' <;> rcases List.mem_cons.1 hb with hb' | hb'
    · rw [ha', hb']
    · subst ha'; exact absurd h.symm (this.1 b hb')
    · subst hb'; exact absurd h (this.1 a ha')
    · exact ih ha' hb' this.2

theorem dictGet_some (g : s.Good l) {k : Key} {n : Node} (h : dictGet s.cache k = some n) :
    n ∈ l ∧ (s.data n).1 = k :=
  (g.mem k n).1 ((lookup_some_iff _ _ _ g.dict).1 h)

theorem dictGet_of_mem (g : s.Good l) {n : Node} (h : n ∈ l) : dictGet s.cache (s.data n).1 = some n :=
  (lookup_some_iff _ _ _ g.dict).2 ((g.mem _ n).2 ⟨h, rfl⟩)

theorem dictGet_none (g : s.Good l) {k : Key} (h : dictGet s.cache k = none) : ∀ n ∈ l, (s.data n).1 ≠ k := by
  intro n hn he
  exact (lookup_none_iff _ _).1 h n ((g.mem k n).2 ⟨hn, he⟩)

/-- replacing state components that keep keys and counts pointwise -/
theorem congr {s' : Lfu} (g : s.Good l) (hc : s'.cap = s.cap) (hd : s'.dll = s.dll) (hca : s'.cache = s.cache)
    (hk : ∀ x, (s'.data x).1 = (s.data x).1) (hm : ∀ x, (s'.data x).2.2 = (s.data x).2.2) : s'.Good l := by
  obtain ⟨h1, h2, h3, h4, h5, h6, h7, h8, h9⟩ := g
  refine ⟨hc ▸ h1, hd ▸ h2, hc ▸ h3, ?_, ?_, hca ▸ h6, ?_, ?_, hca ▸ h9⟩
  · simpa [hk] using h4
  · simpa [hk, hca] using h5
  · simpa [hm] using h7
  · simpa [hm] using h8

end Lfu.Good

/-! ### the abstract list: lookup, bump, insertBump -/

theorem lookup_map_none (f : Node → Key × Val × Nat) (l : List Node) (k : Key) (h : ∀ n ∈ l, (f n).1 ≠ k) :
    LfuSpec.lookup (l.map f) k = none := by
  induction l with
  | nil => rfl
  | cons x xs ih =>
    have hx : (k == (f x).1) = false := beq_false_of_ne (Ne.symm (h x (by simp)))
    have := ih (fun n hn => h n (by simp [hn]))
    simp only [LfuSpec.lookup] at this ⊢
    simp only [List.map_cons, List.lookup_cons, hx]
    exact this

theorem lookup_map_some (f : Node → Key × Val × Nat) (l1 l2 : List Node) (n : Node)
    (h : ∀ x ∈ l1, (f x).1 ≠ (f n).1) :
    LfuSpec.lookup ((l1 ++ n :: l2).map f) (f n).1 = some ((f n).2.1, (f n).2.2) := by
  induction l1 with
  | nil => simp [LfuSpec.lookup]
  | cons x xs ih =>
    have hx : ((f n).1 == (f x).1) = false := beq_false_of_ne (Ne.symm (h x (by simp)))
    have := ih (fun n hn => h n (by simp [hn]))
    simp only [LfuSpec.lookup] at this ⊢
    simp only [List.cons_append, List.map_cons, List.lookup_cons, hx]
    exact this

theorem bump_map (f : Node → Key × Val × Nat) (nv : Option Val) (l1 l2 : List Node) (n : Node)
    (h : ∀ x ∈ l1, (f x).1 ≠ (f n).1) :
    LfuSpec.bump (f n).1 nv ((l1 ++ n :: l2).map f) =
      l1.map f ++ LfuSpec.insertBump ((f n).1, nv.getD (f n).2.1, (f n).2.2 + 1) (l2.map f) := by
  induction l1 with
  | nil => simp [LfuSpec.bump]
  | cons x xs ih =>
    have hx : (f x).1 ≠ (f n).1 := h x (by simp)
    have := ih (fun n hn => h n (by simp [hn]))
    simp only [List.cons_append, List.map_cons, LfuSpec.bump, if_neg hx, this]

theorem insertBump_map (f : Node → Key × Val × Nat) (e : Key × Val × Nat) (xs : List Node) :
    LfuSpec.insertBump e (xs.map f) =
      (xs.takeWhile (fun x => (f x).2.2 < e.2.2)).map f ++ e :: (xs.dropWhile (fun x => (f x).2.2 < e.2.2)).map f := by
  induction xs with
  | nil => simp [LfuSpec.insertBump]
  | cons x xs ih =>
    by_cases hx : (f x).2.2 < e.2.2
    · simp [LfuSpec.insertBump, hx, ih]
    · simp [LfuSpec.insertBump, hx]

theorem mem_insertBump (e x : Key × Val × Nat) (xs : LfuSpec.St) :
    x ∈ LfuSpec.insertBump e xs ↔ x = e ∨ x ∈ xs := by
  induction xs with
  | nil => simp [LfuSpec.insertBump]
  | cons y ys ih =>
    simp only [LfuSpec.insertBump]
    split
    · simp [ih]; grind
    · simp

theorem insertBump_sorted (e : Key × Val × Nat) (c : Nat) (he : e.2.2 = c + 1) (xs : LfuSpec.St)
    (hge : ∀ x ∈ xs, c ≤ x.2.2) (hs : (xs.map (·.2.2)).Pairwise (· ≤ ·)) :
    ((LfuSpec.insertBump e xs).map (·.2.2)).Pairwise (· ≤ ·) := by
  induction xs with
  | nil => simp [LfuSpec.insertBump]
  | cons y ys ih =>
    simp only [List.map_cons, List.pairwise_cons, List.mem_map, forall_exists_index, and_imp,
      forall_apply_eq_imp_iff₂] at hs
    simp only [LfuSpec.insertBump]
    split
    · rename_i hlt
      simp only [List.map_cons, List.pairwise_cons, List.mem_map, forall_exists_index, and_imp,
        forall_apply_eq_imp_iff₂]
      refine ⟨?_, ih (fun x hx => hge x (by simp [hx])) hs.2⟩
      intro a ha
      rcases (mem_insertBump _ _ _).1 ha with rfl | ha
      · omega
      · exact hs.1 a ha
    · rename_i hlt
      simp only [List.map_cons, List.pairwise_cons, List.mem_cons, List.mem_map, forall_eq_or_imp,
        forall_exists_index, and_imp, forall_apply_eq_imp_iff₂]
      refine ⟨⟨by omega, ?_⟩, hs.1, hs.2⟩
      intro a ha
      have := hs.1 a ha
      omega

theorem sorted_bump (A : List Nat) (c : Nat) (xs : LfuSpec.St) (e : Key × Val × Nat) (he : e.2.2 = c + 1)
    (h : (A ++ c :: xs.map (·.2.2)).Pairwise (· ≤ ·)) :
    (A ++ (LfuSpec.insertBump e xs).map (·.2.2)).Pairwise (· ≤ ·) := by
  rw [List.pairwise_append] at h ⊢
  obtain ⟨h1, h2, h3⟩ := h
  simp only [List.pairwise_cons, List.mem_map, forall_exists_index, and_imp, forall_apply_eq_imp_iff₂] at h2
  refine ⟨h1, insertBump_sorted e c he xs h2.1 h2.2, ?_⟩
  intro a ha b hb
  obtain ⟨x, hx, rfl⟩ := List.mem_map.1 hb
  have hc := h3 a ha c (by simp)
  rcases (mem_insertBump _ _ _).1 hx with rfl | hx
  · omega
  · have := h2.1 x hx
    omega

/-! ### `_inc_freq` -/

theorem swapWalk_eq (s : Lfu) (cnt : Nat) : ∀ (l2 : List Node) (fuel : Nat) (cur : Node), l2.length ≤ fuel →
    s.dll.next cur = l2.head? → Seg s.dll (some cur) l2 none →
    Lfu.swapWalk s cnt fuel cur = ((l2.takeWhile (fun x => (s.data x).2.2 < cnt)).getLast?).getD cur := by
  intro l2
  induction l2 with
  | nil =>
    intro fuel cur _ hn _
    cases fuel with
    | zero => simp [Lfu.swapWalk]
    | succ f => simp [Lfu.swapWalk, hn]
  | cons x xs ih =>
    intro fuel cur hf hn hs
    cases fuel with
    | zero => simp at hf
    | succ f =>
      rw [seg_cons] at hs
      simp only [List.head?_cons] at hn
      simp only [Lfu.swapWalk, hn]
      by_cases hx : (s.data x).2.2 < cnt
      · rw [if_pos hx, ih f x (by simpa using hf) (by simpa using hs.2.1) hs.2.2]
        simp [hx, List.getLast?_cons]
      · rw [if_neg hx]
        simp [hx]

theorem incFreq_eq (s : Lfu) (n : Node) :
    Lfu.incFreq s n =
      { s with
        data := updD s.data n ((s.data n).1, (s.data n).2.1, (s.data n).2.2 + 1)
        dll := moveAfter s.dll n
          (Lfu.swapWalk { s with data := updD s.data n ((s.data n).1, (s.data n).2.1, (s.data n).2.2 + 1) }
            ((s.data n).2.2 + 1) s.dll.size.toNat n) } := by
  unfold Lfu.incFreq
  simp only
  split
  · rename_i h
    rw [h]
    simp [moveAfter]
  · rfl

/-- the reference list after the move -/
theorem moved_list {l1 l2 p rest : List Node} {n : Node} (hnd : (l1 ++ n :: l2).Nodup) (hl2 : l2 = p ++ rest) :
    (if n = p.getLast?.getD n then l1 ++ n :: l2
      else insertAfter n (p.getLast?.getD n) ((l1 ++ n :: l2).erase n)) = l1 ++ p ++ n :: rest := by
  subst hl2
  have hn1 : n ∉ l1 := by
    intro h; rw [List.nodup_append] at hnd; exact hnd.2.2 n h n (by simp) rfl
  by_cases hp : p = []
  · subst hp; simp
  · obtain ⟨p', a, rfl⟩ := exists_snoc hp
    have hna : n ≠ a := by
      rintro rfl
      rw [List.nodup_append] at hnd
      have := hnd.2.1
      simp at this
    have ha : a ∉ l1 ++ p' := by
      intro h
      rw [List.nodup_append] at hnd
      rcases List.mem_append.1 h with h | h
      · exact hnd.2.2 a h a (by simp) rfl
      · have := hnd.2.1
        simp only [List.nodup_cons, List.append_assoc, List.nodup_append] at this
        exact this.2.2.2 a h a (by simp) rfl
    simp only [List.getLast?_append, List.getLast?_singleton, Option.some_or, Option.getD_some, if_neg hna]
    rw [erase_split hn1]
    have : l1 ++ (p' ++ [a] ++ rest) = (l1 ++ p') ++ a :: rest := by simp
    rw [this, insertAfter_split ha]
    simp

theorem incFreq_good {s : Lfu} {l1 l2 : List Node} {n : Node} (g : s.Good (l1 ++ n :: l2)) :
    ∃ l', (Lfu.incFreq s n).Good l' ∧
      l'.map (Lfu.incFreq s n).data = l1.map s.data ++
        LfuSpec.insertBump ((s.data n).1, (s.data n).2.1, (s.data n).2.2 + 1) (l2.map s.data) ∧
      (Lfu.incFreq s n).data n = ((s.data n).1, (s.data n).2.1, (s.data n).2.2 + 1) ∧
      (Lfu.incFreq s n).cap = s.cap := by
  have sp := g.rep.split
  rw [incFreq_eq]
  generalize he : ((s.data n).1, (s.data n).2.1, (s.data n).2.2 + 1) = e
  have he1 : e.1 = (s.data n).1 := by rw [← he]
  have he2 : e.2.2 = (s.data n).2.2 + 1 := by rw [← he]
  generalize hd2 : updD s.data n e = data2
  have hdn : data2 n = e := by simp [← hd2, updD]
  have hdo : ∀ x, x ≠ n → data2 x = s.data x := by intro x hx; simp [← hd2, updD, hx]
  have hk : ∀ x, (data2 x).1 = (s.data x).1 := by
    intro x; by_cases hx : x = n
    · rw [hx, hdn, he1]
    · rw [hdo x hx]
  -- the walk
  have hsz : s.dll.size.toNat = l2.length + (l1.length + 1) := by
    rw [sp.size]; omega
  have hw := swapWalk_eq { s with data := data2 } ((s.data n).2.2 + 1) l2 s.dll.size.toNat n
    (by rw [hsz]; omega) sp.next sp.seg2
  simp only at hw
  rw [hw]
  generalize hp : l2.takeWhile (fun x => (data2 x).2.2 < (s.data n).2.2 + 1) = p
  generalize hr : l2.dropWhile (fun x => (data2 x).2.2 < (s.data n).2.2 + 1) = rest
  have hl2 : l2 = p ++ rest := by rw [← hp, ← hr, List.takeWhile_append_dropWhile]
  have hsw : p.getLast?.getD n ∈ l1 ++ n :: l2 := by
    cases hgl : p.getLast? with
    | none => simp
    | some a =>
      have : a ∈ p := List.mem_of_getLast? hgl
      simp [hl2, this]
  have hrep := repr_moveAfter g.rep (by simp : n ∈ l1 ++ n :: l2) hsw
  rw [moved_list g.rep.nodup hl2] at hrep
  have hperm : (l1 ++ p ++ n :: rest).Perm (l1 ++ n :: l2) := by
    rw [hl2, List.append_assoc]
    exact List.Perm.append_left l1 List.perm_middle
  have hmem : ∀ x, x ∈ l1 ++ p ++ n :: rest ↔ x ∈ l1 ++ n :: l2 := fun x => hperm.mem_iff
  have hn1 : ∀ x ∈ l1, data2 x = s.data x := fun x hx => hdo x (by rintro rfl; exact sp.n1 hx)
  have hn2 : ∀ x ∈ l2, data2 x = s.data x := fun x hx => hdo x (by rintro rfl; exact sp.n2 hx)
  have hmap : (l1 ++ p ++ n :: rest).map data2 = l1.map s.data ++ LfuSpec.insertBump e (l2.map s.data) := by
    rw [← List.map_congr_left hn2, insertBump_map, he2, hp, hr, ← List.map_congr_left hn1]
    simp [hdn]
  refine ⟨l1 ++ p ++ n :: rest, ?_, hmap, hdn, rfl⟩
  refine ⟨g.cap_pos, hrep, ?_, ?_, ?_, ?_, ?_, ?_, g.dict⟩
  · rw [hperm.length_eq]; exact g.len
  · show (List.map (fun x => (data2 x).1) _).Nodup
    simp only [hk]
    exact (hperm.map _).nodup_iff.2 g.keys
  · intro k x
    show (k, x) ∈ s.cache ↔ _ ∧ (data2 x).1 = k
    rw [g.mem, hmem, hk]
  · show s.cache.length = _
    rw [hperm.length_eq]; exact g.clen
  · show (List.map (fun x => (data2 x).2.2) _).Pairwise (· ≤ ·)
    have : List.map (fun x => (data2 x).2.2) (l1 ++ p ++ n :: rest) =
        ((l1 ++ p ++ n :: rest).map data2).map (·.2.2) := by rw [List.map_map]; rfl
    rw [this, hmap, List.map_append]
    apply sorted_bump _ _ _ _ he2
    simpa [Function.comp_def] using g.sorted
  · intro x hx
    show 1 ≤ (data2 x).2.2
    by_cases hxn : x = n
    · rw [hxn, hdn, he2]; omega
    · rw [hdo x hxn]; exact g.pos x ((hmem x).1 hx)

end WindVerif.Cache
