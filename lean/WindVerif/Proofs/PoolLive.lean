import WindVerif.Spec.Pool
import WindVerif.Proofs.PoolSafe
/-! Liveness of the pool model (C02): no deadlock and termination, under every interleaving. -/
namespace WindVerif.Pool

/-- no deadlock: in every reachable state in which the caller's program (enter, all its calls, exit) is not over, some
thread can move — the consumer is never left blocked on a result that will not come, the feeder never on a full queue
nobody drains, `__exit__` never on its stop orders (under `ExitCap`) -/
theorem imap_no_deadlock (cfg : Cfg) (hw : WellCfg cfg) (hf : NoFaults cfg) (hx : ExitCap cfg) (s : St) (h : Reach cfg s)
    (hnd : s.cpc ≠ .done) : ∃ t, (step s t).isSome := sorry

/-- termination: there is a bound on the length of every execution of a configuration, whatever the schedule — however
slowly the input iterator, a worker or the caller is scheduled, nothing spins -/
theorem imap_terminates (cfg : Cfg) (hw : WellCfg cfg) (hf : NoFaults cfg) :
    ∃ bound, ∀ sched s, run (init cfg) sched = some s → sched.length ≤ bound := sorry

/-- hence every maximal execution (one that cannot be extended) ends with the caller finished -/
theorem imap_maximal_final (cfg : Cfg) (hw : WellCfg cfg) (hf : NoFaults cfg) (hx : ExitCap cfg) (sched : List Tid) (s : St)
    (h : run (init cfg) sched = some s) (hmax : ∀ t, step s t = none) : s.cpc = .done := sorry

/-- outside `ExitCap` the exit can block for good (D19, recorded as a known finding): a concrete schedule of a factory pool
with 2 workers, quota 1, an int work-queue bound of 1 and one call of 2 chunks ends in a state in which nobody can move
while the caller stands in `__exit__` -/
def d19Cfg : Cfg :=
  { nWorkers := 2, workCap := some 1, resCap := none, factory := true, quota := some 1, waitReady := false,
    calls := [⟨2, true⟩], beginFault := [], itemFault := [] }

theorem exit_can_block : ∃ sched s, run (init d19Cfg) sched = some s ∧ s.cpc ≠ .done ∧ ∀ t, step s t = none := sorry

end WindVerif.Pool
