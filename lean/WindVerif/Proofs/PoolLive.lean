import WindVerif.Spec.Pool
import WindVerif.Proofs.PoolSafe
import WindVerif.Proofs.PoolLiveAux0
import WindVerif.Proofs.PoolLiveAux9
import WindVerif.Proofs.PoolLiveAux13
import WindVerif.Proofs.PoolLiveMid
import WindVerif.Proofs.PoolExited
/-! Liveness of the pool model (C02): no deadlock and termination, under every interleaving.

The development is in `PoolLiveAux0` … `PoolLiveAux13`: the schedule of the former D19 — D19 repaired: it now runs on to
`done` — (`Aux0`), the liveness invariant `LiveInv`
(`Aux1`), the progress argument from the invariants (`Aux2`), the preservation of `LiveInv` by the steps of the workers
(`Aux3`, `Aux4`), the feeder and the replace thread (`Aux5`) and the consumer (`Aux6`–`Aux8`), the initial state
(`Aux9`), the termination measure `meas` with its decrease along every step (`Aux10`–`Aux13`), and the invariant
`MidI` about the mid-call `until_all_ready()` (`PoolLiveMid`). -/
namespace WindVerif.Pool

/-- the invariants along a run -/
theorem live_run : ∀ (sched : List Tid) (s s' : St), NoFaults s.cfg → WellCfg s.cfg → SafeInv s → LInv s → LiveInv s →
    MidI s → run s sched = some s' → SafeInv s' ∧ LInv s' ∧ LiveInv s' ∧ MidI s' ∧ s'.cfg = s.cfg
  | [], s, s', _, _, hS, hL, hV, hM, hr => by
    simp only [run, Option.some.injEq] at hr
    subst hr; exact ⟨hS, hL, hV, hM, rfl⟩
  | t :: ts, s, s', hf, hw, hS, hL, hV, hM, hr => by
    unfold run at hr
    split at hr
    · cases hr
    · rename_i s1 hs1
      have hc := step_cfg hs1
      obtain ⟨h1, h2, h3, h4, h5⟩ := live_run ts s1 s' (by rw [hc]; exact hf) (by rw [hc]; exact hw)
        (safe_step s s1 t hf hS hs1) (LInv_step hL hs1) (LiveInv_step hf hw hS hL hV hM hs1)
        (MidI_step hf hw hS hL hV hM hs1) hr
      exact ⟨h1, h2, h3, h4, h5.trans hc⟩

theorem live_reach (cfg : Cfg) (hw : WellCfg cfg) (hf : NoFaults cfg) (s : St) (h : Reach cfg s) :
    SafeInv s ∧ LInv s ∧ LiveInv s ∧ MidI s ∧ s.cfg = cfg := by
  obtain ⟨sched, hs⟩ := h
  exact live_run sched (init cfg) s hf hw (safe_init cfg) (LInv_init cfg) (LiveInv_init cfg hw) (MidI_init cfg) hs

/-- no deadlock: in every reachable state in which the caller's program (enter, all its calls, exit) is not over, some
thread can move — the consumer is never left blocked on a result that will not come, the feeder never on a full queue
nobody drains, `__exit__` never on its stop orders (D19 repaired: whatever the bound of the work queue — on a full queue
either a live worker takes a stop order or, everybody listed having an exit code, the loop of stop orders is left) -/
theorem imap_no_deadlock (cfg : Cfg) (hw : WellCfg cfg) (hf : NoFaults cfg) (s : St) (h : Reach cfg s)
    (hnd : s.cpc ≠ .done) : ∃ t, (step s t).isSome := by
  obtain ⟨hS, hL, hV, hM, hc⟩ := live_reach cfg hw hf s h
  exact progress hS hL hV hM (by rw [hc]; exact hw) hnd

/-- termination: there is a bound on the length of every execution of a configuration, whatever the schedule — however
slowly the input iterator, a worker or the caller is scheduled, nothing spins -/
theorem meas_run : ∀ (sched : List Tid) (s s' : St), NoFaults s.cfg → WellCfg s.cfg → SafeInv s → LInv s → LiveInv s →
    MidI s → run s sched = some s' → sched.length + meas s' ≤ meas s
  | [], s, s', _, _, _, _, _, _, hr => by
    simp only [run, Option.some.injEq] at hr
    subst hr; simp
  | t :: ts, s, s', hf, hw, hS, hL, hV, hM, hr => by
    unfold run at hr
    split at hr
    · cases hr
    · rename_i s1 hs1
      have hc := step_cfg hs1
      have h1 := meas_run ts s1 s' (by rw [hc]; exact hf) (by rw [hc]; exact hw)
        (safe_step s s1 t hf hS hs1) (LInv_step hL hs1) (LiveInv_step hf hw hS hL hV hM hs1)
        (MidI_step hf hw hS hL hV hM hs1) hr
      have h2 := meas_step hf hw hS hL hV hs1
      simp only [List.length_cons]
      omega

theorem imap_terminates (cfg : Cfg) (hw : WellCfg cfg) (hf : NoFaults cfg) :
    ∃ bound, ∀ sched s, run (init cfg) sched = some s → sched.length ≤ bound := by
  refine ⟨meas (init cfg), ?_⟩
  intro sched s hr
  have := meas_run sched (init cfg) s hf hw (safe_init cfg) (LInv_init cfg) (LiveInv_init cfg hw) (MidI_init cfg) hr
  omega

/-- hence every maximal execution (one that cannot be extended) ends with the caller finished -/
theorem imap_maximal_final (cfg : Cfg) (hw : WellCfg cfg) (hf : NoFaults cfg) (sched : List Tid) (s : St)
    (h : run (init cfg) sched = some s) (hmax : ∀ t, step s t = none) : s.cpc = .done := by
  cases hd : decide (s.cpc = .done)
  · exfalso
    obtain ⟨t, ht⟩ := imap_no_deadlock cfg hw hf s ⟨sched, h⟩ (by simpa using hd)
    rw [hmax t] at ht; cases ht
  · simpa using hd

/-- the configuration of the former finding D19: a factory pool with 2 workers, quota 1, an int work-queue bound of 1 and
one call of 2 chunks — both workers can retire unreplaced, so that only one of the two stop orders of `__exit__` fits into
the work queue and nobody is left to take it -/
def d19Cfg : Cfg :=
  { nWorkers := 2, workCap := some 1, resCap := none, factory := true, quota := some 1, waitReady := false,
    calls := [⟨2, true⟩], beginFault := [], itemFault := [] }

/-- D19 repaired: the concrete schedule that used to end with the caller blocked in `__exit__` for good (second stop order
on a full work queue, every worker gone) now goes on — one more step of the consumer — to the caller being done -/
theorem exit_unblocked : ∃ sched s, run (init d19Cfg) sched = some s ∧ s.cpc = .done :=
  exit_unblocked_aux

/-- the loop of stop orders is left early only when nobody is left: a step of the consumer at a stop order on a full work
queue (in a reachable state, any configuration — faults and join timeout included) ends `__exit__`; every listed worker has
an exit code, and every other worker ever created has exited or (only with a finite join timeout) has nothing but its
`end()` left to run -/
theorem exit_skip_all_gone (cfg : Cfg) (s s' : St) (h : Reach cfg s) (i : Nat) (hpc : s.cpc = .exitPut i)
    (hfull : capFull s.cfg.workCap s.workQ = true) (hs : step s .c = some s') :
    s'.cpc = .done ∧ (∀ wid ∈ s'.procs, workerExited s' wid = true) ∧
    ∀ w ∈ s'.workers, w.pc = .exited ∨ (w.pc = .ending ∧ w.wid ∉ s'.procs ∧ cfg.joinTimeout = true) := by
  obtain ⟨hL, hc⟩ := LInv_reach h
  have hs : stepC s = some s' := hs
  unfold stepC at hs
  simp only [hpc, hfull, if_true] at hs
  split at hs
  · rename_i hall
    simp only [Option.some.injEq] at hs; subst hs
    refine ⟨rfl, fun wid hwid => List.all_eq_true.1 hall wid hwid, ?_⟩
    intro w hw
    have hw : w ∈ s.workers := hw
    by_cases hin : w.wid ∈ s.procs
    · left
      have := List.all_eq_true.1 hall w.wid hin
      unfold workerExited at this
      rw [getWorker_of_mem hL.nodup hw] at this
      simpa using this
    · have hg : gone w.pc = true := by
        cases hg : gone w.pc
        · exact absurd (hL.listed w hw hg) hin
        · rfl
      -- not listed: with `join_timeout=None` the replace thread's join has waited for its exit
      cases hjt : cfg.joinTimeout
      · left; exact unlisted_exited' cfg hjt s h w hw hin
      · cases hp : w.pc <;> rw [hp] at hg <;> first | (left; rfl) | (right; exact ⟨rfl, hin, rfl⟩) | cases hg
  · cases hs

/-- … in a pool WITHOUT a join timeout (`join_timeout=None`): every worker ever created has exited.  (With a finite join
timeout a replaced worker may still be in its `end()`: `exit_skip_running_worker` in `Proofs/PoolJoinTimeout.lean`.) -/
theorem exit_skip_all_exited (cfg : Cfg) (hjt : cfg.joinTimeout = false) (s s' : St) (h : Reach cfg s) (i : Nat)
    (hpc : s.cpc = .exitPut i) (hfull : capFull s.cfg.workCap s.workQ = true) (hs : step s .c = some s') :
    s'.cpc = .done ∧ AllExited s' := by
  obtain ⟨h1, _, h3⟩ := exit_skip_all_gone cfg s s' h i hpc hfull hs
  refine ⟨h1, ?_⟩
  intro w hw
  rcases h3 w hw with h | ⟨_, _, h⟩
  · exact h
  · rw [hjt] at h; cases h

end WindVerif.Pool
