import WindVerif.Model.ForkFileFd
/-! Proofs for the descriptor-budget abstraction of `reopen_if_needed` (C18). -/
namespace WindVerif.ForkFileFd

theorem close_first_never_fails (p : P) (d fresh : Nat) (hh : p.handle = .inherited d) :
    (reopenCloseFirst p fresh).2 = true ∧ (reopenCloseFirst p fresh).1.handle = .own fresh ∧
      (reopenCloseFirst p fresh).1.claimed = true ∧ (reopenCloseFirst p fresh).1.free = p.free := by
  simp [reopenCloseFirst, hh, close, open']

theorem open_first_fails_when_full (p : P) (d fresh : Nat) (hh : p.handle = .inherited d) (hf : p.free = 0) :
    (reopenOpenFirst p fresh).2 = false ∧ (reopenOpenFirst p fresh).1.handle = .inherited d ∧
      (reopenOpenFirst p fresh).1.claimed = true := by
  simp [reopenOpenFirst, hh, hf]

theorem access_stuck (reopen : P → Nat → P × Bool) (p : P) (d fresh : Nat) (hc : p.claimed = true)
    (hh : p.handle = .inherited d) : access reopen p fresh = (p, some d) := by
  simp [access, hc, hh, Handle.desc]

theorem accesses_stuck (reopen : P → Nat → P × Bool) (p : P) (d : Nat) (hc : p.claimed = true)
    (hh : p.handle = .inherited d) (fs : List Nat) :
    accesses reopen p fs = (p, List.replicate fs.length (some d)) := by
  induction fs with
  | nil => rfl
  | cons f fs ih => simp [accesses, access_stuck reopen p d f hc hh, ih, List.replicate_succ]

theorem claimed_inherited_is_stuck (reopen : P → Nat → P × Bool) (parent child : P) (d : Nat)
    (hp : parent.handle = .own d) (hc : child.claimed = true) (hh : child.handle = .inherited d) (fs : List Nat) :
    (accesses reopen child fs).1 = child ∧ ∀ u ∈ (accesses reopen child fs).2, u = parent.handle.desc := by
  rw [accesses_stuck reopen child d hc hh fs, hp]
  refine ⟨rfl, ?_⟩
  intro u hu
  exact (List.mem_replicate.mp hu).2

theorem open_first_ok_when_room (p : P) (fresh : Nat) (hf : p.free ≥ 1) :
    reopenOpenFirst p fresh = reopenCloseFirst p fresh := by
  cases p with
  | mk free handle claimed =>
    cases handle with
    | inherited d =>
      have h1 : free - 1 + 1 = free := by simp at hf; omega
      simp at hf
      simp [reopenOpenFirst, reopenCloseFirst, close, open', hf, h1]
    | own d => rfl
    | none => rfl

end WindVerif.ForkFileFd
