import WindVerif.Model.RecFileSeq
import WindVerif.Core.PyListSeq
import WindVerif.Proofs.RecFileM
import WindVerif.Proofs.LineFileSeq
/-!
The inherited `Sequence` / `MutableSequence` methods of the mutable record files (`Model/RecFileSeq.lean`): on a file all
of whose positions load they are the Python `list` operations on the presented records (C13); `remove` / `clear` keep the
invariant of a history of edits, and the save + reopen round trip extends to histories that contain them.
-/
namespace WindVerif.RecFile
open WindVerif
open WindVerif.LineFile (seqStart seqStop seqBelow seqBelow_mono seqStart_eq seqBelow_of_lt_idxHi lt_idxHi_of_seqBelow
  index_nat index_lt index_nat_none)

/-! ### reading one position, in terms of the presented list -/

section read
variable {R : Type} (F : Fmt R)

theorem getPos_at (f : RecFile) {p : Nat} (hp : p < f.slots.length) :
    f.getPos F p = match (f.records F)[p]? with
      | some (some x) => .ok x
      | _ => .error .loadError := by
  simp only [RecFile.getPos, RecFile.records, List.getElem?_map, List.getElem?_eq_getElem hp, Option.map_some]
  cases F.load (f.raw f.slots[p]) <;> rfl

theorem getRec_at (f : RecFile) {p : Nat} (hp : p < f.slots.length) :
    f.getRec F (p : Int) = match (f.records F)[p]? with
      | some (some x) => .ok x
      | _ => .error .loadError := by
  simp only [RecFile.getRec, index_nat hp]
  exact getPos_at F f hp

theorem getRec_beyond (f : RecFile) {p : Nat} (hp : f.slots.length ≤ p) : f.getRec F (p : Int) = .error .indexError := by
  simp [RecFile.getRec, index_nat_none hp]

end read

section seq
variable {R : Type} [DecidableEq R] (F : Fmt R)

/-! ### `index` -/

/-- the loop of `Sequence.index` on ANY record file, in terms of the presented list `records` (`none` = that position does
not load): it stops at the first position from `p` on, below `stop`, that holds `r` (→ that position) or does not load
(→ the exception of `load` for that position); without such a position it raises `ValueError` -/
theorem indexGo_spec (f : RecFile) (r : R) (stop : Option Int) (fuel : Nat) : ∀ (p : Nat), f.slots.length - p < fuel →
    (∀ k, p ≤ k → seqBelow stop k = true → (f.records F)[k]? = some (some r) →
      (∀ j, p ≤ j → j < k → ∃ x, (f.records F)[j]? = some (some x) ∧ x ≠ r) → f.indexGo F r stop fuel p = .ok k) ∧
    (∀ k, p ≤ k → seqBelow stop k = true → (f.records F)[k]? = some none →
      (∀ j, p ≤ j → j < k → ∃ x, (f.records F)[j]? = some (some x) ∧ x ≠ r) →
        f.indexGo F r stop fuel p = .error (.loadError k)) ∧
    ((∀ j, p ≤ j → seqBelow stop j = true → j < f.slots.length → ∃ x, (f.records F)[j]? = some (some x) ∧ x ≠ r) →
      f.indexGo F r stop fuel p = .error .valueError) := by
  induction fuel with
  | zero => intro p hf; omega
  | succ n ih =>
    intro p hf
    have hlen := records_length F f
    unfold RecFile.indexGo
    by_cases hb : seqBelow stop p = true
    · simp only [hb, if_true]
      by_cases hp : f.slots.length ≤ p
      · simp only [getRec_beyond F f hp]
        refine ⟨?_, ?_, fun _ => trivial⟩
        · intro k hk _ hkv _
          have := (List.getElem?_eq_some_iff.mp hkv).1
          omega
        · intro k hk _ hkv _
          have := (List.getElem?_eq_some_iff.mp hkv).1
          omega
      · have hlt : p < f.slots.length := by omega
        obtain ⟨ihA, ihB, ihC⟩ := ih (p + 1) (by omega)
        rw [getRec_at F f hlt]
        cases hx : (f.records F)[p]? with
        | none =>
          have := List.getElem?_eq_none_iff.mp hx
          omega
        | some o =>
          cases o with
          | none =>
            simp only
            refine ⟨?_, ?_, ?_⟩
            · intro k hk _ hkv hmin
              by_cases hkp : k = p
              · subst hkp; rw [hx] at hkv; cases hkv
              · obtain ⟨x, e, _⟩ := hmin p (Nat.le_refl _) (by omega); rw [hx] at e; cases e
            · intro k hk _ hkv hmin
              by_cases hkp : k = p
              · subst hkp; rfl
              · obtain ⟨x, e, _⟩ := hmin p (Nat.le_refl _) (by omega); rw [hx] at e; cases e
            · intro hall
              obtain ⟨x, e, _⟩ := hall p (Nat.le_refl _) hb hlt; rw [hx] at e; cases e
          | some x =>
            simp only
            by_cases hv : x = r
            · simp only [hv, if_true]
              refine ⟨?_, ?_, ?_⟩
              · intro k hk _ hkv hmin
                by_cases hkp : k = p
                · rw [hkp]
                · obtain ⟨y, e, hy⟩ := hmin p (Nat.le_refl _) (by omega)
                  rw [hx] at e; cases e; exact absurd hv hy
              · intro k hk _ hkv hmin
                by_cases hkp : k = p
                · subst hkp; rw [hx] at hkv; cases hkv
                · obtain ⟨y, e, hy⟩ := hmin p (Nat.le_refl _) (by omega)
                  rw [hx] at e; cases e; exact absurd hv hy
              · intro hall
                obtain ⟨y, e, hy⟩ := hall p (Nat.le_refl _) hb hlt
                rw [hx] at e; cases e; exact absurd hv hy
            · simp only [hv, if_false]
              refine ⟨?_, ?_, ?_⟩
              · intro k hk hkb hkv hmin
                have hkp : k ≠ p := by
                  intro e; subst e; rw [hx] at hkv; cases hkv; exact hv rfl
                exact ihA k (by omega) hkb hkv (fun j hj hjk => hmin j (by omega) hjk)
              · intro k hk hkb hkv hmin
                have hkp : k ≠ p := by
                  intro e; subst e; rw [hx] at hkv; cases hkv
                exact ihB k (by omega) hkb hkv (fun j hj hjk => hmin j (by omega) hjk)
              · intro hall
                exact ihC (fun j hj hjb hjl => hall j (by omega) hjb hjl)
    · simp only [hb]
      refine ⟨?_, ?_, fun _ => rfl⟩
      · intro k hk hkb _ _; exact absurd (seqBelow_mono hk hkb) hb
      · intro k hk hkb _ _; exact absurd (seqBelow_mono hk hkb) hb

omit [DecidableEq R] in
theorem map_some_get {rs : List R} {j : Nat} {x : R} (h : (rs.map some)[j]? = some (some x)) : rs[j]? = some x := by
  rw [List.getElem?_map] at h
  cases hr : rs[j]? with
  | none => rw [hr] at h; cases h
  | some y => rw [hr] at h; simp only [Option.map_some, Option.some.injEq] at h; rw [h]

/-- `f.index(r, start, stop)` on a file all of whose positions load is `rs.index(r, start, stop)` of the presented
records `rs` — the same position, `ValueError` exactly when the list raises it -/
theorem indexRec_spec (f : RecFile) (rs : List R) (hrs : f.records F = rs.map some) (r : R) (start stop : Option Int) :
    f.indexRec F r start stop = match Py.pyListIndex rs r start stop with
      | some k => .ok k
      | none => .error .valueError := by
  have hl : rs.length = f.slots.length := records_len F hrs
  obtain ⟨hA, _, hC⟩ := indexGo_spec F f r (seqStop f.slots.length stop) (f.slots.length + 1)
    (seqStart f.slots.length start) (by omega)
  unfold RecFile.indexRec
  cases hr : Py.pyListIndex rs r start stop with
  | some k =>
    obtain ⟨h1, h2, h3, h4⟩ := (Py.pyListIndex_eq_some_iff rs r start stop k).mp hr
    simp only
    apply hA k (by rw [seqStart_eq, ← hl]; exact h1) (by rw [← hl]; exact seqBelow_of_lt_idxHi h2)
    · rw [hrs, List.getElem?_map, h3]; rfl
    · intro j hj hjk
      have hjl : j < rs.length := by have := (List.getElem?_eq_some_iff.mp h3).1; omega
      refine ⟨rs[j], by rw [hrs, List.getElem?_map, List.getElem?_eq_getElem hjl]; rfl, ?_⟩
      intro e
      exact h4 j (by rw [hl, ← seqStart_eq]; exact hj) hjk (by rw [List.getElem?_eq_getElem hjl, e])
  | none =>
    have hn := (Py.pyListIndex_eq_none_iff rs r start stop).mp hr
    simp only
    apply hC
    intro j hj hjb hjl
    have hjl' : j < rs.length := by omega
    refine ⟨rs[j], by rw [hrs, List.getElem?_map, List.getElem?_eq_getElem hjl']; rfl, ?_⟩
    intro e
    exact hn j (by rw [hl, ← seqStart_eq]; exact hj) (lt_idxHi_of_seqBelow hjl' (by rw [hl]; exact hjb))
      (by rw [List.getElem?_eq_getElem hjl', e])

/-- … and on ANY file: a position `k` inside the bounds that does not load, with only loading records different from `r`
between the start and `k`, makes `index` raise the exception of `load` for position `k` (as `f[k]` does) -/
theorem indexRec_load_error (f : RecFile) (r : R) (start stop : Option Int) (k : Nat)
    (h1 : seqStart f.slots.length start ≤ k) (h2 : seqBelow (seqStop f.slots.length stop) k = true)
    (h3 : (f.records F)[k]? = some none)
    (h4 : ∀ j, seqStart f.slots.length start ≤ j → j < k → ∃ x, (f.records F)[j]? = some (some x) ∧ x ≠ r) :
    f.indexRec F r start stop = .error (.loadError k) :=
  (indexGo_spec F f r (seqStop f.slots.length stop) (f.slots.length + 1) (seqStart f.slots.length start)
    (by omega)).2.1 k h1 h2 h3 h4

/-- the fuel of `indexRec` suffices on every file: more changes nothing -/
theorem indexGo_fuel (f : RecFile) (r : R) (stop : Option Int) (fuel : Nat) : ∀ (p : Nat), f.slots.length - p < fuel →
    f.indexGo F r stop fuel p = f.indexGo F r stop (f.slots.length - p + 1) p := by
  induction fuel with
  | zero => intro p h; omega
  | succ n ih =>
    intro p hf
    unfold RecFile.indexGo
    split
    · by_cases hp : f.slots.length ≤ p
      · simp only [getRec_beyond F f hp]
      · cases hg : f.getRec F (p : Int) with
        | error e => cases e <;> rfl
        | ok x =>
          simp only
          split
          · rfl
          · rw [ih (p + 1) (by omega)]
            have : f.slots.length - p = f.slots.length - (p + 1) + 1 := by omega
            rw [this]
    · rfl

/-! ### `in`, `count`: the scan of the presented list -/

/-- `r in l` for a list with positions that raise on access -/
def containsList (r : R) : List (Option R) → Nat → Except SeqErr Bool
  | [], _ => .ok false
  | none :: _, p => .error (.loadError p)
  | some x :: t, p => if x = r then .ok true else containsList r t (p + 1)

/-- `l.count(r)` for a list with positions that raise on access -/
def countList (r : R) : List (Option R) → Nat → Nat → Except SeqErr Nat
  | [], _, acc => .ok acc
  | none :: _, p, _ => .error (.loadError p)
  | some x :: t, p, acc => countList r t (p + 1) (if x = r then acc + 1 else acc)

theorem containsGo_eq (f : RecFile) (r : R) (k : Nat) : ∀ (p : Nat), p + k = f.slots.length →
    f.containsGo F r p k = containsList r ((f.records F).drop p) p := by
  induction k with
  | zero =>
    intro p hp
    have : (f.records F).drop p = [] := List.drop_eq_nil_of_le (by rw [records_length]; omega)
    rw [this]; rfl
  | succ k ih =>
    intro p hp
    have hlt : p < f.slots.length := by omega
    have hlt' : p < (f.records F).length := by rw [records_length]; exact hlt
    unfold RecFile.containsGo
    rw [getPos_at F f hlt, List.drop_eq_getElem_cons hlt', List.getElem?_eq_getElem hlt']
    cases (f.records F)[p] with
    | none => rfl
    | some x =>
      simp only [containsList]
      split
      · rfl
      · exact ih (p + 1) (by omega)

/-- `r in f` on ANY file is the scan of the presented list: `True` at the first equal record, the exception of `load` at
a position that does not load before it -/
theorem containsRec_eq (f : RecFile) (r : R) : f.containsRec F r = containsList r (f.records F) 0 := by
  unfold RecFile.containsRec
  rw [containsGo_eq F f r f.slots.length 0 (by omega)]; rfl

theorem containsList_map_some (r : R) (rs : List R) (p : Nat) :
    containsList r (rs.map some) p = .ok (decide (r ∈ rs)) := by
  induction rs generalizing p with
  | nil => simp [containsList]
  | cons x t ih =>
    simp only [List.map_cons, containsList]
    by_cases hv : x = r
    · simp [hv]
    · have hv' : ¬ r = x := fun e => hv e.symm
      simp only [hv, if_false, ih, List.mem_cons, hv', false_or]

/-- `r in f` when every position loads: membership in the presented records -/
theorem containsRec_spec (f : RecFile) (rs : List R) (hrs : f.records F = rs.map some) (r : R) :
    f.containsRec F r = .ok (decide (r ∈ rs)) := by
  rw [containsRec_eq, hrs, containsList_map_some]

theorem countGo_eq (f : RecFile) (r : R) (k : Nat) : ∀ (p acc : Nat), p + k = f.slots.length →
    f.countGo F r p k acc = countList r ((f.records F).drop p) p acc := by
  induction k with
  | zero =>
    intro p acc hp
    have : (f.records F).drop p = [] := List.drop_eq_nil_of_le (by rw [records_length]; omega)
    rw [this]; rfl
  | succ k ih =>
    intro p acc hp
    have hlt : p < f.slots.length := by omega
    have hlt' : p < (f.records F).length := by rw [records_length]; exact hlt
    unfold RecFile.countGo
    rw [getPos_at F f hlt, List.drop_eq_getElem_cons hlt', List.getElem?_eq_getElem hlt']
    cases (f.records F)[p] with
    | none => rfl
    | some x =>
      simp only [countList]
      exact ih (p + 1) _ (by omega)

/-- `f.count(r)` on ANY file is the scan of the whole presented list: the exception of `load` at the first position that
does not load -/
theorem countRec_eq (f : RecFile) (r : R) : f.countRec F r = countList r (f.records F) 0 0 := by
  unfold RecFile.countRec
  rw [countGo_eq F f r f.slots.length 0 0 (by omega)]; rfl

theorem countList_map_some (r : R) (rs : List R) (p acc : Nat) :
    countList r (rs.map some) p acc = .ok (acc + rs.count r) := by
  induction rs generalizing p acc with
  | nil => simp [countList]
  | cons x t ih =>
    simp only [List.map_cons, countList, ih, List.count_cons]
    by_cases hv : x = r
    · simp [hv]; omega
    · have hv' : (x == r) = false := by simpa using hv
      simp [hv, hv']

/-- `f.count(r)` when every position loads: `rs.count(r)` -/
theorem countRec_spec (f : RecFile) (rs : List R) (hrs : f.records F = rs.map some) (r : R) :
    f.countRec F r = .ok (rs.count r) := by
  rw [countRec_eq, hrs, countList_map_some]; simp

/-! ### `remove` -/

theorem map_some_erase (rs : List R) (r : R) : (rs.map some).erase (some r) = (rs.erase r).map some := by
  induction rs with
  | nil => rfl
  | cons x t ih =>
    simp only [List.map_cons, List.erase_cons]
    by_cases hv : x = r
    · simp [hv]
    · have h1 : (x == r) = false := by simpa using hv
      have h2 : (some x == some r) = false := by simpa using hv
      simp only [h1, h2, Bool.false_eq_true, if_false, List.map_cons, ih]

/-- `f.remove(r)` when every position loads: the first record equal to `r` is removed (the position, whatever text it
holds), `ValueError` and no change when there is none -/
theorem removeRec_spec (f : RecFile) (rs : List R) (hrs : f.records F = rs.map some) (r : R) :
    (r ∈ rs → ∃ f', f.removeRec F r = .ok f' ∧ f'.records F = (rs.erase r).map some ∧ f'.source = f.source ∧
      f'.slots = f.slots.eraseIdx (rs.idxOf r)) ∧
    (r ∉ rs → f.removeRec F r = .error .valueError) := by
  have hi := indexRec_spec F f rs hrs r none none
  rw [Py.pyListIndex_default] at hi
  unfold RecFile.removeRec
  constructor
  · intro hm
    rw [if_pos hm] at hi
    have hlt : rs.idxOf r < rs.length := List.idxOf_lt_length_of_mem hm
    have hd := records_delRec F f ((rs.idxOf r : Nat) : Int)
    rw [hrs, List.length_map, index_nat hlt] at hd
    obtain ⟨f', e1, e2, e3⟩ := hd
    refine ⟨f', by simp only [hi, e1], ?_, e3, ?_⟩
    · rw [e2, ← map_eraseIdx, List.erase_eq_eraseIdx_of_idxOf rfl]
    · have hlt' : rs.idxOf r < f.slots.length := by rw [← records_len F hrs]; exact hlt
      simp only [RecFile.delRec, index_nat hlt', Except.ok.injEq] at e1
      rw [← e1]
  · intro hm
    rw [if_neg hm] at hi
    simp only [hi]

/-- comparison is on RECORDS, not on texts: a file whose position 0 holds ANY text that loads as `a` (say a needlessly
quoted source line) — `index(a)` is `0` and `remove(a)` removes position 0, whatever equal records (e.g. an appended
`a`, stored in canonical form) follow -/
theorem index_first_equal (f : RecFile) (a : R) (s : Slot) (rest : List Slot) (hs : f.slots = s :: rest)
    (hl : F.load (f.raw s) = some a) :
    f.indexRec F a none none = .ok 0 ∧ f.removeRec F a = .ok { f with slots := rest } := by
  have hi : f.indexRec F a none none = .ok 0 := by
    unfold RecFile.indexRec
    simp only [hs, List.length_cons, seqStart, seqStop, Option.map_none]
    unfold RecFile.indexGo
    have hg : f.getRec F ((0 : Nat) : Int) = .ok a := by
      simp [RecFile.getRec, Py.index, hs, RecFile.getPos, hl]
    simp only [seqBelow, if_true, hg]
  refine ⟨hi, ?_⟩
  unfold RecFile.removeRec
  simp only [hi]
  simp [RecFile.delRec, Py.index, hs]

/-- … in particular after `append(a)`: the appended record is found at position 0, not at the end -/
theorem index_first_equal_append (f : RecFile) (a : R) (s : Slot) (rest : List Slot) (hs : f.slots = s :: rest)
    (hl : F.load (f.raw s) = some a) :
    (f.appendRec F a).indexRec F a none none = .ok 0 ∧
    (f.appendRec F a).removeRec F a = .ok { f with slots := rest ++ [.txt (F.save a)] } := by
  have hs' : (f.appendRec F a).slots = s :: (rest ++ [.txt (F.save a)]) := by
    have hp : Py.insertPos f.slots.length (f.slots.length : Int) = f.slots.length := by
      unfold Py.insertPos; simp
    simp only [RecFile.appendRec, RecFile.insertRec, hp, Py.insertAt, List.take_length, List.drop_length]
    rw [hs]; rfl
  have hl' : F.load ((f.appendRec F a).raw s) = some a := by
    rw [raw_congr (show (f.appendRec F a).source = f.source from rfl)]; exact hl
  exact index_first_equal F (f.appendRec F a) a s _ hs' hl'

end seq

/-! ### `clear` -/

section clear
variable {R : Type} (F : Fmt R)

theorem popRec_nil (f : RecFile) (hs : f.slots = []) : f.popRec F (-1) = .error .indexError := by
  simp [RecFile.popRec, RecFile.getRec, hs, Py.index]

theorem popRec_last (f : RecFile) (l : List Slot) (s : Slot) (hs : f.slots = l ++ [s]) :
    f.popRec F (-1) = match F.load (f.raw s) with
      | none => .error .loadError
      | some x => .ok (x, { f with slots := l }) := by
  have hi : Py.index (l ++ [s]).length (-1) = some l.length := by
    unfold Py.index; simp; omega
  simp only [RecFile.popRec, RecFile.getRec, RecFile.getPos, RecFile.delRec, hs, hi]
  simp only [List.getElem?_append_right (Nat.le_refl _), Nat.sub_self, List.getElem?_cons_zero]
  cases F.load (f.raw s) with
  | none => rfl
  | some x =>
    simp only
    have : (l ++ [s]).eraseIdx l.length = l := by
      rw [List.eraseIdx_append_of_length_le (Nat.le_refl _)]; simp
    rw [this]

/-- `clear()` on ANY file pops from the end as long as the last position loads: with `_lines = pre ++ suf`, every position
of `suf` loading and `pre` empty or ending in a position that does not load, `pre` stays — and the exception of `load`
for its last position is raised unless `pre` is empty -/
theorem clearGo_spec (fuel : Nat) : ∀ (f : RecFile) (pre suf : List Slot), f.slots = pre ++ suf →
    (∀ s ∈ suf, ∃ x, F.load (f.raw s) = some x) →
    (pre = [] ∨ ∃ init last, pre = init ++ [last] ∧ F.load (f.raw last) = none) → pre.length + suf.length < fuel →
    f.clearGo F fuel = (⟨f.source, pre⟩, if pre = [] then none else some .loadError) := by
  induction fuel with
  | zero => intro f pre suf _ _ _ hf; omega
  | succ n ih =>
    intro f pre suf hs hsuf hpre hf
    unfold RecFile.clearGo
    rcases List.eq_nil_or_concat suf with hnil | ⟨init', last', hcat⟩
    · subst hnil
      rw [List.append_nil] at hs
      rcases hpre with hp | ⟨init, last, hp, hload⟩
      · subst hp
        rw [popRec_nil F f hs]
        simp only [if_true]
        cases f; simp only at hs; subst hs; rfl
      · rw [popRec_last F f init last (by rw [hs, hp]), hload]
        have hne : pre ≠ [] := by rw [hp]; simp
        simp only [hne, if_false]
        cases f; simp only at hs; subst hs; rfl
    · subst hcat
      obtain ⟨x, hx⟩ := hsuf last' (by simp)
      rw [popRec_last F f (pre ++ init') last' (by rw [hs]; simp), hx]
      simp only
      have := ih { f with slots := pre ++ init' } pre init' rfl
        (fun s hm => hsuf s (by simp [hm])) hpre (by simp at hf ⊢; omega)
      rw [this]

/-- `f.clear()` when every position loads: nothing is left, nothing is raised, the source is as before -/
theorem clearRec_spec (f : RecFile) (rs : List R) (hrs : f.records F = rs.map some) :
    f.clearRec F = (⟨f.source, []⟩, none) := by
  have := clearGo_spec F (f.slots.length + 1) f [] f.slots (by simp) ?_ (.inl rfl) (by simp)
  · simpa [RecFile.clearRec] using this
  · intro s hm
    obtain ⟨j, hj, e⟩ := List.getElem_of_mem hm
    obtain ⟨x, _, hx⟩ := records_get F hrs (show f.slots[j]? = some s by rw [List.getElem?_eq_getElem hj, e])
    exact ⟨x, hx⟩

/-- the fuel of `clearRec` suffices on every file: more changes nothing -/
theorem clearGo_fuel (fuel : Nat) : ∀ (f : RecFile), f.slots.length < fuel →
    f.clearGo F fuel = f.clearGo F (f.slots.length + 1) := by
  induction fuel with
  | zero => intro f h; omega
  | succ n ih =>
    intro f hf
    unfold RecFile.clearGo
    rcases List.eq_nil_or_concat f.slots with hnil | ⟨l, s, hcat⟩
    · rw [popRec_nil F f hnil]
    · rw [List.concat_eq_append] at hcat
      rw [popRec_last F f l s hcat]
      cases F.load (f.raw s) with
      | none => rfl
      | some x =>
        simp only
        have hlen : f.slots.length = l.length + 1 := by rw [hcat]; simp
        rw [ih { f with slots := l } (by simp only; omega), hlen]

end clear

/-! ### histories with `remove` and `clear`: invariant, list semantics, save + reopen -/

section inv2
variable {R : Type} [DecidableEq R] (F : Fmt R) (P : R → Prop)

theorem inv_removeRec {f f' : RecFile} (hf : Inv F P f) {r : R} (h : f.removeRec F r = .ok f') :
    Inv F P f' ∧ f'.source = f.source := by
  unfold RecFile.removeRec at h
  split at h
  · cases h
  · split at h
    · cases h
    · rename_i g hd
      simp only [Except.ok.injEq] at h
      rw [← h]
      exact inv_delRec F P hf hd

omit [DecidableEq R] in
theorem inv_clearGo (fuel : Nat) : ∀ (f : RecFile), Inv F P f →
    Inv F P (f.clearGo F fuel).1 ∧ (f.clearGo F fuel).1.source = f.source := by
  induction fuel with
  | zero => intro f hf; exact ⟨hf, rfl⟩
  | succ n ih =>
    intro f hf
    unfold RecFile.clearGo
    cases hp : f.popRec F (-1) with
    | error e => cases e <;> exact ⟨hf, rfl⟩
    | ok r =>
      obtain ⟨v, f'⟩ := r
      obtain ⟨h1, s1⟩ := inv_popRec F P hf hp
      obtain ⟨h2, s2⟩ := ih f' h1
      exact ⟨h2, s2.trans s1⟩

omit [DecidableEq R] in
theorem inv_clearRec {f : RecFile} (hf : Inv F P f) :
    Inv F P (f.clearRec F).1 ∧ (f.clearRec F).1.source = f.source :=
  inv_clearGo F P _ f hf

/-- every operation, `remove` and `clear` included, keeps the invariant (and never writes the source); `remove` may be
given any record -/
theorem inv_step2 (hmem : F.OkMem P) {f : RecFile} (hf : Inv F P f) (op : Op2 R) (hop : ∀ r ∈ op.recs, P r)
    (hl : op = .base .reverse → Loads F P f.source) : Inv F P (f.step2 F op) ∧ (f.step2 F op).source = f.source := by
  cases op with
  | base o => exact inv_step F P hmem hf o hop (fun e => hl (by rw [e]))
  | remove r =>
    simp only [RecFile.step2]
    split
    · rename_i f' h; exact inv_removeRec F P hf h
    · exact ⟨hf, rfl⟩
  | clear => exact inv_clearRec F P hf

theorem inv_run2 (hmem : F.OkMem P) : ∀ (ops : List (Op2 R)) (f : RecFile), Inv F P f →
    (∀ op ∈ ops, ∀ r ∈ op.recs, P r) → (Op2.base .reverse ∈ ops → Loads F P f.source) →
    Inv F P (f.run2 F ops) ∧ (f.run2 F ops).source = f.source := by
  intro ops
  induction ops with
  | nil => intro f hf _ _; exact ⟨hf, rfl⟩
  | cons op rest ih =>
    intro f hf hops hl
    obtain ⟨h1, s1⟩ := inv_step2 F P hmem hf op (hops op (by simp)) (fun e => hl (by simp [e]))
    obtain ⟨h2, s2⟩ := ih (f.step2 F op) h1 (fun o ho => hops o (by simp [ho]))
      (fun hr => by rw [s1]; exact hl (by simp [hr]))
    exact ⟨h2, by rw [← s1, ← s2]; rfl⟩

/-- LIST SEMANTICS with `remove` and `clear`: the presented record list after an operation is the Python list operation
applied to the presented list before (`list.remove` deletes the first equal element; when it raises `ValueError` the
list — and the file — stay as they are) -/
theorem records_list_semantics2 (hmem : F.OkMem P) (f : RecFile) (hf : Inv F P f) (hl : Loads F P f.source)
    (op : Op2 R) (hop : ∀ r ∈ op.recs, P r) : (f.step2 F op).records F = op.onList (f.records F) := by
  cases op with
  | base o => exact records_list_semantics F P hmem f hf hl o hop
  | remove r =>
    obtain ⟨rs, hrs, -⟩ := records_all F P hmem hf hl
    obtain ⟨hA, hB⟩ := removeRec_spec F f rs hrs r
    simp only [RecFile.step2, Op2.onList]
    by_cases hm : r ∈ rs
    · obtain ⟨f', e1, e2, -, -⟩ := hA hm
      simp only [e1, e2, hrs, map_some_erase]
    · have hm' : some r ∉ rs.map some := by simpa using hm
      simp only [hB hm, hrs, List.erase_of_not_mem hm']
  | clear =>
    obtain ⟨rs, hrs, -⟩ := records_all F P hmem hf hl
    simp only [RecFile.step2, Op2.onList, clearRec_spec F f rs hrs, RecFile.records, List.map_nil]

/-- … and for a whole history -/
theorem records_run2 (hmem : F.OkMem P) : ∀ (ops : List (Op2 R)) (f : RecFile), Inv F P f → Loads F P f.source →
    (∀ op ∈ ops, ∀ r ∈ op.recs, P r) →
    (f.run2 F ops).records F = ops.foldl (fun l op => op.onList l) (f.records F) := by
  intro ops
  induction ops with
  | nil => intro f _ _ _; rfl
  | cons op rest ih =>
    intro f hf hl hops
    obtain ⟨h1, s1⟩ := inv_step2 F P hmem hf op (hops op (by simp)) (fun _ => hl)
    have := ih (f.step2 F op) h1 (by rw [s1]; exact hl) (fun o ho => hops o (by simp [ho]))
    simp only [RecFile.run2, List.foldl_cons] at this ⊢
    rw [this, records_list_semantics2 F P hmem f hf hl op (hops op (by simp))]

/-- EDIT, SAVE, REOPEN with `remove` and `clear` in the history: for a format with a round trip on the domain `P`, a source
whose lines carry no line break, and ANY sequence of `set` / `insert` / `append` / `del` / `pop` / `reverse` /
`remove` / `clear` that stores records of the domain (if `reverse` occurs: every source line loads into the domain),
opening the file that `save(out, "\n")` wrote presents exactly the records the edited file presents -/
theorem reopen_roundtrip2 (hok : F.Ok P) (hmem : F.OkMem P) (h1 : F.OneLine P) (source : List Str)
    (hsrc : ∀ l ∈ source, '\n' ∉ l) (ops : List (Op2 R)) (hops : ∀ op ∈ ops, ∀ r ∈ op.recs, P r)
    (hl : Op2.base .reverse ∈ ops → Loads F P source) :
    (RecFile.ofContent (((RecFile.open source).run2 F ops).saveText ['\n'])).records F =
      ((RecFile.open source).run2 F ops).records F :=
  reopen_of_inv F P hok hmem h1 _ (inv_run2 F P hmem ops _ (inv_open F P source hsrc) hops hl).1

/-- a history of the old operations is a history of the new ones -/
theorem run2_base (f : RecFile) (ops : List (Op R)) : f.run2 F (ops.map Op2.base) = f.run F ops := by
  induction ops generalizing f with
  | nil => rfl
  | cons op rest ih => simp only [List.map_cons, RecFile.run2, RecFile.run, List.foldl_cons] at ih ⊢; exact ih _

end inv2

end WindVerif.RecFile
