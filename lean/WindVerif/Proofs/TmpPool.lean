import WindVerif.Model.TmpPool
/-! Theorems about the model of `TmpPool` / `FilePool` (C20). -/
namespace WindVerif.TmpPool

/-- the operations of a pool history (by any process of a multi-process pool) -/
inductive Op
  | create (pid : Nat) | remove (pid : Nat) (p : Path) | flush (pid : Nat) | fork (pid : Nat)
  | unlink (p : Path)          -- a file deleted behind the pool's back

/-- apply an operation; an operation that raises leaves what it had already done (the file removal of `remove` when the
path is not listed; a `remove` by a process that does not exist does nothing at all) -/
def applyOp (s : Pool) : Op → Pool
  | .create pid => match s.create pid with | .ok (s', _) => s' | .error _ => s
  | .remove pid p => match s.remove pid p with | .ok s' => s' | .error .valueError => s.unlink p | .error _ => s
  | .flush pid => match s.flush pid with | .ok s' => s' | .error _ => s
  | .fork pid => match s.fork pid with | .ok (s', _) => s' | .error _ => s
  | .unlink p => s.unlink p

def run (s : Pool) (ops : List Op) : Pool := ops.foldl applyOp s

/-- no file is deleted behind the pool's back in this history -/
def NoUnlink : List Op → Prop
  | [] => True
  | .unlink _ :: _ => False
  | _ :: r => NoUnlink r

/-- consistency: one shared list object that every process references, no path listed twice, listed paths were created
by this pool, and every existing file is listed -/
structure Inv (s : Pool) : Prop where
  heap   : s.heap.length = 1
  refs   : ∀ r ∈ s.refs, r = 0
  owner  : s.refs ≠ []
  nodup  : ∀ l, s.heap[0]? = some l → l.Nodup
  below  : ∀ l, s.heap[0]? = some l → ∀ p ∈ l, p < s.fresh
  fsLt   : ∀ p ∈ s.fs, p < s.fresh
  fsNodup : s.fs.Nodup
  listedOfExisting : ∀ l, s.heap[0]? = some l → ∀ p ∈ s.fs, p ∈ l

/-! ### what `Inv` says about the shape of the state -/

theorem heap_eq {s : Pool} (h : Inv s) : ∃ l, s.heap = [l] := by
  have := h.heap
  match hh : s.heap with
  | [l] => exact ⟨l, rfl⟩
  | [] => simp [hh] at this
  | _ :: _ :: _ => simp [hh] at this

theorem refs_get {s : Pool} (h : Inv s) {pid : Nat} (hp : pid < s.refs.length) : s.refs[pid]? = some 0 := by
  have := h.refs s.refs[pid] (List.getElem_mem hp)
  simp [List.getElem?_eq_getElem hp, this]

theorem refs_none {s : Pool} {pid : Nat} (hp : ¬ pid < s.refs.length) : s.refs[pid]? = none := by
  simp at hp; simp [hp]

theorem zero_lt_refs {s : Pool} (h : Inv s) : 0 < s.refs.length :=
  List.length_pos_iff.mpr h.owner

theorem listOf_eq {s : Pool} {l : List Path} (h : Inv s) (hh : s.heap = [l]) {pid : Nat} (hp : pid < s.refs.length) :
    s.listOf pid = some l := by
  simp [Pool.listOf, refs_get h hp, hh]

theorem listOf_none {s : Pool} {pid : Nat} (hp : ¬ pid < s.refs.length) : s.listOf pid = none := by
  simp [Pool.listOf, refs_none hp]

theorem setList_eq {s : Pool} {l : List Path} (h : Inv s) (hh : s.heap = [l]) {pid : Nat} (hp : pid < s.refs.length)
    (l' : List Path) : s.setList pid l' = { s with heap := [l'] } := by
  simp [Pool.setList, refs_get h hp, hh]

theorem Inv.of {s : Pool} {l : List Path} (hh : s.heap = [l]) (hr : ∀ r ∈ s.refs, r = 0) (ho : s.refs ≠ [])
    (hn : l.Nodup) (hb : ∀ p ∈ l, p < s.fresh) (hf : ∀ p ∈ s.fs, p < s.fresh) (hfn : s.fs.Nodup)
    (hl : ∀ p ∈ s.fs, p ∈ l) : Inv s where
  heap := by simp [hh]
  refs := hr
  owner := ho
  nodup := by intro l' hl'; simp [hh] at hl'; exact hl' ▸ hn
  below := by intro l' hl'; simp [hh] at hl'; exact hl' ▸ hb
  fsLt := hf
  fsNodup := hfn
  listedOfExisting := by intro l' hl'; simp [hh] at hl'; exact hl' ▸ hl

theorem Inv.nodup' {s : Pool} {l : List Path} (h : Inv s) (hh : s.heap = [l]) : l.Nodup := h.nodup l (by simp [hh])
theorem Inv.below' {s : Pool} {l : List Path} (h : Inv s) (hh : s.heap = [l]) : ∀ p ∈ l, p < s.fresh :=
  h.below l (by simp [hh])
theorem Inv.listed' {s : Pool} {l : List Path} (h : Inv s) (hh : s.heap = [l]) : ∀ p ∈ s.fs, p ∈ l :=
  h.listedOfExisting l (by simp [hh])

/-! ### the operations under `Inv` -/

theorem create_eq {s : Pool} {l : List Path} (h : Inv s) (hh : s.heap = [l]) {pid : Nat} (hp : pid < s.refs.length) :
    s.create pid = .ok ({ s with heap := [l ++ [s.fresh]], fs := s.fs ++ [s.fresh], fresh := s.fresh + 1 }, s.fresh) := by
  simp [Pool.create, listOf_eq h hh hp, setList_eq h hh hp]

theorem remove_eq {s : Pool} {l : List Path} (h : Inv s) (hh : s.heap = [l]) {pid : Nat} (hp : pid < s.refs.length)
    (p : Path) : s.remove pid p =
      if l.contains p then .ok { s with fs := s.fs.filter (· ≠ p), heap := [l.erase p] } else .error .valueError := by
  simp [Pool.remove, listOf_eq h hh hp, Pool.setList, refs_get h hp, hh]

theorem flush_eq {s : Pool} {l : List Path} (h : Inv s) (hh : s.heap = [l]) {pid : Nat} (hp : pid < s.refs.length) :
    s.flush pid = .ok { s with fs := s.fs.filter (fun p => !l.contains p), heap := [[]] } := by
  simp [Pool.flush, listOf_eq h hh hp, Pool.setList, refs_get h hp, hh]

theorem fork_eq {s : Pool} (h : Inv s) {pid : Nat} (hp : pid < s.refs.length) :
    s.fork pid = .ok ({ s with refs := s.refs ++ [0] }, s.refs.length) := by
  simp [Pool.fork, refs_get h hp]

theorem applyOp_remove_bad {s : Pool} {pid : Nat} (hp : ¬ pid < s.refs.length) (p : Path) :
    applyOp s (.remove pid p) = s := by
  simp [applyOp, Pool.remove, listOf_none hp]

theorem applyOp_remove_ok {s : Pool} {l : List Path} (h : Inv s) (hh : s.heap = [l]) {pid : Nat}
    (hp : pid < s.refs.length) (p : Path) : applyOp s (.remove pid p) =
      if l.contains p then { s with fs := s.fs.filter (· ≠ p), heap := [l.erase p] } else s.unlink p := by
  by_cases hc : l.contains p = true
  · simp only [applyOp, remove_eq h hh hp, hc, if_true]
  · simp only [applyOp, remove_eq h hh hp, hc, Bool.false_eq_true, if_false]

theorem inv_unlink {s : Pool} (h : Inv s) (p : Path) : Inv (s.unlink p) := by
  obtain ⟨l, hh⟩ := heap_eq h
  refine Inv.of (l := l) (by simpa [Pool.unlink] using hh) h.refs h.owner (h.nodup' hh) (h.below' hh) ?_ ?_ ?_
  · intro q hq
    simp only [Pool.unlink, List.mem_filter] at hq
    exact h.fsLt q hq.1
  · exact h.fsNodup.filter _
  · intro q hq
    simp only [Pool.unlink, List.mem_filter] at hq
    exact h.listed' hh q hq.1

theorem inv_new : Inv Pool.new := by
  constructor <;> simp [Pool.new]

theorem inv_step (s : Pool) (op : Op) (h : Inv s) : Inv (applyOp s op) := by
  obtain ⟨l, hh⟩ := heap_eq h
  cases op with
  | create pid =>
    by_cases hp : pid < s.refs.length
    · simp only [applyOp, create_eq h hh hp]
      refine Inv.of (l := l ++ [s.fresh]) rfl h.refs h.owner ?_ ?_ ?_ ?_ ?_
      · refine List.nodup_append.mpr ⟨h.nodup' hh, by simp, ?_⟩
        intro a ha b hb
        simp only [List.mem_singleton] at hb
        exact hb ▸ Nat.ne_of_lt (h.below' hh a ha)
      · intro q hq
        simp only [List.mem_append, List.mem_singleton] at hq
        rcases hq with hq | hq
        · exact Nat.lt_succ_of_lt (h.below' hh q hq)
        · exact hq ▸ Nat.lt_succ_self _
      · intro q hq
        simp only [List.mem_append, List.mem_singleton] at hq
        rcases hq with hq | hq
        · exact Nat.lt_succ_of_lt (h.fsLt q hq)
        · exact hq ▸ Nat.lt_succ_self _
      · refine List.nodup_append.mpr ⟨h.fsNodup, by simp, ?_⟩
        intro a ha b hb
        simp only [List.mem_singleton] at hb
        exact hb ▸ Nat.ne_of_lt (h.fsLt a ha)
      · intro q hq
        simp only [List.mem_append, List.mem_singleton] at hq ⊢
        rcases hq with hq | hq
        · exact Or.inl (h.listed' hh q hq)
        · exact Or.inr hq
    · simpa [applyOp, Pool.create, listOf_none hp] using h
  | remove pid p =>
    by_cases hp : pid < s.refs.length
    · rw [applyOp_remove_ok h hh hp]
      split
      · refine Inv.of (l := l.erase p) rfl h.refs h.owner ((h.nodup' hh).erase p) ?_ ?_ ?_ ?_
        · intro q hq
          exact h.below' hh q (List.mem_of_mem_erase hq)
        · intro q hq
          simp only [List.mem_filter] at hq
          exact h.fsLt q hq.1
        · exact h.fsNodup.filter _
        · intro q hq
          simp only [List.mem_filter, decide_eq_true_eq] at hq
          exact (List.mem_erase_of_ne hq.2).mpr (h.listed' hh q hq.1)
      · exact inv_unlink h p
    · rw [applyOp_remove_bad hp]; exact h
  | flush pid =>
    by_cases hp : pid < s.refs.length
    · simp only [applyOp, flush_eq h hh hp]
      refine Inv.of (l := []) rfl h.refs h.owner List.nodup_nil (by simp) ?_ ?_ ?_
      · intro q hq
        simp only [List.mem_filter] at hq
        exact h.fsLt q hq.1
      · exact h.fsNodup.filter _
      · intro q hq
        simp only [List.mem_filter, List.contains_eq_mem, Bool.not_eq_eq_eq_not, Bool.not_true,
          decide_eq_false_iff_not] at hq
        exact absurd (h.listed' hh q hq.1) hq.2
    · simpa [applyOp, Pool.flush, listOf_none hp] using h
  | fork pid =>
    by_cases hp : pid < s.refs.length
    · simp only [applyOp, fork_eq h hp]
      refine Inv.of (l := l) hh ?_ (by simp) (h.nodup' hh) (h.below' hh) h.fsLt h.fsNodup (h.listed' hh)
      intro r hr
      simp only [List.mem_append, List.mem_singleton] at hr
      rcases hr with hr | hr
      · exact h.refs r hr
      · exact hr
    · simpa [applyOp, Pool.fork, refs_none hp] using h
  | unlink p => exact inv_unlink h p

theorem inv_run_from (ops : List Op) (s : Pool) (h : Inv s) : Inv (run s ops) := by
  induction ops generalizing s with
  | nil => exact h
  | cons op ops ih => exact ih _ (inv_step s op h)

theorem inv_run (ops : List Op) : Inv (run Pool.new ops) := inv_run_from ops _ inv_new

/-- every path returned by `create()` (in any process) is a distinct, existing file -/
theorem create_fresh (s : Pool) (h : Inv s) (pid : Nat) (hp : pid < s.refs.length) :
    ∃ s' p, s.create pid = .ok (s', p) ∧ p ∉ s.fs ∧ p ∈ s'.fs ∧ (∀ l, s.listOf 0 = some l → p ∉ l) ∧
      (∀ l', s'.listOf 0 = some l' → p ∈ l') := by
  obtain ⟨l, hh⟩ := heap_eq h
  refine ⟨_, _, create_eq h hh hp, ?_, by simp, ?_, ?_⟩
  · intro hm
    exact Nat.lt_irrefl _ (h.fsLt _ hm)
  · intro l0 hl0 hm
    rw [listOf_eq h hh (zero_lt_refs h)] at hl0
    injection hl0 with hl0
    subst hl0
    exact Nat.lt_irrefl _ (h.below' hh _ hm)
  · intro l' hl'
    simp only [Pool.listOf, refs_get h (zero_lt_refs h), List.getElem?_cons_zero, Option.some.injEq] at hl'
    subst hl'
    simp

/-- `Inv` strengthened by "every listed path exists": preserved by everything except `unlink` -/
structure Inv2 (s : Pool) : Prop extends Inv s where
  existingOfListed : ∀ l, s.heap[0]? = some l → ∀ p ∈ l, p ∈ s.fs

theorem inv2_step (s : Pool) (op : Op) (h : Inv2 s) (hop : ∀ p, op ≠ .unlink p) : Inv2 (applyOp s op) := by
  refine ⟨inv_step s op h.toInv, ?_⟩
  obtain ⟨l, hh⟩ := heap_eq h.toInv
  have hex : ∀ p ∈ l, p ∈ s.fs := h.existingOfListed l (by simp [hh])
  have hI := h.toInv
  cases op with
  | create pid =>
    by_cases hp : pid < s.refs.length
    · simp only [applyOp, create_eq hI hh hp]
      intro l' hl' q hq
      simp only [List.getElem?_cons_zero, Option.some.injEq] at hl'
      subst hl'
      simp only [List.mem_append, List.mem_singleton] at hq ⊢
      exact hq.imp (hex q) id
    · simpa [applyOp, Pool.create, listOf_none hp] using h.existingOfListed
  | remove pid p =>
    have hun : ¬ l.contains p → ∀ l', (s.unlink p).heap[0]? = some l' → ∀ q ∈ l', q ∈ (s.unlink p).fs := by
      intro hc l' hl' q hq
      simp only [Pool.unlink, hh, List.getElem?_cons_zero, Option.some.injEq] at hl'
      subst hl'
      simp only [Pool.unlink, List.mem_filter, decide_eq_true_eq]
      refine ⟨hex q hq, ?_⟩
      rintro rfl
      exact hc (by simpa using hq)
    by_cases hp : pid < s.refs.length
    · rw [applyOp_remove_ok hI hh hp]
      by_cases hc : l.contains p
      · simp only [hc, if_true]
        intro l' hl' q hq
        simp only [List.getElem?_cons_zero, Option.some.injEq] at hl'
        subst hl'
        have := ((hI.nodup' hh).mem_erase_iff).mp hq
        simp only [List.mem_filter, decide_eq_true_eq]
        exact ⟨hex q this.2, this.1⟩
      · simp only [hc]
        exact hun hc
    · rw [applyOp_remove_bad hp]; exact h.existingOfListed
  | flush pid =>
    by_cases hp : pid < s.refs.length
    · simp only [applyOp, flush_eq hI hh hp]
      intro l' hl' q hq
      simp only [List.getElem?_cons_zero, Option.some.injEq] at hl'
      subst hl'
      simp at hq
    · simpa [applyOp, Pool.flush, listOf_none hp] using h.existingOfListed
  | fork pid =>
    by_cases hp : pid < s.refs.length
    · simpa [applyOp, fork_eq hI hp] using h.existingOfListed
    · simpa [applyOp, Pool.fork, refs_none hp] using h.existingOfListed
  | unlink p => exact absurd rfl (hop p)

theorem inv2_new : Inv2 Pool.new := ⟨inv_new, by simp [Pool.new]⟩

theorem inv2_run_from (ops : List Op) (s : Pool) (h : Inv2 s) (hn : NoUnlink ops) : Inv2 (run s ops) := by
  induction ops generalizing s with
  | nil => exact h
  | cons op ops ih =>
    have hok : (∀ p, op ≠ .unlink p) ∧ NoUnlink ops := by
      cases op <;> simp_all [NoUnlink]
    exact ih _ (inv2_step s op h hok.1) hok.2

/-- after any history without outside interference the pool lists exactly the created-and-not-removed paths and exactly
those exist on disk -/
theorem listed_eq_existing (ops : List Op) (hn : NoUnlink ops) :
    ∃ l, (run Pool.new ops).listOf 0 = some l ∧ ∀ p, p ∈ l ↔ p ∈ (run Pool.new ops).fs := by
  have h2 := inv2_run_from ops _ inv2_new hn
  have h := h2.toInv
  obtain ⟨l, hh⟩ := heap_eq h
  exact ⟨l, listOf_eq h hh (zero_lt_refs h),
    fun p => ⟨h2.existingOfListed l (by simp [hh]) p, h.listed' hh p⟩⟩

theorem flush_nothing_left {s : Pool} (h : Inv s) {pid : Nat} (hp : pid < s.refs.length) :
    ∃ s', s.flush pid = .ok s' ∧ s'.fs = [] ∧ s'.listOf 0 = some [] := by
  obtain ⟨l, hh⟩ := heap_eq h
  refine ⟨_, flush_eq h hh hp, ?_, ?_⟩
  · refine List.filter_eq_nil_iff.mpr ?_
    intro q hq
    simpa using h.listed' hh q hq
  · simp [Pool.listOf, refs_get h (zero_lt_refs h)]

/-- whatever happened before (children creating files, files deleted from outside, failed removals): after `flush()` by
any process, and after leaving the context by any route, none of the pool's files exists and nothing is listed -/
theorem nothing_left_flush (ops : List Op) (pid : Nat) (hp : pid < (run Pool.new ops).refs.length) :
    ∃ s', (run Pool.new ops).flush pid = .ok s' ∧ s'.fs = [] ∧ s'.listOf 0 = some [] :=
  flush_nothing_left (inv_run ops) hp

theorem nothing_left_exit (ops : List Op) :
    ∃ s', (run Pool.new ops).exit = .ok s' ∧ s'.fs = [] ∧ s'.listOf 0 = some [] :=
  flush_nothing_left (inv_run ops) (zero_lt_refs (inv_run ops))

/-- `remove` of a path the pool does not list raises `ValueError` (the file, if any, is gone anyway) -/
theorem remove_unlisted (s : Pool) (h : Inv s) (pid : Nat) (hp : pid < s.refs.length) (p : Path)
    (hnot : ∀ l, s.listOf 0 = some l → p ∉ l) : s.remove pid p = .error .valueError := by
  obtain ⟨l, hh⟩ := heap_eq h
  have := hnot l (listOf_eq h hh (zero_lt_refs h))
  simp [remove_eq h hh hp, this]

/-! ### FilePool -/

/-- inside the context every given path has an open handle; after leaving it (normally or by an exception: both call
`close()`) every handle that was opened is closed and the pool holds none -/
theorem filepool_open (files : List Nat) :
    (FPool.new files).open.handles = some (files.map (fun _ => true)) := rfl

theorem filepool_closed (files : List Nat) :
    let s := (FPool.new files).open.close
    s.handles = none ∧ s.closedLog.length = files.length ∧ ∀ b ∈ s.closedLog, b = false := by
  simp [FPool.new, FPool.open, FPool.close]

end WindVerif.TmpPool
