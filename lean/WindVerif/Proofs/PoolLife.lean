import WindVerif.Proofs.PoolLifeAux3
import WindVerif.Proofs.PoolLifeMid
import WindVerif.Proofs.PoolLifeMidB
/-! Worker lifecycle in the pool model (C04): holds with the injected faults too. -/
namespace WindVerif.Pool

/-- in every reachable state, under every interleaving and with `begin()` or the functor raising anywhere, every worker's
event log is `begin · item* · end` cut off where the worker is (begin exactly once and first, end exactly once and last,
present iff the worker has exited), and no worker processes more chunks than its quota -/
theorem lifecycle_trace (cfg : Cfg) (s : St) (h : Reach cfg s) (w : Worker) (hw : w ∈ s.workers) : LifeOk cfg w := by
  obtain ⟨hI, hc⟩ := LInv_reach h
  have := (hI.wk w hw).lifeOk
  rw [hc] at this; exact this

theorem quota_respected (cfg : Cfg) (s : St) (h : Reach cfg s) (w : Worker) (hw : w ∈ s.workers) (q : Nat)
    (hq : cfg.quota = some q) : itemCount w ≤ q :=
  (lifecycle_trace cfg s h w hw).2 q hq

/-- `until_all_ready()` has returned ⇒ `begin()` of every listed worker has been entered and (without a begin fault) has
completed: its `begin_finished` is set -/
theorem ready_after_begin (cfg : Cfg) (s : St) (h : Reach cfg s) (hr : cfg.waitReady = true)
    (hpast : match s.cpc with | .enterStart _ | .readyWait _ => False | _ => True)
    (w : Worker) (hw : w ∈ s.workers) (hinit : w.wid < cfg.nWorkers) : WEv.begin ∈ w.log ∧ (w.pc ≠ .exited → w.bf = true) := by
  obtain ⟨hI, hc⟩ := LInv_reach h
  have hpost : post s.cpc = true := by
    cases hcp : s.cpc <;> simp only [hcp, post] at hpast ⊢
  have hbf : w.bf = true :=
    hI.ready (by rw [hc]; exact hr) w hw (by rw [readyUpto_post hpost, hc]; exact hinit)
  exact ⟨(hI.wk w hw).bfLog hbf, fun _ => hbf⟩

/-- a worker is at `.ending` (its wid posted, `end()` still to run) only in a pool with a finite join timeout -/
theorem ending_only_joinTimeout (cfg : Cfg) (s : St) (h : Reach cfg s) (w : Worker) (hw : w ∈ s.workers)
    (hpc : w.pc = .ending) : cfg.joinTimeout = true := by
  obtain ⟨hI, hc⟩ := LInv_reach h
  rw [← hc]; exact (hI.wk w hw).ending hpc

theorem exited_of_gone {cfg : Cfg} {w : Worker} (hW : WInv cfg w) (hjt : cfg.joinTimeout = false) (hg : gone w.pc = true) :
    w.pc = .exited := by
  cases hpc : w.pc <;> rw [hpc] at hg <;> first | rfl | cases hg | skip
  have := hW.ending hpc; rw [hjt] at this; cases this

/-- when the pool context has been left — of a pool WITHOUT a join timeout (`join_timeout=None`) —, no worker is running,
replaced workers included.  (With a finite join timeout this is false: `exit_returns_with_running_worker` in
`Proofs/PoolJoinTimeout.lean`; `imap_maximal_all_exited` / `eventually_all_exited` there is what remains.) -/
theorem exit_joins_all (cfg : Cfg) (hjt : cfg.joinTimeout = false) (s : St) (h : Reach cfg s) (hd : s.cpc = .done) :
    AllExited s := by
  obtain ⟨hI, hc⟩ := LInv_reach h
  intro w hw
  apply exited_of_gone (hI.wk w hw) (by rw [hc]; exact hjt)
  by_cases hg : gone w.pc = true
  · exact hg
  · exact hI.done hd w.wid (hI.listed w hw (by simpa using hg)) (by rw [hc]; exact hjt) w hw rfl

end WindVerif.Pool
