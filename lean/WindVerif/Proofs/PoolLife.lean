import WindVerif.Proofs.PoolLifeAux3
import WindVerif.Proofs.PoolLifeMid
import WindVerif.Proofs.PoolLifeMidB
import WindVerif.Proofs.PoolExited
/-! Worker lifecycle in the pool model (C04): holds with the injected faults too. -/
namespace WindVerif.Pool

/-- in every reachable state, under every interleaving and with `begin()` or the functor raising anywhere, every worker's
event log is `begin · item* · end` cut off where the worker is (begin exactly once and first, end exactly once and last,
present iff the worker has exited), and no worker processes more chunks than its quota -/
theorem lifecycle_trace (cfg : Cfg) (s : St) (h : Reach cfg s) (w : Worker) (hw : w ∈ s.workers) : LifeOk cfg w := by
  obtain ⟨hI, hc⟩ := LInv_reach h
  have := (hI.wk w hw).lifeOk
  rw [hc] at this; exact this

theorem quota_respected (cfg : Cfg) (s : St) (h : Reach cfg s) (w : Worker) (hw : w ∈ s.workers) (q : Nat)
    (hq : cfg.quota = some q) : itemCount w ≤ q :=
  (lifecycle_trace cfg s h w hw).2 q hq

/-- `until_all_ready()` has returned ⇒ `begin()` of every listed worker has been entered and (without a begin fault) has
completed: its `begin_finished` is set -/
theorem ready_after_begin (cfg : Cfg) (s : St) (h : Reach cfg s) (hr : cfg.waitReady = true)
    (hpast : match s.cpc with | .enterStart _ | .readyWait _ => False | _ => True)
    (w : Worker) (hw : w ∈ s.workers) (hinit : w.wid < cfg.nWorkers) : WEv.begin ∈ w.log ∧ (w.pc ≠ .exited → w.bf = true) := by
  obtain ⟨hI, hc⟩ := LInv_reach h
  have hpost : post s.cpc = true := by
    cases hcp : s.cpc <;> simp only [hcp, post] at hpast ⊢
  have hbf : w.bf = true :=
    hI.ready (by rw [hc]; exact hr) w hw (by rw [readyUpto_post hpost, hc]; exact hinit)
  exact ⟨(hI.wk w hw).bfLog hbf, fun _ => hbf⟩

/-- when the pool context has been left — of a pool WITHOUT a join timeout (`join_timeout=None`) —, no worker is running,
replaced workers included.  (With a finite join timeout this is false: `exit_returns_with_running_worker` in
`Proofs/PoolJoinTimeout.lean`; `imap_maximal_all_exited` / `eventually_all_exited` there is what remains.) -/
theorem exit_joins_all (cfg : Cfg) (hjt : cfg.joinTimeout = false) (s : St) (h : Reach cfg s) (hd : s.cpc = .done) :
    AllExited s := by
  obtain ⟨hI, hc⟩ := LInv_reach h
  intro w hw
  by_cases hin : w.wid ∈ s.procs
  · -- listed: `__exit__` has joined it (the join blocks while the worker is inside `end()`)
    exact hI.done hd w.wid hin (by rw [hc]; exact hjt) w hw rfl
  · -- replaced: the replace thread has joined it before it overwrote the slot
    exact unlisted_exited' cfg hjt s h w hw hin

/-- a plain pool with one worker, no call, `join_timeout=None` -/
def endCfg : Cfg :=
  { nWorkers := 1, workCap := none, resCap := none, factory := false, quota := none, waitReady := false, calls := [],
    beginFault := [], itemFault := [] }

/-- `__enter__` starts worker 0, `__exit__` posts the stop order; worker 0 runs `begin()` and takes the stop order -/
def endSched : List Tid := [.c, .c, .w 0, .w 0, .w 0]

theorem endSched_run : (run (init endCfg) endSched).map
    (fun s => ((s.cpc, (step s .c).isSome), s.workers.map (fun w => (w.wid, w.pc, w.log)))) =
    some ((.exitJoin 0, false), [(0, .ending, [.begin])]) := by decide +kernel

/-- `end()` is a step of its own in every configuration — also without a join timeout: a reachable state of a plain pool
(`join_timeout=None`) in which the worker has taken its stop order and has `end()` still to run (`.ending`), while the join of
`__exit__` blocks.  (The former `ending_only_joinTimeout` — `.ending` only with a join timeout — is false in this model.) -/
theorem ending_without_timeout :
    ∃ cfg sched s, cfg.joinTimeout = false ∧ run (init cfg) sched = some s ∧ s.cpc = .exitJoin 0 ∧ step s .c = none ∧
      ∃ w ∈ s.workers, w.pc = .ending ∧ w.log = [.begin] := by
  cases hr : run (init endCfg) endSched with
  | none => have := endSched_run; rw [hr] at this; cases this
  | some s =>
    have := endSched_run; rw [hr] at this
    simp only [Option.map_some, Option.some.injEq, Prod.mk.injEq] at this
    obtain ⟨⟨h1, h2⟩, h3⟩ := this
    cases hw : s.workers with
    | nil => rw [hw] at h3; cases h3
    | cons a r =>
      rw [hw] at h3
      simp only [List.map_cons, List.cons.injEq, Prod.mk.injEq] at h3
      refine ⟨endCfg, endSched, s, rfl, hr, h1, ?_, a, by rw [hw]; simp, h3.1.2.1, h3.1.2.2⟩
      cases hc : step s .c with
      | none => rfl
      | some x => rw [hc] at h2; cases h2

end WindVerif.Pool
