import WindVerif.Spec.Dll
import WindVerif.Proofs.DllSeg
/-!
Representation lemmas for every operation of the doubly linked list model.
-/
namespace WindVerif.Dll

theorem repr_empty : Rep Dll.empty [] := by
  refine ⟨by simp, by simp, rfl, rfl, rfl, by simp⟩

/-! ### projections of `remove` -/

theorem remove_prev (d : Dll) (n x : Node) :
    (remove d n).prev x = if d.next n = some x then d.prev n else d.prev x := by
  unfold remove
  cases hp : d.prev n <;> cases hq : d.next n <;> simp [setNext, setPrev, upd, eq_comm, hp, hq]

theorem remove_next (d : Dll) (n x : Node) :
    (remove d n).next x = if d.prev n = some x then d.next n else d.next x := by
  unfold remove
  cases hp : d.prev n <;> cases hq : d.next n <;> simp [setNext, setPrev, upd, eq_comm, hp, hq]

theorem remove_head (d : Dll) (n : Node) :
    (remove d n).head = if d.prev n = none then d.next n else d.head := by
  unfold remove
  cases hp : d.prev n <;> cases hq : d.next n <;> simp [setNext, setPrev, upd, hp, hq]

theorem remove_tail (d : Dll) (n : Node) :
    (remove d n).tail = if d.next n = none then d.prev n else d.tail := by
  unfold remove
  cases hp : d.prev n <;> cases hq : d.next n <;> simp [setNext, setPrev, upd, hp, hq]

@[simp] theorem remove_size (d : Dll) (n : Node) : (remove d n).size = d.size - 1 := by
  unfold remove
  cases hp : d.prev n <;> cases hq : d.next n <;> simp [setNext, setPrev, upd, hp, hq]

@[simp] theorem remove_fresh (d : Dll) (n : Node) : (remove d n).fresh = d.fresh := by
  unfold remove
  cases hp : d.prev n <;> cases hq : d.next n <;> simp [setNext, setPrev, upd, hp, hq]

theorem split_remove {d : Dll} {l1 l2 : List Node} {n : Node} (s : Split d l1 n l2) :
    Rep (remove d n) (l1 ++ l2) := by
  refine ⟨?nodup, ?seg, ?head, ?tail, ?size, ?fresh⟩
  case nodup =>
    exact List.nodup_append.2 ⟨s.nd1, s.nd2, fun a ha b hb hab => s.disj a ha (hab ▸ hb)⟩
  case seg =>
    rw [seg_append]
    constructor
    · refine seg_ends s.nd1 s.seg1 ?_ ?_ ?_ ?_
      · intro x hx _
        rw [remove_prev, s.next, if_neg]
        intro he; exact s.disj x hx (List.mem_of_head? he)
      · intro x hx hne
        rw [remove_next, s.prev, if_neg (Ne.symm hne)]
      · intro x hx
        have hx1 := List.mem_of_head? hx
        rw [remove_prev, s.next, if_neg]
        · exact seg_head_prev s.seg1 hx
        · intro he; exact s.disj x hx1 (List.mem_of_head? he)
      · intro x hx
        rw [remove_next, s.prev, if_pos hx, s.next]; simp
    · refine seg_ends s.nd2 s.seg2 ?_ ?_ ?_ ?_
      · intro x hx hne
        rw [remove_prev, s.next, if_neg (Ne.symm hne)]
      · intro x hx _
        rw [remove_next, s.prev, if_neg]
        intro he; exact s.disj x (List.mem_of_getLast? he) hx
      · intro x hx
        rw [remove_prev, s.next, if_pos hx, s.prev]; simp
      · intro x hx
        have hx2 := List.mem_of_getLast? hx
        rw [remove_next, s.prev, if_neg]
        · exact seg_last_next s.seg2 hx
        · intro he; exact s.disj x (List.mem_of_getLast? he) hx2
  case head =>
    rw [remove_head, s.prev, s.next, s.head, List.head?_append]
    cases l1 with
    | nil => simp
    | cons a as => simp [List.getLast?_cons]
  case tail =>
    rw [remove_tail, s.prev, s.next, s.tail, List.getLast?_append]
    cases l2 with
    | nil => simp
    | cons a as => simp [List.getLast?_cons]
  case size => rw [remove_size, s.size]; simp; omega
  case fresh =>
    intro x hx
    rw [remove_fresh]
    rcases List.mem_append.1 hx with hx | hx
    · exact s.fresh1 x hx
    · exact s.fresh2 x hx

theorem rep_remove {d : Dll} {l : List Node} {n : Node} (h : Rep d l) (hn : n ∈ l) :
    Rep (remove d n) (l.erase n) := by
  obtain ⟨l1, l2, rfl, s⟩ := h.exists_split hn
  rw [erase_split s.n1]
  exact split_remove s

/-! ### linking a non-member node in (pointwise statements about the resulting structure) -/

/-- `d'` is `d` with the non-member `n` linked in front of the head `h0`. -/
theorem rep_pushFront {d d' : Dll} {l : List Node} {n h0 : Node} (h : Rep d l) (hn : n ∉ l)
    (hh : l.head? = some h0) (hf : n < d'.fresh) (hfresh : d.fresh ≤ d'.fresh)
    (hprevn : d'.prev n = none) (hprevh : d'.prev h0 = some n)
    (hprev : ∀ x ∈ l, x ≠ h0 → d'.prev x = d.prev x)
    (hnextn : d'.next n = some h0) (hnext : ∀ x ∈ l, d'.next x = d.next x)
    (hhead : d'.head = some n) (htail : d'.tail = d.tail) (hsize : d'.size = d.size + 1) :
    Rep d' (n :: l) := by
  refine ⟨List.nodup_cons.2 ⟨hn, h.nodup⟩, ?seg, by simpa using hhead, ?tail, ?size, ?fresh⟩
  case seg =>
    rw [seg_cons]
    refine ⟨hprevn, by simpa [hh] using hnextn, ?_⟩
    refine seg_ends h.nodup h.seg ?_ ?_ ?_ ?_
    · intro x hx hne
      exact hprev x hx (by rintro rfl; exact hne hh.symm)
    · intro x hx _; exact hnext x hx
    · intro x hx
      rw [hh] at hx; cases hx; exact hprevh
    · intro x hx
      rw [hnext x (List.mem_of_getLast? hx)]; exact seg_last_next h.seg hx
  case tail =>
    rw [htail, h.tail]
    cases l with
    | nil => simp at hh
    | cons a as => rw [List.getLast?_cons_cons]
  case size => rw [hsize, h.size]; simp
  case fresh =>
    intro x hx
    rcases List.mem_cons.1 hx with rfl | hx
    · exact hf
    · exact Nat.lt_of_lt_of_le (h.fresh x hx) hfresh

/-- `d'` is `d` with the non-member `n` linked in right behind the member `a`. -/
theorem split_insertAfter {d d' : Dll} {m1 m2 : List Node} {n a : Node} (s : Split d m1 a m2)
    (hn1 : n ∉ m1) (hna : n ≠ a) (hn2 : n ∉ m2) (hf : n < d'.fresh) (hfresh : d.fresh ≤ d'.fresh)
    (hprevn : d'.prev n = some a) (hnextn : d'.next n = m2.head?) (hnexta : d'.next a = some n)
    (hprevb : ∀ b, m2.head? = some b → d'.prev b = some n)
    (hprev : ∀ x, x ∈ m1 ∨ x = a ∨ x ∈ m2 → some x ≠ m2.head? → d'.prev x = d.prev x)
    (hnext : ∀ x, x ∈ m1 ∨ x ∈ m2 → d'.next x = d.next x)
    (hhead : d'.head = d.head) (htail : d'.tail = if m2 = [] then some n else d.tail)
    (hsize : d'.size = d.size + 1) :
    Rep d' (m1 ++ a :: n :: m2) := by
  refine ⟨?nodup, ?seg, ?head, ?tail, ?size, ?fresh⟩
  case nodup =>
    refine List.nodup_append.2 ⟨s.nd1, ?_, ?_⟩
    · refine List.nodup_cons.2 ⟨?_, List.nodup_cons.2 ⟨hn2, s.nd2⟩⟩
      intro h; rcases List.mem_cons.1 h with h | h
      · exact hna h.symm
      · exact s.n2 h
    · intro x hx y hy hxy
      subst hxy
      rcases List.mem_cons.1 hy with h | h
      · exact s.n1 (h ▸ hx)
      · rcases List.mem_cons.1 h with h | h
        · exact hn1 (h ▸ hx)
        · exact s.disj x hx h
  case seg =>
    have ham2 : some a ≠ m2.head? := fun he => s.n2 (List.mem_of_head? he.symm)
    rw [seg_append, seg_cons, seg_cons]
    refine ⟨?_, ?_, by simpa using hnexta, by simpa using hprevn, by simpa using hnextn, ?_⟩
    · refine seg_frame s.nd1 (by simpa using s.seg1) ?_ ?_
      · intro x hx
        exact hprev x (Or.inl hx) (fun he => s.disj x hx (List.mem_of_head? he.symm))
      · intro x hx; exact hnext x (Or.inl hx)
    · rw [hprev a (Or.inr (Or.inl rfl)) ham2, s.prev]; simp
    · refine seg_ends s.nd2 s.seg2 ?_ ?_ ?_ ?_
      · intro x hx hne; exact hprev x (Or.inr (Or.inr hx)) hne
      · intro x hx _; exact hnext x (Or.inr hx)
      · intro x hx; exact hprevb x hx
      · intro x hx
        rw [hnext x (Or.inr (List.mem_of_getLast? hx))]; exact seg_last_next s.seg2 hx
  case head =>
    rw [hhead, s.head, List.head?_append]; simp
  case tail =>
    rw [htail, s.tail, List.getLast?_append]
    cases m2 with
    | nil => simp
    | cons b bs => simp [List.getLast?_cons]
  case size => rw [hsize, s.size]; simp; omega
  case fresh =>
    intro x hx
    have hle := fun y (hy : y < d.fresh) => Nat.lt_of_lt_of_le hy hfresh
    rcases List.mem_append.1 hx with hx | hx
    · exact hle _ (s.fresh1 x hx)
    · rcases List.mem_cons.1 hx with rfl | hx
      · exact hle _ s.freshn
      · rcases List.mem_cons.1 hx with rfl | hx
        · exact hf
        · exact hle _ (s.fresh2 x hx)

/-! ### the operations -/

theorem exists_snoc {l : List Node} (hne : l ≠ []) : ∃ m a, l = m ++ [a] :=
  ⟨l.dropLast, l.getLast hne, (List.dropLast_concat_getLast hne).symm⟩

theorem repr_append {d : Dll} {l : List Node} (h : Rep d l) : Rep (append d).1 (l ++ [d.fresh]) := by
  by_cases hl : l = []
  · subst hl
    have ht : d.tail = none := by simpa using h.tail
    have hs : d.size = 0 := by simpa using h.size
    refine ⟨by simp, ?_, ?_, ?_, ?_, ?_⟩ <;>
      simp [append, ht, setNext, setPrev, upd, seg_cons, hs]
  · obtain ⟨m, a, rfl⟩ := exists_snoc hl
    have s := h.split
    have ht : d.tail = some a := by simpa using s.tail
    have hfa : d.fresh ≠ a := Nat.ne_of_gt s.freshn
    have hfm : d.fresh ∉ m := fun hx => Nat.lt_irrefl _ (s.fresh1 _ hx)
    have := split_insertAfter (d' := (append d).1) (n := d.fresh) s hfm hfa (by simp)
    simp only [List.append_assoc, List.cons_append, List.nil_append]
    refine this ?_ ?_ ?_ ?_ ?_ ?_ ?_ ?_ ?_ ?_ ?_
    all_goals clear this
    all_goals simp [append, ht, setNext, setPrev, upd, hfa]
    all_goals have hn1 := s.n1; grind

theorem repr_prepend {d : Dll} {l : List Node} (h : Rep d l) : Rep (prepend d).1 (d.fresh :: l) := by
  cases l with
  | nil =>
    have hh : d.head = none := by simpa using h.head
    have hs : d.size = 0 := by simpa using h.size
    refine ⟨by simp, ?_, ?_, ?_, ?_, ?_⟩ <;>
      simp [prepend, hh, setNext, setPrev, upd, seg_cons, hs]
  | cons h0 t =>
    have hh : d.head = some h0 := by simpa using h.head
    have hf0 : h0 ≠ d.fresh := Nat.ne_of_lt (h.fresh h0 (by simp))
    have hfl : d.fresh ∉ h0 :: t := fun hx => Nat.lt_irrefl _ (h.fresh _ hx)
    refine rep_pushFront (h0 := h0) h hfl rfl ?_ ?_ ?_ ?_ ?_ ?_ ?_ ?_ ?_ ?_
    all_goals simp [prepend, hh, setNext, setPrev, upd, hf0]
    all_goals grind

theorem repr_popBack {d : Dll} {l : List Node} (h : Rep d l) :
    Rep (applyOp d .popBack) l.dropLast := by
  by_cases hl : l = []
  · subst hl
    have ht : d.tail = none := by simpa using h.tail
    simpa [applyOp, popBack, ht] using h
  · obtain ⟨m, a, rfl⟩ := exists_snoc hl
    have s := h.split
    have ht : d.tail = some a := by simpa using s.tail
    have := split_remove s
    simpa [applyOp, popBack, ht] using this

theorem repr_popFront {d : Dll} {l : List Node} (h : Rep d l) :
    Rep (applyOp d .popFront) l.tail := by
  cases l with
  | nil =>
    have hh : d.head = none := by simpa using h.head
    simpa [applyOp, popFront, hh] using h
  | cons a t =>
    have s := h.split (l1 := [])
    have hh : d.head = some a := by simpa using s.head
    have := split_remove s
    simpa [applyOp, popFront, hh] using this

theorem repr_moveToFront {d : Dll} {l : List Node} {n : Node} (h : Rep d l) (hn : n ∈ l) :
    Rep (applyOp d (.moveToFront n)) (n :: l.erase n) := by
  obtain ⟨l1, l2, rfl, s⟩ := h.exists_split hn
  rw [erase_split s.n1]
  cases l1 with
  | nil =>
    have hh : d.head = some n := by simpa using s.head
    have hp : d.prev n = none := by simpa using s.prev
    simpa [applyOp, moveToFront, hh, hp] using h
  | cons a t =>
    have hh : d.head = some a := by simpa using s.head
    obtain ⟨p, hp⟩ : ∃ p, d.prev n = some p := by rw [s.prev]; simp [List.getLast?_cons]
    have r := split_remove s
    have hh1 : (remove d n).head = some a := by simpa using r.head
    have hnl : n ∉ a :: t ++ l2 := by
      intro hx; rcases List.mem_append.1 hx with hx | hx
      · exact s.n1 hx
      · exact s.n2 hx
    have hna : n ≠ a := fun he => s.n1 (by simp [he])
    refine rep_pushFront (h0 := a) r hnl rfl ?_ ?_ ?_ ?_ ?_ ?_ ?_ ?_ ?_ ?_
    all_goals simp [applyOp, moveToFront, hh, hp, hh1, setNext, setPrev, upd, Ne.symm hna]
    all_goals have := s.n1; have := s.n2; have := s.freshn; grind

theorem repr_moveToBack {d : Dll} {l : List Node} {n : Node} (h : Rep d l) (hn : n ∈ l) :
    Rep (applyOp d (.moveToBack n)) (l.erase n ++ [n]) := by
  obtain ⟨l1, l2, rfl, s⟩ := h.exists_split hn
  rw [erase_split s.n1]
  have hh : ∃ h0, d.head = some h0 := by
    rw [s.head]; cases l1.head? <;> simp
  obtain ⟨h0, hh⟩ := hh
  by_cases hl2 : l2 = []
  · subst hl2
    have hq : d.next n = none := by simpa using s.next
    simpa [applyOp, moveToBack, hh, hq] using h
  · obtain ⟨m2, a, rfl⟩ := exists_snoc hl2
    obtain ⟨q, hq⟩ : ∃ q, d.next n = some q := by
      rw [s.next]; cases m2 <;> simp
    have r := split_remove s
    rw [← List.append_assoc] at r
    have s' := r.split
    have ht1 : (remove d n).tail = some a := by simpa using s'.tail
    have hna : n ≠ a := fun he => s.n2 (by simp [he])
    have hnm : n ∉ l1 ++ m2 := by
      intro hx; rcases List.mem_append.1 hx with hx | hx
      · exact s.n1 hx
      · exact s.n2 (by simp [hx])
    have := split_insertAfter (d' := applyOp d (.moveToBack n)) (n := n) s' hnm hna (by simp)
    simp only [List.append_assoc, List.cons_append, List.nil_append] at this ⊢
    refine this ?_ ?_ ?_ ?_ ?_ ?_ ?_ ?_ ?_ ?_ ?_
    all_goals clear this
    all_goals simp [applyOp, moveToBack, hh, hq, ht1, setNext, setPrev, upd, Ne.symm hna]
    all_goals have := s.n1; have := s.n2; have := s.freshn; have := s'.n1; grind

theorem repr_moveAfter {d : Dll} {l : List Node} {n a : Node} (h : Rep d l) (hn : n ∈ l) (ha : a ∈ l) :
    Rep (moveAfter d n a) (if n = a then l else insertAfter n a (l.erase n)) := by
  by_cases hna : n = a
  · simpa [moveAfter, hna] using h
  · rw [if_neg hna]
    have r := rep_remove h hn
    have ha' : a ∈ l.erase n := (List.mem_erase_of_ne (Ne.symm hna)).2 ha
    have hn' : n ∉ l.erase n := fun hx => ((List.Nodup.mem_erase_iff h.nodup).1 hx).1 rfl
    have hf := h.fresh n hn
    obtain ⟨m1, m2, he, s⟩ := r.exists_split ha'
    rw [he] at hn' ⊢
    rw [insertAfter_split s.n1]
    have hq := s.next
    have hn1 : n ∉ m1 := fun hx => hn' (by simp [hx])
    have hn2 : n ∉ m2 := fun hx => hn' (by simp [hx])
    cases m2 with
    | nil =>
      refine split_insertAfter s hn1 hna hn2 ?_ ?_ ?_ ?_ ?_ ?_ ?_ ?_ ?_ ?_ ?_
      all_goals simp [moveAfter, hna, hq, setNext, setPrev, upd]
      all_goals have := s.n1; have := s.n2; grind
    | cons b t =>
      refine split_insertAfter s hn1 hna hn2 ?_ ?_ ?_ ?_ ?_ ?_ ?_ ?_ ?_ ?_ ?_
      all_goals simp [moveAfter, hna, hq, setNext, setPrev, upd, Ne.symm hna]
      all_goals have := s.n1; have := s.n2; grind

theorem repr_rotateF {d : Dll} {l : List Node} (h : Rep d l) :
    Rep (rotate d true) (specOp l d.fresh (.rotate true)) := by
  cases l with
  | nil =>
    have hh : d.head = none := by simpa using h.head
    simpa [rotate, hh, specOp] using h
  | cons x xs =>
    have s := h.split (l1 := [])
    have hh : d.head = some x := by simpa using s.head
    by_cases hxs : xs = []
    · subst hxs
      have ht : d.tail = some x := by simpa using s.tail
      simpa [rotate, hh, ht, specOp] using h
    · obtain ⟨m, t, rfl⟩ := exists_snoc hxs
      have ht : d.tail = some t := by simpa using s.tail
      have hxt : x ≠ t := fun he => s.n2 (by simp [he])
      have hp : d.prev x = none := by simpa using s.prev
      obtain ⟨h', hq⟩ : ∃ h', d.next x = some h' := by
        rw [s.next]; cases m <;> simp
      have hh' : h' ∈ m ++ [t] := List.mem_of_head? (by rw [← s.next, hq])
      have r := split_remove s
      rw [List.nil_append] at r
      have s' := r.split
      have hxm : x ∉ m := fun hx => s.n2 (by simp [hx])
      have := split_insertAfter (d' := rotate d true) (n := x) s' hxm hxt (by simp)
      simp only [specOp]
      simp only [List.append_assoc, List.cons_append, List.nil_append] at this ⊢
      refine this ?_ ?_ ?_ ?_ ?_ ?_ ?_ ?_ ?_ ?_ ?_
      all_goals clear this
      all_goals simp [rotate, hh, ht, hxt, hq, hp, setNext, setPrev, upd, remove_prev, remove_next, remove_head,
        Ne.symm hxt]
      all_goals have := s.n2; have := s.freshn; have := s'.n1; grind

theorem repr_rotateB {d : Dll} {l : List Node} (h : Rep d l) :
    Rep (rotate d false) (specOp l d.fresh (.rotate false)) := by
  by_cases hl : l = []
  · subst hl
    have hh : d.head = none := by simpa using h.head
    simpa [rotate, hh, specOp] using h
  · obtain ⟨m, t, rfl⟩ := exists_snoc hl
    have s := h.split
    have ht : d.tail = some t := by simpa using s.tail
    cases m with
    | nil =>
      have hh : d.head = some t := by simpa using s.head
      simpa [rotate, hh, ht, specOp] using h
    | cons x m' =>
      have hh : d.head = some x := by simpa using s.head
      have hxt : x ≠ t := fun he => s.n1 (by simp [he])
      have hq : d.next t = none := by simpa using s.next
      obtain ⟨t', hp⟩ : ∃ t', d.prev t = some t' := by
        rw [s.prev]; simp [List.getLast?_cons]
      have ht' : t' ∈ x :: m' := List.mem_of_getLast? (by rw [← s.prev, hp])
      have r := split_remove s
      rw [List.append_nil] at r
      simp only [specOp, List.getLast?_append, List.getLast?_singleton, Option.some_or, List.dropLast_concat]
      refine rep_pushFront (h0 := x) r s.n1 rfl ?_ ?_ ?_ ?_ ?_ ?_ ?_ ?_ ?_ ?_
      all_goals simp [rotate, hh, ht, hxt, hq, hp, setNext, setPrev, upd, remove_prev, remove_next,
        remove_tail, Ne.symm hxt]
      all_goals have := s.n1; have := s.freshn; grind

/-! ### the consumed statements -/

theorem repr_step (d : Dll) (l : List Node) (op : Op) (h : Rep d l) (hv : op.Valid l) :
    Rep (applyOp d op) (specOp l d.fresh op) := by
  cases op with
  | append => exact repr_append h
  | prepend => exact repr_prepend h
  | remove n => exact rep_remove h hv
  | popBack => exact repr_popBack h
  | popFront => exact repr_popFront h
  | moveToFront n => exact repr_moveToFront h hv
  | moveToBack n => exact repr_moveToBack h hv
  | moveAfter n a => exact repr_moveAfter h hv.1 hv.2
  | rotate b =>
    cases b with
    | true => exact repr_rotateF h
    | false => exact repr_rotateB h

theorem repr_run (d : Dll) (l : List Node) (ops : List Op) (h : Rep d l) (hv : ValidSeq d l ops) :
    Rep (runOps d l ops).1 (runOps d l ops).2 := by
  induction ops generalizing d l with
  | nil => exact h
  | cons op ops ih => exact ih _ _ (repr_step d l op h hv.1) hv.2

theorem walkF_eq (d : Dll) (l : List Node) (h : Rep d l) (k : Nat) : walkF d (l.length + k) d.head = l := by
  rw [h.head]; exact walkF_seg k h.seg

theorem walkB_eq (d : Dll) (l : List Node) (h : Rep d l) (k : Nat) :
    walkB d (l.length + k) d.tail = l.reverse := by
  rw [h.tail]; exact walkB_seg k h.seg

theorem total (d : Dll) (l : List Node) (h : Rep d l) (hne : l ≠ []) (n : Node) :
    (∃ r, popBack d = .ok r) ∧ (∃ r, popFront d = .ok r) ∧
    (∃ r, moveToFront d n = .ok r) ∧ (∃ r, moveToBack d n = .ok r) := by
  obtain ⟨h0, hh⟩ : ∃ h0, d.head = some h0 := by
    rw [h.head]; cases l with
    | nil => exact absurd rfl hne
    | cons a t => exact ⟨a, rfl⟩
  obtain ⟨t0, ht⟩ : ∃ t0, d.tail = some t0 := by
    obtain ⟨m, a, rfl⟩ := exists_snoc hne
    exact ⟨a, by rw [h.tail]; simp⟩
  refine ⟨⟨_, by simp [popBack, ht]; rfl⟩, ⟨_, by simp [popFront, hh]; rfl⟩, ?_, ?_⟩
  · simp only [moveToFront, hh]
    split
    · exact ⟨_, rfl⟩
    · split <;> exact ⟨_, rfl⟩
  · simp only [moveToBack, hh]
    split
    · exact ⟨_, rfl⟩
    · split <;> exact ⟨_, rfl⟩

end WindVerif.Dll
