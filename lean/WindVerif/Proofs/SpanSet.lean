import WindVerif.Model.SpanSet
/-! Theorems about the model of `SpanSet` (C10). -/
namespace WindVerif.SpanSet

/-- `x in S` means: some stored span is related to `x` by `S`'s relation -/
theorem mem_iff (S : SpanSet) (x : Span) : mem S x = true ↔ ∃ y ∈ S.spans, S.rel.holds x y = true := by
  simp [mem, List.any_eq_true]

/-- the four relations are the stated comparisons -/
theorem holds_iff (r : Rel) (x y : Span) : r.holds x y = true ↔
    (match r with
     | .exact => x.1 = y.1 ∧ x.2 = y.2
     | .partOf => y.1 ≤ x.1 ∧ x.2 ≤ y.2
     | .includes => x.1 ≤ y.1 ∧ y.2 ≤ x.2
     | .overlaps => x.2 ≥ y.1 ∧ y.2 ≥ x.1) := by
  cases r <;> simp [Rel.holds]

/-! ### construction: a span is kept only if it is not already in the set built so far -/

/-- the constructor loop started from an arbitrary accumulator -/
private def buildFrom (r : Rel) (acc : List Span) (xs : List Span) : List Span :=
  xs.foldl (fun acc x => if acc.any (fun y => r.holds x y) then acc else acc ++ [x]) acc

private theorem build_eq (r : Rel) (xs : List Span) : build r xs = buildFrom r [] xs := rfl

private theorem buildFrom_nil (r : Rel) (acc : List Span) : buildFrom r acc [] = acc := rfl

private theorem buildFrom_cons (r : Rel) (acc : List Span) (x : Span) (xs : List Span) :
    buildFrom r acc (x :: xs) =
      buildFrom r (if acc.any (fun y => r.holds x y) then acc else acc ++ [x]) xs := rfl

private theorem buildFrom_sublist (r : Rel) (xs : List Span) :
    ∀ acc, (buildFrom r acc xs).Sublist (acc ++ xs) := by
  induction xs with
  | nil => intro acc; simp [buildFrom_nil]
  | cons x xs ih =>
    intro acc
    rw [buildFrom_cons]
    split
    · exact (ih acc).trans (List.Sublist.append_left (List.sublist_cons_self x xs) acc)
    · have := ih (acc ++ [x])
      simpa using this

private theorem buildFrom_pairwise (r : Rel) (xs : List Span) :
    ∀ acc, acc.Pairwise (fun earlier later => r.holds later earlier = false) →
      (buildFrom r acc xs).Pairwise (fun earlier later => r.holds later earlier = false) := by
  induction xs with
  | nil => intro acc h; simpa [buildFrom_nil] using h
  | cons x xs ih =>
    intro acc h
    rw [buildFrom_cons]
    split
    · exact ih acc h
    · rename_i hany
      apply ih
      rw [List.pairwise_append]
      refine ⟨h, by simp, ?_⟩
      intro a ha b hb
      simp only [List.mem_singleton] at hb
      subst hb
      cases hab : r.holds b a with
      | false => rfl
      | true => exact absurd (List.any_eq_true.mpr ⟨a, ha, hab⟩) hany

private theorem buildFrom_covers (r : Rel) (x : Span) (hrefl : r.holds x x = true) (xs : List Span) :
    ∀ acc, (acc.any (fun y => r.holds x y) = true ∨ x ∈ xs) →
      (buildFrom r acc xs).any (fun y => r.holds x y) = true := by
  induction xs with
  | nil => intro acc h; simpa [buildFrom_nil] using h
  | cons a xs ih =>
    intro acc h
    rw [buildFrom_cons]
    apply ih
    rcases h with h | h
    · left
      split
      · exact h
      · rw [List.any_append, h, Bool.true_or]
    · rcases List.mem_cons.mp h with rfl | h
      · left
        split
        · assumption
        · simp [hrefl]
      · right; exact h

private theorem holds_exact_iff (x y : Span) : Rel.holds .exact x y = true ↔ x = y := by
  simp [Rel.holds, Prod.ext_iff]

private theorem any_exact_iff (acc : List Span) (x : Span) :
    acc.any (fun y => Rel.holds .exact x y) = true ↔ x ∈ acc := by
  rw [List.any_eq_true]
  constructor
  · rintro ⟨y, hy, h⟩
    rw [holds_exact_iff] at h
    exact h ▸ hy
  · intro h
    exact ⟨x, h, (holds_exact_iff x x).mpr rfl⟩

private theorem buildFrom_exact_mem (x : Span) (xs : List Span) :
    ∀ acc, x ∈ buildFrom .exact acc xs ↔ x ∈ acc ∨ x ∈ xs := by
  induction xs with
  | nil => intro acc; simp [buildFrom_nil]
  | cons a xs ih =>
    intro acc
    rw [buildFrom_cons, ih]
    split
    · rename_i h
      rw [any_exact_iff] at h
      constructor
      · rintro (h1 | h1)
        · exact Or.inl h1
        · exact Or.inr (List.mem_cons_of_mem _ h1)
      · rintro (h1 | h1)
        · exact Or.inl h1
        · rcases List.mem_cons.mp h1 with rfl | h1
          · exact Or.inl h
          · exact Or.inr h1
    · simp only [List.mem_append, List.mem_cons, List.not_mem_nil, or_false]
      constructor
      · rintro ((h1 | h1) | h1)
        · exact Or.inl h1
        · exact Or.inr (Or.inl h1)
        · exact Or.inr (Or.inr h1)
      · rintro (h1 | h1 | h1)
        · exact Or.inl (Or.inl h1)
        · exact Or.inl (Or.inr h1)
        · exact Or.inr h1

theorem build_nil (r : Rel) : build r [] = [] := rfl

theorem build_snoc (r : Rel) (xs : List Span) (x : Span) :
    build r (xs ++ [x]) = if mem ⟨r, build r xs⟩ x then build r xs else build r xs ++ [x] := by
  unfold build
  rw [List.foldl_append]
  rfl

theorem build_sublist (r : Rel) (xs : List Span) : (build r xs).Sublist xs := by
  simpa [build_eq] using buildFrom_sublist r xs []

/-- no kept span was already in the set formed by the spans kept before it -/
theorem build_pairwise (r : Rel) (xs : List Span) :
    (build r xs).Pairwise (fun earlier later => r.holds later earlier = false) := by
  rw [build_eq]
  exact buildFrom_pairwise r xs [] List.Pairwise.nil

/-- every input span is either kept or was in the set built before it; so if the relation relates a span to itself,
every input span is in the result -/
theorem build_covers (r : Rel) (xs : List Span) (x : Span) (hx : x ∈ xs) (hrefl : r.holds x x = true) :
    mem (mk r xs) x = true := by
  show (buildFrom r [] xs).any (fun y => r.holds x y) = true
  exact buildFrom_covers r x hrefl xs [] (Or.inr hx)

theorem build_exact_nodup (xs : List Span) : (build .exact xs).Nodup := by
  refine (build_pairwise .exact xs).imp ?_
  intro a b h hab
  subst hab
  rw [(holds_exact_iff a a).mpr rfl] at h
  exact Bool.noConfusion h

theorem build_exact_mem (xs : List Span) (x : Span) : x ∈ build .exact xs ↔ x ∈ xs := by
  rw [build_eq, buildFrom_exact_mem]
  simp

/-! ### operators: exactly the spans of A and B that satisfy the membership formula, each once -/

theorem combine_spec (φ : Bool → Bool → Bool) (A B : SpanSet) (x : Span) :
    x ∈ (combine φ A B).spans ↔ (x ∈ A.spans ∨ x ∈ B.spans) ∧ φ (mem A x) (mem B x) = true := by
  show x ∈ build .exact _ ↔ _
  rw [build_exact_mem, List.mem_filter, List.mem_append]

theorem combine_nodup (φ : Bool → Bool → Bool) (A B : SpanSet) : (combine φ A B).spans.Nodup :=
  build_exact_nodup _

theorem combine_rel (φ : Bool → Bool → Bool) (A B : SpanSet) : (combine φ A B).rel = .exact := rfl

/-- the result lists the qualifying spans in the order of their first occurrence in `chain(A, B)` -/
theorem combine_sublist (φ : Bool → Bool → Bool) (A B : SpanSet) :
    (combine φ A B).spans.Sublist (A.spans ++ B.spans) :=
  (build_sublist .exact _).trans List.filter_sublist

theorem and_spec (A B : SpanSet) (x : Span) :
    x ∈ (opAnd A B).spans ↔ (x ∈ A.spans ∨ x ∈ B.spans) ∧ (mem A x = true ∧ mem B x = true) := by
  rw [opAnd, combine_spec, Bool.and_eq_true]

theorem or_spec (A B : SpanSet) (x : Span) :
    x ∈ (opOr A B).spans ↔ (x ∈ A.spans ∨ x ∈ B.spans) ∧ (mem A x = true ∨ mem B x = true) := by
  rw [opOr, combine_spec, Bool.or_eq_true]

theorem sub_spec (A B : SpanSet) (x : Span) :
    x ∈ (opSub A B).spans ↔ (x ∈ A.spans ∨ x ∈ B.spans) ∧ (mem A x = true ∧ mem B x = false) := by
  rw [opSub, combine_spec, Bool.and_eq_true, Bool.not_eq_true']

theorem xor_spec (A B : SpanSet) (x : Span) :
    x ∈ (opXor A B).spans ↔ (x ∈ A.spans ∨ x ∈ B.spans) ∧ (mem A x ≠ mem B x) := by
  rw [opXor, combine_spec, bne_iff_ne]

/-! ### comparisons: exactly the quantified membership statements -/

theorem le_iff (A B : SpanSet) : le A B = true ↔ ∀ x ∈ A.spans, mem B x = true := by
  rw [le, List.all_eq_true]

theorem eq_iff (A B : SpanSet) :
    eq A B = true ↔ (∀ x ∈ A.spans, mem B x = true) ∧ (∀ x ∈ B.spans, mem A x = true) := by
  rw [eq, Bool.and_eq_true, le_iff, le_iff]

theorem ne_iff (A B : SpanSet) : ne A B = true ↔ ¬ (eq A B = true) := by
  rw [ne, Bool.not_eq_true', Bool.not_eq_true]

theorem lt_iff (A B : SpanSet) : lt A B = true ↔ (le A B = true ∧ ¬ (eq A B = true)) := by
  rw [lt, Bool.and_eq_true, ne_iff]

theorem ge_iff (A B : SpanSet) : ge A B = true ↔ ∀ x ∈ B.spans, mem A x = true := le_iff B A

theorem gt_iff (A B : SpanSet) : gt A B = true ↔ (le B A = true ∧ ¬ (eq B A = true)) := lt_iff B A

theorem isdisjoint_iff (A : SpanSet) (s : List Span) : isdisjoint A s = true ↔ ∀ x ∈ s, mem A x = false := by
  simp [isdisjoint, List.all_eq_true]

theorem issubset_iff (A B : SpanSet) : issubset A B = true ↔ ∀ x ∈ A.spans, mem B x = true := le_iff A B

theorem issuperset_iff (A B : SpanSet) : issuperset A B = true ↔ ∀ x ∈ B.spans, mem A x = true := ge_iff A B

end WindVerif.SpanSet
