import WindVerif.Proofs.FMapAux2
/-! Preservation of the invariant by the worker steps. -/
namespace WindVerif.FMap

set_option hygiene false in
macro "destruct_main" h:ident : tactic => `(tactic|
  obtain ⟨hcfg, hwids, hheld, hcons, hfin, hmodeP, hmodeF, hwfbuf, hcount, hnonone, hsorted, hexQ, hjoined, hnotst,
    hlen, hdrop, hle, htot, houts, hphase⟩ := $h)

theorem phaseOK_congr {cfg : Cfg} {s s' : St} (h : PhaseOK cfg s) (e1 : s'.ppc = s.ppc) (e2 : s'.dataCnt = s.dataCnt)
    (e3 : s'.finished = s.finished) (e4 : s'.next = s.next) (e5 : s'.callNo = s.callNo) (e6 : s'.total = s.total)
    (e7 : s'.callsLeft = s.callsLeft)
    (e8 : ∀ i, s.ppc = .start i → (∀ w ∈ s.workers, s.base + i ≤ w.wid → w.pc = .notStarted) →
      (∀ w ∈ s'.workers, s'.base + i ≤ w.wid → w.pc = .notStarted)) : PhaseOK cfg s' := by
  unfold PhaseOK at *
  rw [e1]
  cases hp : s.ppc <;> simp only [hp, e2, e3, e4, e5, e6, e7] at h ⊢ <;> try exact h
  exact ⟨h.1, h.2.1, h.2.2.1, h.2.2.2.1, h.2.2.2.2.1, h.2.2.2.2.2.1, e8 _ hp h.2.2.2.2.2.2⟩

/-- permutation goals by counting -/
macro "perm_count" : tactic => `(tactic|
  (simp only [List.perm_iff_count, List.count_append, List.count_cons, List.count_nil]; intro a; omega))

theorem repl_forall {P : Worker → Prop} {l1 l2 : List Worker} {w w' : Worker}
    (h : ∀ x ∈ l1 ++ w :: l2, P x) (hw' : P w') : ∀ x ∈ l1 ++ w' :: l2, P x := by
  intro x hx
  simp only [List.mem_append, List.mem_cons] at hx h
  rcases hx with hx | rfl | hx
  · exact h x (Or.inl hx)
  · exact hw'
  · exact h x (Or.inr (Or.inr hx))

theorem main_w_exit {cfg : Cfg} {s : St} {wid : Nat} {w : Worker} {r : List (Option Nat)}
    (h : Main cfg s) (hg : getWorker s wid = some w) (hpc : w.pc = .get) (hq : s.workQ = none :: r) :
    Main cfg (setWorker { s with workQ := r } { w with pc := .exited }) := by
  obtain ⟨l1, l2, hws, hwid, hset⟩ := workers_decomp (wids_nodup h.wids) hg
  have hst : setWorker { s with workQ := r } { w with pc := .exited } =
      { s with workQ := r, workers := l1 ++ { w with pc := .exited } :: l2 } := by
    have e := hset { w with pc := .exited } hwid
    dsimp only at e
    simp only [setWorker, e]
  rw [hst]
  have hwh : w.held = none := by
    have := (h.held_put w (by simp [hws])); simp [hpc] at this; exact this
  have hsorted := h.sortedQ; rw [hq] at hsorted
  exact {
    cfg_eq := h.cfg_eq
    wids := by have := h.wids; rw [hws] at this; simpa using this
    held_put := repl_forall (hws ▸ h.held_put) (by simp [hwh])
    cons := by have := h.cons; rw [hws, hq] at this; simpa [heldL_cons, hwh] using this
    fin := h.fin
    modeP := h.modeP
    modeF := h.modeF
    wfbuf := h.wfbuf
    count := by
      have := h.count; rw [hws, hq] at this
      simp only [live_append, live_cons, hpc, nonesQ_none_cons] at this ⊢; simp at this ⊢; omega
    nonone := fun h0 => absurd List.mem_cons_self (by have := h.nonone h0; rwa [hq] at this)
    sortedQ := (List.pairwise_cons.1 hsorted).2
    exitedQ := fun _ x hx => (List.pairwise_cons.1 hsorted).1 x hx rfl
    joinedEx := repl_forall (hws ▸ h.joinedEx) (fun _ => rfl)
    notStarted := repl_forall (hws ▸ h.notStarted) (by simp)
    len := by have := h.len; rw [hws] at this; simpa using this
    histDrop := h.histDrop
    histLe := h.histLe
    histTot := h.histTot
    outs := h.outs
    phase := by
      refine phaseOK_congr h.phase rfl rfl rfl rfl rfl rfl rfl ?_
      intro i _ hh
      exact repl_forall (hws ▸ hh) (fun hle => by
        have := hh w (by simp [hws]) hle; rw [hpc] at this; cases this) }

theorem main_w_take {cfg : Cfg} {s : St} {wid : Nat} {w : Worker} {r : List (Option Nat)} {c : Nat}
    (h : Main cfg s) (hg : getWorker s wid = some w) (hpc : w.pc = .get) (hq : s.workQ = some c :: r) :
    Main cfg (setWorker { s with workQ := r } { w with pc := .put, held := some c }) := by
  obtain ⟨l1, l2, hws, hwid, hset⟩ := workers_decomp (wids_nodup h.wids) hg
  have hst : setWorker { s with workQ := r } { w with pc := .put, held := some c } =
      { s with workQ := r, workers := l1 ++ { w with pc := .put, held := some c } :: l2 } := by
    have e := hset { w with pc := .put, held := some c } hwid
    dsimp only at e
    simp only [setWorker, e]
  rw [hst]
  have hwh : w.held = none := by
    have := (h.held_put w (by simp [hws])); simp [hpc] at this; exact this
  have hsorted := h.sortedQ; rw [hq] at hsorted
  have hlive : live (l1 ++ { w with pc := .put, held := some c } :: l2) = live s.workers := by
    rw [hws]; simp [live_cons, hpc]
  exact {
    cfg_eq := h.cfg_eq
    wids := by have := h.wids; rw [hws] at this; simpa using this
    held_put := repl_forall (hws ▸ h.held_put) (by simp)
    cons := by
      have := h.cons; rw [hws, hq] at this
      simp only [heldL_append, heldL_cons, hwh, chunksQ_some_cons] at this ⊢
      refine List.Perm.trans ?_ this
      perm_count
    fin := h.fin
    modeP := h.modeP
    modeF := h.modeF
    wfbuf := h.wfbuf
    count := by
      have := h.count; rw [hq] at this
      simp only [hlive]; simpa using this
    nonone := fun h0 hm => by have := h.nonone h0; rw [hq] at this; exact this (List.mem_cons_of_mem _ hm)
    sortedQ := (List.pairwise_cons.1 hsorted).2
    exitedQ := fun hl => by
      simp only [hlive] at hl
      have := h.exitedQ hl (some c) (by rw [hq]; exact List.mem_cons_self)
      cases this
    joinedEx := repl_forall (hws ▸ h.joinedEx) (fun hlt => by
      have := h.joinedEx w (by simp [hws]) hlt; rw [hpc] at this; cases this)
    notStarted := repl_forall (hws ▸ h.notStarted) (by simp)
    len := by have := h.len; rw [hws] at this; simpa using this
    histDrop := h.histDrop
    histLe := h.histLe
    histTot := h.histTot
    outs := h.outs
    phase := by
      refine phaseOK_congr h.phase rfl rfl rfl rfl rfl rfl rfl ?_
      intro i _ hh
      exact repl_forall (hws ▸ hh) (fun hle => by
        have := hh w (by simp [hws]) hle; rw [hpc] at this; cases this) }

theorem main_w_put {cfg : Cfg} {s : St} {wid : Nat} {w : Worker} {c : Nat}
    (h : Main cfg s) (hg : getWorker s wid = some w) (hpc : w.pc = .put) (hwh : w.held = some c) :
    Main cfg (setWorker { s with resQ := s.resQ ++ [c] } { w with pc := .get, held := none }) := by
  obtain ⟨l1, l2, hws, hwid, hset⟩ := workers_decomp (wids_nodup h.wids) hg
  have hst : setWorker { s with resQ := s.resQ ++ [c] } { w with pc := .get, held := none } =
      { s with resQ := s.resQ ++ [c], workers := l1 ++ { w with pc := .get, held := none } :: l2 } := by
    have e := hset { w with pc := .get, held := none } hwid
    dsimp only at e
    simp only [setWorker, e]
  rw [hst]
  have hlive : live (l1 ++ { w with pc := .get, held := none } :: l2) = live s.workers := by
    rw [hws]; simp [live_cons, hpc]
  exact {
    cfg_eq := h.cfg_eq
    wids := by have := h.wids; rw [hws] at this; simpa using this
    held_put := repl_forall (hws ▸ h.held_put) (by simp)
    cons := by
      have := h.cons; rw [hws] at this
      simp only [heldL_append, heldL_cons, hwh] at this ⊢
      refine List.Perm.trans ?_ this
      perm_count
    fin := h.fin
    modeP := h.modeP
    modeF := h.modeF
    wfbuf := h.wfbuf
    count := by simp only [hlive]; exact h.count
    nonone := h.nonone
    sortedQ := h.sortedQ
    exitedQ := fun hl => by simp only [hlive] at hl; exact h.exitedQ hl
    joinedEx := repl_forall (hws ▸ h.joinedEx) (fun hlt => by
      have := h.joinedEx w (by simp [hws]) hlt; rw [hpc] at this; cases this)
    notStarted := repl_forall (hws ▸ h.notStarted) (by simp)
    len := by have := h.len; rw [hws] at this; simpa using this
    histDrop := h.histDrop
    histLe := h.histLe
    histTot := h.histTot
    outs := h.outs
    phase := by
      refine phaseOK_congr h.phase rfl rfl rfl rfl rfl rfl rfl ?_
      intro i _ hh
      exact repl_forall (hws ▸ hh) (fun hle => by
        have := hh w (by simp [hws]) hle; rw [hpc] at this; cases this) }

/-- the worker steps preserve the invariant -/
theorem inv_stepW {cfg : Cfg} {s s' : St} {wid : Nat} (h : Inv cfg s) (hs : stepW s wid = some s') : Inv cfg s' := by
  unfold stepW at hs
  cases hg : getWorker s wid with
  | none => simp [hg] at hs
  | some w =>
    simp only [hg] at hs
    cases hpc : w.pc <;> simp only [hpc] at hs
    · cases hs
    · cases hq : s.workQ with
      | nil => simp [hq] at hs
      | cons a r =>
        cases a with
        | none =>
          simp only [hq, Option.some.injEq] at hs; subst hs
          exact ⟨main_w_exit h.toMain hg hpc hq, h.strict⟩
        | some c =>
          simp only [hq, Option.some.injEq] at hs; subst hs
          exact ⟨main_w_take h.toMain hg hpc hq, h.strict⟩
    · cases hwh : w.held with
      | none => simp [hwh] at hs
      | some c =>
        simp only [hwh, Option.some.injEq] at hs; subst hs
        exact ⟨main_w_put h.toMain hg hpc hwh, h.strict⟩
    · cases hs

end WindVerif.FMap
