import WindVerif.Proofs.FMapAux1
/-! Basic lemmas: worker table, queues, the reorder buffer, sorting. -/
namespace WindVerif.FMap

/-! ### queues -/
@[simp] theorem chunksQ_nil : chunksQ [] = [] := rfl
@[simp] theorem chunksQ_none_cons (r) : chunksQ (none :: r) = chunksQ r := by simp [chunksQ]
@[simp] theorem chunksQ_some_cons (c r) : chunksQ (some c :: r) = c :: chunksQ r := by simp [chunksQ]
@[simp] theorem chunksQ_append (a b) : chunksQ (a ++ b) = chunksQ a ++ chunksQ b := by simp [chunksQ]
@[simp] theorem nonesQ_nil : nonesQ [] = 0 := rfl
@[simp] theorem nonesQ_none_cons (r) : nonesQ (none :: r) = nonesQ r + 1 := by simp [nonesQ]
@[simp] theorem nonesQ_some_cons (c r) : nonesQ (some c :: r) = nonesQ r := by simp [nonesQ]
@[simp] theorem nonesQ_append (a b) : nonesQ (a ++ b) = nonesQ a + nonesQ b := by simp [nonesQ]

theorem queue_nil_of (q : List (Option Nat)) (h1 : chunksQ q = []) (h2 : nonesQ q = 0) : q = [] := by
  cases q with
  | nil => rfl
  | cons a r => cases a <;> simp_all

theorem chunksQ_nil_of_all_none (q : List (Option Nat)) (h : ∀ x ∈ q, x = none) : chunksQ q = [] := by
  induction q with
  | nil => rfl
  | cons a r ih => cases a <;> simp_all

theorem mem_chunksQ {q : List (Option Nat)} {c : Nat} : c ∈ chunksQ q ↔ some c ∈ q := by
  simp [chunksQ]

theorem nonesQ_pos_of_mem {q : List (Option Nat)} (h : none ∈ q) : 0 < nonesQ q := by
  simp only [nonesQ, List.countP_pos_iff]
  exact ⟨none, h, rfl⟩

theorem nonesQ_eq_zero {q : List (Option Nat)} (h : none ∉ q) : nonesQ q = 0 := by
  cases hq : nonesQ q with
  | zero => rfl
  | succ n =>
    exfalso
    have : 0 < nonesQ q := by omega
    simp only [nonesQ, List.countP_pos_iff] at this
    obtain ⟨a, ha, hn⟩ := this
    cases a <;> simp_all

/-! ### the worker table -/
@[simp] theorem heldL_nil : heldL [] = [] := rfl
@[simp] theorem heldL_append (a b) : heldL (a ++ b) = heldL a ++ heldL b := by simp [heldL]
theorem heldL_cons (w ws) : heldL (w :: ws) = (match w.held with | some c => [c] | none => []) ++ heldL ws := by
  cases h : w.held <;> simp [heldL, h]
@[simp] theorem live_nil : live [] = 0 := rfl
@[simp] theorem live_append (a b) : live (a ++ b) = live a + live b := by simp [live]
theorem live_cons (w ws) : live (w :: ws) = (if w.pc = .exited then 0 else 1) + live ws := by
  by_cases h : w.pc = .exited <;> simp [live, h] <;> omega

theorem heldL_nil_iff {ws : List Worker} : heldL ws = [] ↔ ∀ w ∈ ws, w.held = none := by
  simp [heldL, List.filterMap_eq_nil_iff]

theorem live_zero_iff {ws : List Worker} : live ws = 0 ↔ ∀ w ∈ ws, w.pc = .exited := by
  simp [live, List.countP_eq_zero]

theorem live_pos_iff {ws : List Worker} : 0 < live ws ↔ ∃ w ∈ ws, w.pc ≠ .exited := by
  simp [live, List.countP_pos_iff]

theorem live_eq_length {ws : List Worker} (h : ∀ w ∈ ws, w.pc ≠ .exited) : live ws = ws.length := by
  simp only [live, List.countP_eq_length]
  intro w hw; simpa using h w hw

theorem wids_nodup {ws : List Worker} (h : ws.map (·.wid) = List.range ws.length) : (ws.map (·.wid)).Nodup := by
  rw [h]; exact List.nodup_range

theorem wid_lt_of_mem {ws : List Worker} (h : ws.map (·.wid) = List.range ws.length) {w : Worker} (hw : w ∈ ws) :
    w.wid < ws.length := by
  have : w.wid ∈ ws.map (·.wid) := List.mem_map_of_mem hw
  rw [h] at this; simpa using this

theorem find_wid_isSome {ws : List Worker} (h : ws.map (·.wid) = List.range ws.length) {i : Nat} (hi : i < ws.length) :
    ∃ w, ws.find? (fun x => decide (x.wid = i)) = some w := by
  have : i ∈ ws.map (·.wid) := by rw [h]; simpa using hi
  obtain ⟨w, hw, rfl⟩ := List.mem_map.1 this
  cases hf : ws.find? (fun x => decide (x.wid = w.wid)) with
  | some w' => exact ⟨w', rfl⟩
  | none =>
    rw [List.find?_eq_none] at hf
    have := hf w hw
    simp at this

/-- decomposition of the worker table around the worker found by `getWorker` -/
theorem workers_decomp {ws : List Worker} (hnd : (ws.map (·.wid)).Nodup) {i : Nat} {w : Worker}
    (hg : ws.find? (fun x => decide (x.wid = i)) = some w) :
    ∃ l1 l2, ws = l1 ++ w :: l2 ∧ w.wid = i ∧
      ∀ w' : Worker, w'.wid = i → ws.map (fun x => if x.wid = w'.wid then w' else x) = l1 ++ w' :: l2 := by
  rw [List.find?_eq_some_iff_append] at hg
  obtain ⟨hwi, l1, l2, rfl, hl1⟩ := hg
  have hwi : w.wid = i := by simpa using hwi
  refine ⟨l1, l2, rfl, hwi, ?_⟩
  intro w' hw'
  simp only [List.map_append, List.map_cons, hw', hwi, if_true]
  have h1 : l1.map (fun x => if x.wid = i then w' else x) = l1 := by
    conv => rhs; rw [← List.map_id l1]
    apply List.map_congr_left
    intro a ha
    have := hl1 a ha
    simp at this
    simp [this]
  have h2 : l2.map (fun x => if x.wid = i then w' else x) = l2 := by
    conv => rhs; rw [← List.map_id l2]
    apply List.map_congr_left
    intro a ha
    have hne : a.wid ≠ i := by
      intro heq
      simp only [List.map_append, List.map_cons, List.nodup_append, List.nodup_cons, List.mem_map] at hnd
      exact hnd.2.1.1 ⟨a, ha, by omega⟩
    simp [hne]
  rw [h1, h2]

theorem find_wid_of_mem {ws : List Worker} (hnd : (ws.map (·.wid)).Nodup) {w : Worker} (hw : w ∈ ws) :
    ws.find? (fun x => decide (x.wid = w.wid)) = some w := by
  induction ws with
  | nil => simp at hw
  | cons a r ih =>
    simp only [List.map_cons, List.nodup_cons, List.mem_map, not_exists, not_and] at hnd
    rcases List.mem_cons.1 hw with rfl | hr
    · simp
    · have hne : a.wid ≠ w.wid := fun h => hnd.1 w hr h.symm
      simp [hne, ih hnd.2 hr]

/-! ### mkWorkers -/
theorem mkWorkers_wids (b n : Nat) : (mkWorkers b n).map (·.wid) = (List.range n).map (b + ·) := by
  simp [mkWorkers, Function.comp_def]
@[simp] theorem mkWorkers_length (b n : Nat) : (mkWorkers b n).length = n := by simp [mkWorkers]
theorem mem_mkWorkers {b n : Nat} {w : Worker} (h : w ∈ mkWorkers b n) :
    w.pc = .notStarted ∧ w.held = none ∧ b ≤ w.wid ∧ w.wid < b + n := by
  simp only [mkWorkers, List.mem_map, List.mem_range] at h
  obtain ⟨i, hi, rfl⟩ := h
  simp; omega
@[simp] theorem heldL_mkWorkers (b n : Nat) : heldL (mkWorkers b n) = [] :=
  heldL_nil_iff.2 fun _ hw => (mem_mkWorkers hw).2.1
@[simp] theorem live_mkWorkers (b n : Nat) : live (mkWorkers b n) = n := by
  rw [live_eq_length]; simp
  intro w hw; rw [(mem_mkWorkers hw).1]; decide
theorem wOmega_mkWorkers (b n : Nat) : ((mkWorkers b n).map wOmega).sum = n := by
  simp only [mkWorkers, List.map_map]
  induction n with
  | zero => rfl
  | succ k ih => simp_all [List.range_succ, Function.comp_def, wOmega]

/-! ### outK -/
@[simp] theorem outK_nil (k) : outK [] k = [] := rfl
theorem outK_append_tag (out : List (Nat × Nat)) (c : Nat) (em : List Nat) (k : Nat) :
    outK (out ++ em.map (fun j => (c, j))) k = outK out k ++ (if k = c then em else []) := by
  simp only [outK, List.filter_append, List.map_append, List.append_cancel_left_eq]
  by_cases h : k = c
  · subst h; simp [List.filter_map, Function.comp_def]
  · have h' : ¬ c = k := fun e => h e.symm
    simp [List.filter_map, Function.comp_def, h, h']

/-! ### the reorder buffer -/
theorem drainBuffer_spec (fuel : Nat) (buf : List Nat) (wf : Nat) (acc : List Nat) :
    ∃ k, (drainBuffer fuel buf wf acc).2.1 = wf + k ∧
      (drainBuffer fuel buf wf acc).2.2 = acc ++ List.range' wf k ∧
      buf.Perm ((drainBuffer fuel buf wf acc).1 ++ List.range' wf k) ∧
      (buf.length < fuel → (drainBuffer fuel buf wf acc).2.1 ∉ (drainBuffer fuel buf wf acc).1) := by
  induction fuel generalizing buf wf acc with
  | zero => exact ⟨0, by simp [drainBuffer]⟩
  | succ f ih =>
    by_cases hc : buf.contains wf = true
    · obtain ⟨k, h1, h2, h3, h4⟩ := ih (buf.erase wf) (wf + 1) (acc ++ [wf])
      have hm : wf ∈ buf := by simpa using hc
      refine ⟨k + 1, ?_, ?_, ?_, ?_⟩
      · simp only [drainBuffer, hc, if_true, h1]; omega
      · simp only [drainBuffer, hc, if_true, h2]
        simp [List.range'_succ]
      · simp only [drainBuffer, hc, if_true]
        refine (List.perm_cons_erase hm).trans ?_
        refine (List.Perm.cons wf h3).trans ?_
        simp only [List.range'_succ]
        exact List.perm_middle.symm
      · intro hl
        simp only [drainBuffer, hc, if_true]
        apply h4
        rw [List.length_erase_of_mem hm]
        have : 0 < buf.length := List.length_pos_of_mem hm
        omega
    · refine ⟨0, ?_, ?_, ?_, ?_⟩ <;> simp only [drainBuffer, hc]
      · simp
      · simp
      · simp
      · intro _; simpa using hc

/-! ### sorting -/
theorem mergeSort_eq_range {l : List Nat} {n : Nat} (h : l.Perm (List.range n)) :
    l.mergeSort (fun a b => decide (a ≤ b)) = List.range n := by
  apply List.Perm.eq_of_pairwise (le := fun a b => a ≤ b)
  · intro a b _ _ h1 h2; omega
  · have := List.pairwise_mergeSort (le := fun a b : Nat => decide (a ≤ b))
      (by intro a b c; simp; omega) (by intro a b; simp; omega) l
    simpa using this
  · exact List.pairwise_le_range
  · exact (List.mergeSort_perm l _).trans h

theorem range_add_range' (a k : Nat) : List.range (a + k) = List.range a ++ List.range' a k := by
  rw [List.range_add, List.range'_eq_map_range]

end WindVerif.FMap
