import WindVerif.Proofs.PoolLiveAux9
/-! Termination of the pool model (C02): the measure.

Every step of every thread strictly decreases `meas`, a weighted count of the work still to be done:
* a call not yet started weighs `38·chunks + 23` (20 per item the consumer will have to take from the result queue —
  its chunks and the wake-up token —, 13 per chunk for the worker that will process it and the replacement this may
  trigger, `5·chunks + 3` for the feeder), plus 40 for the consumer's steps around the call;
* a chunk on the work queue weighs 33, a chunk in a worker's hands or an item on the result queue 20;
* the feeder, the replace thread, every worker and the consumer weigh the number of steps to the end of their current
  round (`fOff`, `rOff`, `wOff`, `pos`); a retired worker's id waiting for the replace thread weighs 8 (three steps of
  the replace thread, five of the successor); a worker that has still `end()` to run (`.ending`) weighs 1, hence a worker
  waiting for work (`.get`: a stop order takes it to `.ending`) weighs 2;
* every call in which nothing has been emitted yet carries `procs.length + 1` for the mid-call `until_all_ready()`
  (`midB`; one wait per slot of `procs` and the step back into the result loop). -/
namespace WindVerif.Pool

def someCount (q : List (Option Nat)) : Nat := (q.filter Option.isSome).length

theorem someCount_nil : someCount [] = 0 := rfl
theorem someCount_cons_none (q : List (Option Nat)) : someCount (none :: q) = someCount q := by simp [someCount]
theorem someCount_cons_some (q : List (Option Nat)) (k : Nat) : someCount (some k :: q) = someCount q + 1 := by
  simp [someCount]
theorem someCount_append_none (q : List (Option Nat)) : someCount (q ++ [none]) = someCount q := by
  simp [someCount, List.filter_append]
theorem someCount_append_some (q : List (Option Nat)) (k : Nat) : someCount (q ++ [some k]) = someCount q + 1 := by
  simp [someCount, List.filter_append]

/-- steps a worker has before it (a chunk in its hands: deliver it, possibly retire and be replaced) -/
def wOff : WPc → Nat
  | .notStarted => 5
  | .bfClear => 4
  | .bfSet => 3
  | .get => 2
  | .lockAcq => 14
  | .putNowait => 13
  | .lockRel => 12
  | .putBlock => 11
  | .retire => 10
  | .ending => 1
  | .exited => 0

def wWeight (w : Worker) : Nat := wOff w.pc + (if w.held.isSome then 20 else 0)

def mW (s : St) : Nat := (s.workers.map wWeight).sum

def rOff : RPc → Nat
  | .idle => 0
  | .get => 0
  | .join _ => 7
  | .start _ => 1

def mR (s : St) : Nat := 8 * someCount s.replQ + noneCount s.replQ + rOff s.rpc

def mQ (s : St) : Nat := 20 * s.resQ.length + 33 * someCount s.workQ

def fOff : FPc → Nat
  | .idle => 0
  | .put => 7
  | .rdCnt => 6
  | .wrCnt => 5
  | .stopIsSet => 4
  | .runWait => 3
  | .wrSending => 2
  | .token => 1

/-- chunks the feeder has still to put -/
def unsentF (s : St) : Nat :=
  match s.fpc with
  | .put => s.fTotal - s.fNext
  | .rdCnt | .wrCnt | .stopIsSet | .runWait => s.fTotal - (s.fNext + 1)
  | _ => 0

def tokPend (s : St) : Nat := if s.fpc = .idle then 0 else 1

def fA (s : St) : Nat := if s.fAlive then 5 * (s.fTotal - s.fNext - 1) + fOff s.fpc else 0

def mF (s : St) : Nat := 33 * unsentF s + 20 * tokPend s + fA s

/-- the call whose feeder has not been started yet -/
def pendCall (s : St) : Option Nat := if preStart s then s.cur.map (·.chunks) else none

def callW (k : Nat) : Nat := 38 * k + 23

def futW (s : St) : Nat :=
  (match pendCall s with | some k => callW k | none => 0) + (s.callsLeft.map (fun c => callW c.chunks)).sum

/-- the consumer's position: steps to the end of the round / phase (`fresh`: nothing drained yet in this `_get_results`) -/
def pos (c : CPc) (fresh : Bool) (n : Nat) : Nat :=
  match c with
  | .enterStart i => 2 * n + 2 + 45 + (2 * n - i)
  | .readyWait i => 2 * n + 2 + 42 + (n - i)
  | .nextCall => 2 * n + 2 + 41
  | .rInitSet => 2 * n + 2 + 39
  | .rStart => 2 * n + 2 + 38
  | .fInitSet => 2 * n + 2 + 37
  | .wrSending => 2 * n + 2 + 36
  | .wrDataCnt => 2 * n + 2 + 35
  | .fStart => 2 * n + 2 + 34
  | .qsize2 => 2 * n + 2 + (if fresh then 21 else 30)
  | .getNowait => 2 * n + 2 + (if fresh then 20 else 29)
  | .lockRel => 2 * n + 2 + (if fresh then 19 else 28)
  | .flowClear => 2 * n + 2 + 27
  | .flowIsSet => 2 * n + 2 + 27
  | .flowSet => 2 * n + 2 + 26
  | .rdSending => 2 * n + 2 + 25
  | .rdDataCnt => 2 * n + 2 + 24
  | .qsize1 => 2 * n + 2 + 23
  | .lockAcq => 2 * n + 2 + 22
  | .getBlock => 2 * n + 2 + 18
  | .fStopSet => 2 * n + 2 + 17
  | .fJoin => 2 * n + 2 + 16
  | .rPutNone => 2 * n + 2 + 15
  | .rStopSet => 2 * n + 2 + 13
  | .rJoin => 2 * n + 2 + 12
  | .exitPut i => (n - i) + n + 1
  | .exitJoin i => n - i
  | .midReady i _ => 2 * n + 2 + 28 + (n - i)
  | .done => 0

def fresh (s : St) : Bool := s.batch.isEmpty && !s.woken

/-- room for the mid-call `until_all_ready()`: at most one per call (it follows the first emission: `finished` leaves 0),
`procs.length` waits and the step back into the loop -/
def midB (s : St) : Nat :=
  (s.procs.length + 1) * (s.callsLeft.length + (if s.cur.isSome ∧ s.finished = 0 then 1 else 0))

def mC (s : St) : Nat := futW s + 40 * s.callsLeft.length + pos s.cpc (fresh s) s.procs.length + midB s

def meas (s : St) : Nat := mC s + mF s + mW s + mR s + mQ s

/-! ### sums over the worker list -/

theorem sum_upd {l : List Worker} (f : Worker → Nat) (hnd : (l.map (·.wid)).Nodup) {w w' : Worker} (hw : w ∈ l) :
    ((upd w.wid w' l).map f).sum + f w = (l.map f).sum + f w' := by
  induction l with
  | nil => cases hw
  | cons x r ih =>
    simp only [List.map_cons, List.nodup_cons, List.mem_map, not_exists, not_and] at hnd
    have hupd : upd w.wid w' (x :: r) = (if x.wid = w.wid then w' else x) :: upd w.wid w' r := rfl
    rcases List.mem_cons.1 hw with rfl | hw'
    · have htail : upd w.wid w' r = r := by
        unfold upd
        conv => rhs; rw [← List.map_id r]
        apply List.map_congr_left
        intro y hy
        have : y.wid ≠ w.wid := fun e => hnd.1 y hy e
        simp [this]
      rw [hupd, htail]
      simp only [if_true, List.map_cons, List.sum_cons]
      omega
    · have hne : x.wid ≠ w.wid := fun e => hnd.1 w hw' e.symm
      rw [hupd, if_neg hne]
      simp only [List.map_cons, List.sum_cons]
      have := ih hnd.2 hw'
      omega

theorem mW_upd {s s' : St} {w w' : Worker} (hL : LInv s) (hw : w ∈ s.workers) (h : s'.workers = upd w.wid w' s.workers) :
    mW s' + wWeight w = mW s + wWeight w' := by
  unfold mW; rw [h]; exact sum_upd wWeight hL.nodup hw

end WindVerif.Pool
