import WindVerif.Proofs.FMapAux3
/-! Preservation of the invariant: receiving a result, the start of a call, the final drain. -/
namespace WindVerif.FMap

theorem main_quiet {cfg : Cfg} {s : St} (h : Main cfg s) (hf : s.finished = s.dataCnt) :
    chunksQ s.workQ = [] ∧ heldL s.workers = [] ∧ s.resQ = [] ∧ s.buffer = [] ∧
      (s.got ++ List.range s.wf).Perm (List.range s.dataCnt) := by
  have hl := h.cons.length_eq
  have hfin := h.fin
  simp only [List.length_append, List.length_range] at hl
  have h1 : (chunksQ s.workQ).length = 0 := by omega
  have h2 : (heldL s.workers).length = 0 := by omega
  have h3 : s.resQ.length = 0 := by omega
  have h4 : s.buffer.length = 0 := by omega
  rw [List.length_eq_zero_iff] at h1 h2 h3 h4
  refine ⟨h1, h2, h3, h4, ?_⟩
  have := h.cons
  rw [h1, h2, h3, h4] at this
  simpa using this

theorem finished_le {cfg : Cfg} {s : St} (h : Main cfg s) : s.finished ≤ s.dataCnt := by
  have hl := h.cons.length_eq
  have hfin := h.fin
  simp only [List.length_append, List.length_range] at hl
  omega

theorem expOut_cur_succ (cfg : Cfg) (callNo c k' : Nat) (hc : 1 ≤ callNo) (k : Nat) :
    expOut cfg callNo (c + k') k = expOut cfg callNo c k ++ (if k = callNo then List.range' c k' else []) := by
  unfold expOut
  by_cases h0 : k = 0
  · have : k ≠ callNo := by omega
    simp [h0]; omega
  · by_cases h1 : k < callNo
    · have : k ≠ callNo := by omega
      simp [h0, h1, this]
    · by_cases h2 : k = callNo
      · subst h2; simp [h0, range_add_range']
      · simp [h0, h1, h2]

@[simp] theorem receive_ppc (s : St) (i : Nat) : (receive s i).ppc = s.ppc := by unfold receive; split <;> rfl
@[simp] theorem receive_dataCnt (s : St) (i : Nat) : (receive s i).dataCnt = s.dataCnt := by unfold receive; split <;> rfl
@[simp] theorem receive_cfg (s : St) (i : Nat) : (receive s i).cfg = s.cfg := by unfold receive; split <;> rfl
@[simp] theorem receive_callsLeft (s : St) (i : Nat) : (receive s i).callsLeft = s.callsLeft := by
  unfold receive; split <;> rfl
@[simp] theorem receive_workQ (s : St) (i : Nat) : (receive s i).workQ = s.workQ := by unfold receive; split <;> rfl
@[simp] theorem receive_resQ (s : St) (i : Nat) : (receive s i).resQ = s.resQ := by unfold receive; split <;> rfl
@[simp] theorem receive_workers (s : St) (i : Nat) : (receive s i).workers = s.workers := by unfold receive; split <;> rfl
@[simp] theorem receive_total (s : St) (i : Nat) : (receive s i).total = s.total := by unfold receive; split <;> rfl
@[simp] theorem receive_next (s : St) (i : Nat) : (receive s i).next = s.next := by unfold receive; split <;> rfl

/-- P receives a result (non-blocking loop or final drain) -/
theorem main_receive {cfg : Cfg} {s : St} {i : Nat} {r : List Nat} (h : Main cfg s) (hq : s.resQ = i :: r)
    (hp : s.ppc = .nowait ∨ s.ppc = .finalGet) :
    Main cfg (receive { s with resQ := r } i) := by
  have hc1 : 1 ≤ s.callNo := by
    have := h.phase; unfold PhaseOK at this
    rcases hp with hp | hp <;> simp only [hp] at this <;> omega
  unfold receive
  cases hm : cfg.mulP
  · -- FunctorMap
    have hm' : s.cfg.mulP = false := by rw [h.cfg_eq]; exact hm
    simp only [hm', Bool.false_eq_true, if_false]
    obtain ⟨k, e1, e2, e3, e4⟩ := drainBuffer_spec (s.buffer.length + 2) (i :: s.buffer) s.wf []
    generalize drainBuffer (s.buffer.length + 2) (i :: s.buffer) s.wf [] = res at e1 e2 e3 e4
    obtain ⟨buf, wf', em⟩ := res
    simp only at e1 e2 e3 e4
    simp only [List.nil_append] at e2
    subst e1 e2
    dsimp only
    exact {
      cfg_eq := h.cfg_eq
      wids := h.wids
      held_put := h.held_put
      cons := by
        have := h.cons; rw [hq] at this
        simp only [range_add_range']
        refine List.Perm.trans ?_ this
        have e3' := e3
        simp only [List.perm_iff_count, List.count_append, List.count_cons] at e3' ⊢
        intro a; have := e3' a; omega
      fin := by have := h.fin; simp only [List.length_range']; omega
      modeP := by simp [hm]
      modeF := h.modeF
      wfbuf := e4 (by simp)
      count := h.count
      nonone := h.nonone
      sortedQ := h.sortedQ
      exitedQ := h.exitedQ
      joinedEx := h.joinedEx
      notStarted := h.notStarted
      len := h.len
      histDrop := h.histDrop
      histLe := h.histLe
      histTot := h.histTot
      outs := by
        intro k'
        simp only [outK_append_tag, h.outs k', cur, hm, Bool.false_eq_true, if_false]
        rw [expOut_cur_succ _ _ _ _ hc1]
      phase := by
        have := h.phase; unfold PhaseOK at this ⊢
        rcases hp with hp | hp <;> simp only [hp] at this ⊢ <;> exact this }
  · -- mul_p_map
    have hm' : s.cfg.mulP = true := by rw [h.cfg_eq]; exact hm
    simp only [hm', if_true]
    exact {
      cfg_eq := h.cfg_eq
      wids := h.wids
      held_put := h.held_put
      cons := by
        have := h.cons; rw [hq] at this
        refine List.Perm.trans ?_ this
        perm_count
      fin := by have := h.fin; simp only [List.length_append, List.length_singleton]; omega
      modeP := h.modeP
      modeF := by simp [hm]
      wfbuf := h.wfbuf
      count := h.count
      nonone := h.nonone
      sortedQ := h.sortedQ
      exitedQ := h.exitedQ
      joinedEx := h.joinedEx
      notStarted := h.notStarted
      len := h.len
      histDrop := h.histDrop
      histLe := h.histLe
      histTot := h.histTot
      outs := h.outs
      phase := by
        have := h.phase; unfold PhaseOK at this ⊢
        rcases hp with hp | hp <;> simp only [hp] at this ⊢ <;> exact this }

theorem drop_cons_facts {l : List Nat} {k a : Nat} {r : List Nat} (h : l.drop k = a :: r) :
    l.drop (k + 1) = r ∧ k < l.length ∧ l[k]? = some a := by
  have hlt : k < l.length := by
    rcases Nat.lt_or_ge k l.length with h' | h'
    · exact h'
    · rw [List.drop_eq_nil_of_le h'] at h; cases h
  refine ⟨?_, hlt, ?_⟩
  · rw [← List.drop_drop, h]; rfl
  · have := List.getElem?_drop (xs := l) (i := k) (j := 0)
    rw [h] at this; simpa using this.symm

theorem expOut_complete (cfg : Cfg) (callNo total : Nat) (ht : 1 ≤ callNo → cfg.calls[callNo - 1]? = some total) (k : Nat) :
    expOut cfg (callNo + 1) 0 k = expOut cfg callNo total k := by
  unfold expOut
  by_cases h0 : k = 0
  · simp [h0]
  · by_cases h1 : k < callNo
    · have : k < callNo + 1 := by omega
      simp [h0, h1, this]
    · by_cases h2 : k = callNo
      · subst h2; simp [h0, ht (by omega)]
      · by_cases h3 : k = callNo + 1
        · simp [h3]; omega
        · have : ¬ k < callNo + 1 := by omega
          simp [h0, h1, h2, h3, this]

theorem expOut_skip (cfg : Cfg) (callNo : Nat) (ht : cfg.calls[callNo]? = some 0) (k : Nat) :
    expOut cfg (callNo + 1 + 1) 0 k = expOut cfg (callNo + 1) 0 k := by
  have := expOut_complete cfg (callNo + 1) 0 (by intro _; simpa using ht) k
  rw [this]

/-- the start of a call (or the end of the program) re-establishes the invariant -/
theorem inv_startCallGo {cfg : Cfg} (hw : 1 ≤ cfg.nWorkers) (l : List Nat) :
    ∀ s : St, Bnd cfg s l → Inv cfg (startCallGo s l) := by
  induction l with
  | nil =>
    intro s b
    have hheldL : heldL s.workers = [] := heldL_nil_iff.2 fun w hw' => (b.held w hw').1
    cases hm : cfg.mulP
    · -- FunctorMap: leave the context
      have hm' : s.cfg.mulP = false := by rw [b.cfg_eq]; exact hm
      have hn' : ¬ s.cfg.nWorkers = 0 := by rw [b.cfg_eq]; omega
      simp only [startCallGo, hm', hn', Bool.false_eq_true, or_self, if_false]
      obtain ⟨hgot, hlive, hne⟩ := b.modeF hm
      have hwf : s.wf = s.total := by have := b.fin; have := b.cc; rw [hgot] at *; simp at *; omega
      refine ⟨?_, by simp⟩
      exact {
        cfg_eq := b.cfg_eq
        wids := b.wids
        held_put := fun w hw' => by have := b.held w hw'; simp [this]
        cons := by simpa [b.workQ, b.resQ, b.buffer, hheldL] using b.gotp
        fin := b.fin
        modeP := by simp [hm]
        modeF := fun _ => hgot
        wfbuf := by simp [b.buffer]
        count := by simp [b.workQ, hlive, posted]
        nonone := by simp [b.workQ]
        sortedQ := by simp [b.workQ]
        exitedQ := by simp [b.workQ]
        joinedEx := by simpa [joined] using b.old
        notStarted := fun w hw' hp => absurd hp (b.held w hw').2.2
        len := by rcases b.len with h | h; exact Or.inl h; exact absurd h hne
        histDrop := b.histDrop
        histLe := b.histLe
        histTot := b.histTot
        outs := fun k => by
          rw [b.outs k, expOut_complete _ _ _ b.histTot]; simp [cur, hm, hwf]
        phase := by
          show PhaseOK cfg _
          unfold PhaseOK; simp only
          exact ⟨by omega, b.cc.2, by simp [hm], fun _ => ⟨b.cc.1, trivial⟩⟩ }
    · -- mul_p_map: over
      have hm' : s.cfg.mulP = true := by rw [b.cfg_eq]; exact hm
      simp only [startCallGo, hm', true_or, if_true]
      obtain ⟨hwf, hex⟩ := b.modeP hm
      refine ⟨?_, by simp⟩
      exact {
        cfg_eq := b.cfg_eq
        wids := b.wids
        held_put := fun w hw' => by have := b.held w hw'; simp [this]
        cons := by simpa [b.workQ, b.resQ, b.buffer, hheldL] using b.gotp
        fin := b.fin
        modeP := fun _ => ⟨b.buffer, hwf⟩
        modeF := by simp [hm]
        wfbuf := by simp [b.buffer]
        count := by simp [b.workQ, live_zero_iff.2 hex, posted]
        nonone := by simp [b.workQ]
        sortedQ := by simp [b.workQ]
        exitedQ := by simp [b.workQ]
        joinedEx := fun w hw' _ => hex w hw'
        notStarted := fun w hw' hp => absurd hp (b.held w hw').2.2
        len := by rcases b.len with h | h; exact Or.inl h; exact Or.inr ⟨h, rfl⟩
        histDrop := b.histDrop
        histLe := b.histLe
        histTot := b.histTot
        outs := fun k => by
          rw [b.outs k, expOut_complete _ _ _ b.histTot]; simp [cur, hm]
        phase := by
          show PhaseOK cfg _
          unfold PhaseOK; simp only
          exact ⟨b.cc.1, b.cc.2, trivial⟩ }
  | cons n rest ih =>
    intro s b
    obtain ⟨hd1, hd2, hd3⟩ := drop_cons_facts b.histDrop
    have hheldL : heldL s.workers = [] := heldL_nil_iff.2 fun w hw' => (b.held w hw').1
    cases hm : cfg.mulP
    · have hm' : s.cfg.mulP = false := by rw [b.cfg_eq]; exact hm
      obtain ⟨hgot, hlive, hne⟩ := b.modeF hm
      by_cases hn : n = 0
      · -- empty call: skipped
        subst hn
        simp only [startCallGo, hm', Bool.false_eq_true, if_false, if_true]
        apply ih
        exact {
          cfg_eq := b.cfg_eq
          wids := b.wids
          held := b.held
          workQ := b.workQ
          resQ := b.resQ
          buffer := rfl
          cc := ⟨rfl, rfl⟩
          fin := rfl
          gotp := by simp
          modeP := by simp [hm]
          modeF := fun _ => ⟨rfl, hlive, hne⟩
          len := b.len
          old := b.old
          histDrop := hd1
          histLe := hd2
          histTot := fun _ => by simpa using hd3
          outs := fun k => by
            show outK s.out k = _
            rw [b.outs k]; exact (expOut_skip _ _ hd3 k).symm }
      · simp only [startCallGo, hm', Bool.false_eq_true, if_false, hn]
        refine ⟨?_, by simp⟩
        exact {
          cfg_eq := b.cfg_eq
          wids := b.wids
          held_put := fun w hw' => by have := b.held w hw'; simp [this]
          cons := by simp [b.workQ, b.resQ, hheldL]
          fin := rfl
          modeP := by simp [hm]
          modeF := fun _ => rfl
          wfbuf := by simp
          count := by simp [b.workQ, hlive, posted]
          nonone := by simp [b.workQ]
          sortedQ := by simp [b.workQ]
          exitedQ := by simp [b.workQ]
          joinedEx := by simpa [joined] using b.old
          notStarted := fun w hw' hp => absurd hp (b.held w hw').2.2
          len := by rcases b.len with h | h; exact Or.inl h; exact absurd h hne
          histDrop := hd1
          histLe := hd2
          histTot := fun _ => by simpa using hd3
          outs := fun k => by
            show outK s.out k = _
            rw [b.outs k]; simp [cur, hm]
          phase := by
            show PhaseOK cfg _
            unfold PhaseOK; simp only
            exact ⟨trivial, by omega, by omega⟩ }
    · have hm' : s.cfg.mulP = true := by rw [b.cfg_eq]; exact hm
      have hn' : s.cfg.nWorkers = cfg.nWorkers := by rw [b.cfg_eq]
      obtain ⟨hwf, hex⟩ := b.modeP hm
      simp only [startCallGo, hm', if_true, hn']
      refine ⟨?_, by simp⟩
      exact {
        cfg_eq := b.cfg_eq
        wids := by
          simp only [List.map_append, b.wids, mkWorkers_wids, List.length_append, mkWorkers_length, List.range_add]
        held_put := fun w hw' => by
          rcases List.mem_append.1 hw' with h | h
          · have := b.held w h; simp [this]
          · have := mem_mkWorkers h; simp [this]
        cons := by simp [b.workQ, b.resQ, hheldL]
        fin := rfl
        modeP := fun _ => ⟨rfl, rfl⟩
        modeF := by simp [hm]
        wfbuf := by simp
        count := by simp [b.workQ, live_zero_iff.2 hex, posted]
        nonone := by simp [b.workQ]
        sortedQ := by simp [b.workQ]
        exitedQ := by simp [b.workQ]
        joinedEx := fun w hw' hlt => by
          rcases List.mem_append.1 hw' with h | h
          · exact hex w h
          · have := mem_mkWorkers h; simp [joined] at hlt; omega
        notStarted := fun w hw' hp => by
          rcases List.mem_append.1 hw' with h | h
          · rw [hex w h] at hp; cases hp
          · exact ⟨0, rfl, (mem_mkWorkers h).2.2.1⟩
        len := Or.inl (by simp)
        histDrop := hd1
        histLe := hd2
        histTot := fun _ => by simpa using hd3
        outs := fun k => by
          show outK s.out k = _
          rw [b.outs k]; simp [cur, hm]
        phase := by
          show PhaseOK cfg _
          unfold PhaseOK; simp only
          refine ⟨by omega, trivial, trivial, trivial, fun _ => by omega, by simp [hm], ?_⟩
          intro w hw' hle
          rcases List.mem_append.1 hw' with h | h
          · have := wid_lt_of_mem b.wids h; omega
          · exact (mem_mkWorkers h).1 }

theorem startCallGo_ppc (l : List Nat) : ∀ (s : St) (p : PPc), startCallGo { s with ppc := p } l = startCallGo s l := by
  induction l with
  | nil => intro s p; simp only [startCallGo]
  | cons n rest ih =>
    intro s p
    simp only [startCallGo]
    split
    · rfl
    · split
      · have := ih { s with
          callsLeft := rest, callNo := s.callNo + 1, total := n, next := 0, dataCnt := 0, finished := 0, buffer := [],
          wf := 0, got := [] } p
        exact this
      · rfl

theorem finalOrNext_ppc (s : St) (p : PPc) : finalOrNext { s with ppc := p } = finalOrNext s := by
  simp only [finalOrNext, startCall]
  split
  · rfl
  · split
    · split
      · exact startCallGo_ppc s.callsLeft
          { s with out := s.out ++ List.map (fun j => (s.callNo, j)) (sortedGot s) } p
      · rfl
    · exact startCallGo_ppc s.callsLeft s p

/-- a quiet state at the end of a call satisfies the call-boundary condition -/
theorem bnd_of_quiet {cfg : Cfg} (hw : 1 ≤ cfg.nWorkers) {s : St} (h : Main cfg s) (hf : s.finished = s.dataCnt)
    (ht : s.dataCnt = s.total) (hns : ∀ w ∈ s.workers, w.pc ≠ .notStarted)
    (hF : cfg.mulP = false → posted cfg s.ppc = 0)
    (hP : cfg.mulP = true → posted cfg s.ppc = cfg.nWorkers ∧ (∀ w ∈ s.workers, w.pc = .exited) ∧
      cur cfg s.ppc s.total s.wf = s.total) (hj : joined cfg s.ppc = 0 ∨ cfg.mulP = true) :
    Bnd cfg s s.callsLeft := by
  obtain ⟨q1, q2, q3, q4, q5⟩ := main_quiet h hf
  have hheld : ∀ w ∈ s.workers, w.held = none := heldL_nil_iff.1 q2
  have hwq : s.workQ = [] := by
    apply queue_nil_of _ q1
    cases hm : cfg.mulP
    · exact nonesQ_eq_zero (h.nonone (hF hm))
    · obtain ⟨hp1, hp2, _⟩ := hP hm
      have := h.count; rw [hp1, live_zero_iff.2 hp2] at this; omega
  exact {
    cfg_eq := h.cfg_eq
    wids := h.wids
    held := fun w hw' => ⟨hheld w hw', fun hp => by have := (h.held_put w hw').1 hp; exact this (hheld w hw'), hns w hw'⟩
    workQ := hwq
    resQ := q3
    buffer := q4
    cc := ⟨hf, ht⟩
    fin := h.fin
    gotp := q5
    modeP := fun hm => ⟨(h.modeP hm).2, (hP hm).2.1⟩
    modeF := fun hm => by
      refine ⟨h.modeF hm, ?_, ?_⟩
      · have := h.count; rw [hF hm, hwq] at this; simpa using this
      · intro he
        have := h.count; rw [hF hm, hwq, he] at this; simp at this; omega
    len := by rcases h.len with h' | h'; exact Or.inl h'; exact Or.inr h'.1
    old := fun w hw' hlt => by
      rcases hj with hj | hj
      · exact h.joinedEx w hw' (by omega)
      · exact (hP hj).2.1 w hw'
    histDrop := h.histDrop
    histLe := h.histLe
    histTot := h.histTot
    outs := fun k => by
      rw [h.outs k, expOut_complete _ _ _ h.histTot]
      cases hm : cfg.mulP
      · have : s.wf = s.total := by have := h.fin; rw [h.modeF hm] at this; simp at this; omega
        simp [cur, hm, this]
      · rw [(hP hm).2.2] }

/-- the final drain loop: either one more blocking `get`, or the call is over -/
theorem inv_finalOrNext {cfg : Cfg} (hw : 1 ≤ cfg.nWorkers) {s : St} (h : Main cfg s) (hp : s.ppc = .finalGet) :
    Inv cfg (finalOrNext s) := by
  have hph := h.phase; unfold PhaseOK at hph; simp only [hp] at hph
  unfold finalOrNext
  by_cases hlt : s.finished < s.dataCnt
  · simp only [hlt, if_true]
    have : { s with ppc := PPc.finalGet } = s := by cases s; simp_all
    rw [this]; exact ⟨h, fun _ => hlt⟩
  · have hf : s.finished = s.dataCnt := by have := finished_le h; omega
    simp only [hlt, if_false]
    cases hm : cfg.mulP
    · have hm' : s.cfg.mulP = false := by rw [h.cfg_eq]; exact hm
      simp only [hm', Bool.false_eq_true, if_false, startCall]
      apply inv_startCallGo hw
      apply bnd_of_quiet hw h hf hph.1
      · intro w hw' hns
        obtain ⟨i, hi, _⟩ := h.notStarted w hw' hns
        rw [hp] at hi; cases hi
      · intro _; simp [posted, hp, hm]
      · intro hm2; rw [hm] at hm2; cases hm2
      · left; simp [joined, hp]
    · have hm' : s.cfg.mulP = true := by rw [h.cfg_eq]; exact hm
      have hn' : ¬ s.cfg.nWorkers = 0 := by rw [h.cfg_eq]; omega
      simp only [hm', if_true, hn', if_false]
      obtain ⟨q1, q2, q3, q4, q5⟩ := main_quiet h hf
      have hsg : sortedGot s = List.range s.total := by
        unfold sortedGot
        apply mergeSort_eq_range
        rw [(h.modeP hm).2, hph.1] at q5; simpa using q5
      refine ⟨?_, by simp⟩
      exact {
        cfg_eq := h.cfg_eq
        wids := h.wids
        held_put := h.held_put
        cons := h.cons
        fin := h.fin
        modeP := h.modeP
        modeF := h.modeF
        wfbuf := h.wfbuf
        count := by have := h.count; simpa [posted, hp, hm] using this
        nonone := fun h0 => by simp [posted] at h0; omega
        sortedQ := h.sortedQ
        exitedQ := h.exitedQ
        joinedEx := by have := h.joinedEx; simpa [joined, hp] using this
        notStarted := fun w hw' hns => by
          obtain ⟨i, hi, _⟩ := h.notStarted w hw' hns
          rw [hp] at hi; cases hi
        len := by
          rcases h.len with h' | h'
          · exact Or.inl h'
          · rw [hp] at h'; cases h'.2
        histDrop := h.histDrop
        histLe := h.histLe
        histTot := h.histTot
        outs := fun k => by
          show outK (s.out ++ _) k = _
          rw [outK_append_tag, h.outs k, hsg]
          have := expOut_cur_succ cfg s.callNo 0 s.total hph.2 k
          simp only [Nat.zero_add, ← List.range_eq_range'] at this
          simp [cur, hm, hp, this]
        phase := by
          show PhaseOK cfg _
          unfold PhaseOK; simp only
          exact ⟨by omega, hf, hph.1, by simp [hm]⟩ }

end WindVerif.FMap
