import WindVerif.Model.Storage
/-!
Auxiliary development for `Storage.lean`, part 1: basic lemmas about the state accessors and the control layer of the
invariant (`InvA`): history of the script, lock discipline, writer identifiers.
-/
namespace WindVerif.Storage

/-! ## accessors -/

@[simp] theorem getProc_eq (s : St) (i : Nat) : getProc s i = s.procs[i]? := rfl

@[simp] theorem setProc_procs (s : St) (i : Nat) (p : Proc) : (setProc s i p).procs = s.procs.set i p := rfl
@[simp] theorem setProc_paths (s : St) (i : Nat) (p : Proc) : (setProc s i p).paths = s.paths := rfl
@[simp] theorem setProc_index (s : St) (i : Nat) (p : Proc) : (setProc s i p).index = s.index := rfl
@[simp] theorem setProc_cnt (s : St) (i : Nat) (p : Proc) : (setProc s i p).cnt = s.cnt := rfl
@[simp] theorem setProc_wf (s : St) (i : Nat) (p : Proc) : (setProc s i p).wf = s.wf := rfl
@[simp] theorem setProc_lock (s : St) (i : Nat) (p : Proc) : (setProc s i p).lock = s.lock := rfl
@[simp] theorem setProc_files (s : St) (i : Nat) (p : Proc) : (setProc s i p).files = s.files := rfl

@[simp] theorem setFile_procs (s : St) (w : Nat) (c : List (Option Nat)) : (setFile s w c).procs = s.procs := rfl
@[simp] theorem setFile_paths (s : St) (w : Nat) (c : List (Option Nat)) : (setFile s w c).paths = s.paths := rfl
@[simp] theorem setFile_index (s : St) (w : Nat) (c : List (Option Nat)) : (setFile s w c).index = s.index := rfl
@[simp] theorem setFile_cnt (s : St) (w : Nat) (c : List (Option Nat)) : (setFile s w c).cnt = s.cnt := rfl
@[simp] theorem setFile_wf (s : St) (w : Nat) (c : List (Option Nat)) : (setFile s w c).wf = s.wf := rfl
@[simp] theorem setFile_lock (s : St) (w : Nat) (c : List (Option Nat)) : (setFile s w c).lock = s.lock := rfl

theorem lookup_filter_ne (l : List (Nat × List (Option Nat))) (w w' : Nat) (h : w' ≠ w) :
    (l.filter (fun p => p.1 ≠ w)).lookup w' = l.lookup w' := by
  induction l with
  | nil => rfl
  | cons a l ih =>
    obtain ⟨k, v⟩ := a
    rw [List.filter_cons]
    split
    · simp only [List.lookup_cons, ih]
    · rename_i hk
      have hk' : k = w := by simpa using hk
      subst hk'
      have : (w' == k) = false := by simpa using h
      rw [List.lookup_cons, this, ih]

theorem fileOf_setFile (s : St) (w w' : Nat) (c : List (Option Nat)) :
    fileOf (setFile s w c) w' = if w' = w then some c else fileOf s w' := by
  unfold fileOf setFile
  by_cases h : w' = w
  · subst h; simp
  · have : (w' == w) = false := by simpa using h
    rw [if_neg h]
    show List.lookup w' ((w, c) :: _) = _
    rw [List.lookup_cons, this, lookup_filter_ne _ _ _ h]

@[simp] theorem fileOf_setProc (s : St) (i : Nat) (p : Proc) (w : Nat) : fileOf (setProc s i p) w = fileOf s w := rfl

/-- the process table after a step of process `i` -/
theorem getElem?_set_proc (l : List Proc) (i j : Nat) (p p' q : Proc) (h : l[i]? = some p) :
    (l.set i p')[j]? = some q ↔ (j = i ∧ q = p') ∨ (j ≠ i ∧ l[j]? = some q) := by
  have hi : i < l.length := by
    rcases Nat.lt_or_ge i l.length with h' | h'
    · exact h'
    · simp [List.getElem?_eq_none h'] at h
  by_cases hji : j = i
  · subst hji; simp [hi, eq_comm]
  · have : i ≠ j := fun h => hji h.symm
    simp [List.getElem?_set_ne this, hji]

/-! ## `readlineAt` -/

theorem readlineAt_go_append (a b : List (Option Nat)) (h : none ∈ a) :
    readlineAt.go (a ++ b) = readlineAt.go a := by
  induction a with
  | nil => simp at h
  | cons x a ih =>
    cases x with
    | none => simp [readlineAt.go]
    | some t =>
      have : none ∈ a := by simpa using h
      simp [readlineAt.go, ih this]

theorem readlineAt_complete (c : List (Option Nat)) (off t : Nat) (h1 : c[off]? = some (some t))
    (h2 : c[off + 1]? = some none) : readlineAt c off = [some t, none] := by
  unfold readlineAt
  have hlt : off + 1 < c.length := by
    rcases Nat.lt_or_ge (off + 1) c.length with h' | h'
    · exact h'
    · simp [List.getElem?_eq_none h'] at h2
  have hd : c.drop off = some t :: none :: c.drop (off + 2) := by
    rw [List.drop_eq_getElem_cons (by omega), List.drop_eq_getElem_cons (by omega)]
    have e1 : c[off] = some t := by
      have := List.getElem?_eq_getElem (l := c) (i := off) (by omega); rw [this] at h1; simpa using h1
    have e2 : c[off + 1] = none := by
      have := List.getElem?_eq_getElem (l := c) (i := off + 1) hlt; rw [this] at h2; simpa using h2
    rw [e1, e2]
  simp [hd, readlineAt.go]

/-! ## `fetch` / `finish` leave most locals alone -/

set_option hygiene false in
macro "fetch_field" : tactic =>
  `(tactic| (
    cases h : Proc.script p0 with
    | nil => simp [fetch, h]
    | cons op rest => cases op <;> simp only [fetch, h] <;> (try split) <;> (try split) <;> rfl))

@[simp] theorem fetch_ident (p0 : Proc) : (fetch p0).ident = p0.ident := by
  fetch_field
@[simp] theorem fetch_results (p0 : Proc) : (fetch p0).results = p0.results := by
  fetch_field
@[simp] theorem fetch_depth (p0 : Proc) : (fetch p0).depth = p0.depth := by
  fetch_field
@[simp] theorem fetch_tmp (p0 : Proc) : (fetch p0).tmp = p0.tmp := by
  fetch_field
@[simp] theorem fetch_off (p0 : Proc) : (fetch p0).off = p0.off := by
  fetch_field
@[simp] theorem fetch_target (p0 : Proc) : (fetch p0).target = p0.target := by
  fetch_field
@[simp] theorem fetch_iterPos (p0 : Proc) : (fetch p0).iterPos = p0.iterPos := by
  fetch_field
@[simp] theorem fetch_iterLen (p0 : Proc) : (fetch p0).iterLen = p0.iterLen := by
  fetch_field
@[simp] theorem finish_ident (p : Proc) (r : Res) : (finish p r).ident = p.ident := by simp [finish]
@[simp] theorem finish_results (p : Proc) (r : Res) : (finish p r).results = p.results ++ [r] := by simp [finish]
@[simp] theorem finish_depth (p : Proc) (r : Res) : (finish p r).depth = p.depth := by simp [finish]

/-! ## classification of program counters -/

def isF : Pc → Bool
  | .fAcq | .fPathsGet | .fRemove | .fPathsClear | .fIdxClear | .fCntZero | .fWfZero | .fRel => true
  | _ => false

/-- the script operation in progress -/
def curOp (p : Proc) : Option Op :=
  match p.pc with
  | .idle => none
  | .oAcq | .oPathsLen | .oPathsAppend | .oRel | .oOpenW | .oPathsGet | .oOpenA
  | .sAcq | .sIdxLen1 | .sIdxLen2 | .sIdxExtend | .sIdxGet | .sTell | .sWriteText | .sWriteNl | .sFlush | .sIdxSet
  | .sCntRead | .sCntWrite | .sWfRead1 | .sWfRead2 | .sWfWrite1 | .sLoopWf | .sLoopCnt | .sLoopWf2 | .sLoopIdx
  | .sLoopWfR | .sLoopWfW | .sRelErr | .sRel => some (.store p.gid p.text)
  | .gAcq | .gIdxLen | .gIdxGet | .gRelErr | .gRel | .gPathsGet | .gOpenR | .gSeek | .gReadline =>
    if p.inIter then some .iter else some (.read p.gid)
  | .lCnt => some .len
  | .cWf | .cCnt => some .contig
  | .iAcq | .iIdxLen | .iRel => some .iter
  | .fAcq | .fPathsGet | .fRemove | .fPathsClear | .fIdxClear | .fCntZero | .fWfZero | .fRel => some .flush
  | .xClose => some .close

/-- how many times the process holds the lock, as a function of its control state -/
def dep (p : Proc) : Nat :=
  match p.pc with
  | .oPathsLen | .oPathsAppend | .oRel => 1
  | .sIdxLen1 | .sIdxLen2 | .sIdxExtend | .sIdxGet | .sTell | .sWriteText | .sWriteNl | .sFlush | .sIdxSet
  | .sCntRead | .sCntWrite | .sWfRead1 | .sWfRead2 | .sWfWrite1 | .sLoopWf | .sLoopCnt | .sLoopWf2 | .sLoopIdx
  | .sLoopWfR | .sLoopWfW | .sRelErr | .sRel => 1
  | .gAcq | .gPathsGet | .gOpenR | .gSeek | .gReadline => if p.inIter then 1 else 0
  | .gIdxLen | .gIdxGet | .gRelErr | .gRel => if p.inIter then 2 else 1
  | .iIdxLen | .iRel => 1
  | .fPathsGet | .fRemove | .fPathsClear | .fIdxClear | .fCntZero | .fWfZero | .fRel => 1
  | _ => 0

/-- pcs of `open()` -/
def isO : Pc → Bool
  | .oAcq | .oPathsLen | .oPathsAppend | .oRel | .oOpenW | .oPathsGet | .oOpenA => true
  | _ => false

/-- pcs of `__setitem__` -/
def isS : Pc → Bool
  | .sAcq | .sIdxLen1 | .sIdxLen2 | .sIdxExtend | .sIdxGet | .sTell | .sWriteText | .sWriteNl | .sFlush | .sIdxSet
  | .sCntRead | .sCntWrite | .sWfRead1 | .sWfRead2 | .sWfWrite1 | .sLoopWf | .sLoopCnt | .sLoopWf2 | .sLoopIdx
  | .sLoopWfR | .sLoopWfW | .sRelErr | .sRel => true
  | _ => false

/-! ## the control layer of the invariant -/

structure LocA (scripts : List (List Op)) (s : St) (i : Nat) (p : Proc) : Prop where
  hist : ∃ sc, scripts[i]? = some sc ∧ sc.drop p.results.length = (curOp p).toList ++ p.script
  noFs : Op.flush ∉ p.script
  noF : isF p.pc = false
  depth : p.depth = dep p
  lock : 0 < dep p ↔ s.lock = some i
  identLt : ∀ w, p.ident = some w → w < s.paths.length
  openId : p.wOpen = true → p.ident.isSome = true     -- (a closed handle keeps the identifier: `close()`)
  oPc : isO p.pc = true → p.wOpen = false
  sPc : isS p.pc = true → p.wOpen = true
  oIdNone : p.pc = .oAcq ∨ p.pc = .oPathsLen ∨ p.pc = .oPathsAppend → p.ident = none
  oIdSome : p.pc = .oRel ∨ p.pc = .oOpenW → p.ident.isSome = true
  getId : p.pc = .oPathsGet ∨ p.pc = .oOpenA → p.ident.isSome = true
  tmpPaths : p.pc = .oPathsAppend → p.tmp = s.paths.length

structure InvA (scripts : List (List Op)) (s : St) : Prop where
  loc : ∀ i p, s.procs[i]? = some p → LocA scripts s i p
  uniq : ∀ (i j : Nat) (p q : Proc) (w : Nat), s.procs[i]? = some p → s.procs[j]? = some q → p.ident = some w → q.ident = some w → i = j

end WindVerif.Storage
